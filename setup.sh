#!/bin/bash
# Offline setup: contract libs into .deps, both extension builds, empty typeshed.
HERE="$(cd "$(dirname "$0")" && pwd)"
cd "$HERE"
export PYTHONPATH="$HERE:${VERIF_REPO:-/repo}"
export PYTHONPYCACHEPREFIX="$HERE/build/pycache"
exec /venv/bin/python -m vf.boot
