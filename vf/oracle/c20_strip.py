"""C20 oracle: what did merge-pyi change?  Computed with the stdlib `ast` only.

`compare(P, M)` walks the syntax trees of the original source P and the merged
source M in lock step.  Everything except annotations has to be identical;
statements that exist only in M may only be of the kinds the property allows
the merge to add (value-less annotated declarations, imports, `T = TypeVar(..)`
assignments).  The walk returns

  * the first structural mismatch, if any (== `strip(M) != strip(P)`),
  * every annotation *slot* (parameter / return / variable) with the text it
    had in P and has in M, and where it lives (scope chain),
  * the statements / import aliases that exist only in M.

`StubInfo` reads a stub with `ast` and answers "what does the stub give for
this definition", mimicking how libcst's ApplyTypeAnnotationsVisitor keys
definitions (qualified name through classes + parameter-shape key); whatever
is ambiguous is answered with NOT_JUDGED.

`judge(...)` turns that into verdict records.  Nothing in here imports libcst
or pytype.
"""
from __future__ import annotations

import ast

NOT_JUDGED = "<not judged>"
ANN_FIELDS = {("arg", "annotation"), ("FunctionDef", "returns"), ("AsyncFunctionDef", "returns"),
              ("AnnAssign", "annotation")}
_FUNCS = (ast.FunctionDef, ast.AsyncFunctionDef)


# ---------------------------------------------------------------------------
# small helpers


def unparse(node):
  return None if node is None else ast.unparse(node)


def dump(node):
  if node is None:
    return None
  if isinstance(node, list):
    return [dump(n) for n in node]
  return ast.dump(node)


def is_typevar_assign(st):
  """`X = TypeVar(...)` / `X = typing.TypeVar(...)` (single Name target)."""
  if not (isinstance(st, ast.Assign) and len(st.targets) == 1 and isinstance(st.targets[0], ast.Name)):
    return False
  v = st.value
  if not isinstance(v, ast.Call):
    return False
  f = v.func
  return (isinstance(f, ast.Name) and f.id == "TypeVar") or (
      isinstance(f, ast.Attribute) and f.attr == "TypeVar")


def import_aliases(st):
  if isinstance(st, ast.Import):
    return [("", a.name, a.asname) for a in st.names]
  if isinstance(st, ast.ImportFrom):
    return [("." * st.level + (st.module or ""), a.name, a.asname) for a in st.names]
  return []


class Mismatch(Exception):
  def __init__(self, where, what, p=None, m=None):
    super().__init__(what)
    self.where, self.what, self.p, self.m = where, what, p, m

  def as_dict(self):
    return {"where": self.where, "what": self.what, "p": self.p, "m": self.m}


# ---------------------------------------------------------------------------
# lock-step comparison


class Comparison:
  """Result of compare()."""

  def __init__(self):
    self.mismatch = None        # dict or None
    self.slots = []             # dicts, see _slot
    self.decls = []             # value-less AnnAssign only in M: {scope, name, ann, target}
    self.added_imports = []     # (module, name, asname, scope_is_module)
    self.added_typevars = []    # (name, text)
    self.added_classes = []     # names of ClassDefs only in M (module level)
    self.generic_bases = []     # {"class", "base"} : Generic[...] base appended

  @property
  def strip_equal(self):
    return self.mismatch is None


def _scope_str(scope):
  return ".".join(n for _, n in scope)


class _Walker:
  def __init__(self, tolerate_added_classes=False, tolerate_generic_base=True):
    self.c = Comparison()
    self.scope = []             # [(kind, name)] kind in {"class","func"}
    self.func = None            # innermost function node of P (for slots)
    self.tolerate_added_classes = tolerate_added_classes
    self.tolerate_generic_base = tolerate_generic_base

  # -- slots ---------------------------------------------------------------
  def _slot(self, kind, name, p_ann, m_ann, **kw):
    d = {"scope": list(self.scope), "kind": kind, "name": name,
         "p": unparse(p_ann), "m": unparse(m_ann),
         "p_dump": dump(p_ann), "m_dump": dump(m_ann),
         "m_is_str": isinstance(m_ann, ast.Constant) and isinstance(m_ann.value, str)}
    if kind in ("param", "return") and self.func is not None:
      d["fkey"] = func_key(self.func)
    d.update(kw)
    self.c.slots.append(d)

  # -- bodies --------------------------------------------------------------
  def _droppable(self, st):
    """Kinds of statement the merge may add."""
    at_module = not self.scope
    if isinstance(st, ast.AnnAssign) and st.value is None:
      return "decl"
    if at_module and isinstance(st, (ast.Import, ast.ImportFrom)):
      return "import"
    if at_module and is_typevar_assign(st):
      return "typevar"
    if at_module and isinstance(st, ast.ClassDef) and self.tolerate_added_classes:
      return "class"
    return None

  def _drop(self, st, kind):
    if kind == "decl":
      self.c.decls.append({"scope": list(self.scope), "name": unparse(st.target),
                           "target_is_name": isinstance(st.target, ast.Name),
                           "ann": unparse(st.annotation), "ann_dump": dump(st.annotation),
                           "lineno": st.lineno})
    elif kind == "import":
      for mod, name, asname in import_aliases(st):
        self.c.added_imports.append((mod, name, asname))
    elif kind == "typevar":
      self.c.added_typevars.append((st.targets[0].id, ast.unparse(st)))
    elif kind == "class":
      self.c.added_classes.append(st.name)

  def body(self, pb, mb, field):
    i = j = 0
    while i < len(pb) or j < len(mb):
      if i < len(pb) and j < len(mb):
        saved = self._save()
        try:
          self.stmt(pb[i], mb[j])
          i += 1
          j += 1
          continue
        except Mismatch as e:
          first_err = e
          self._restore(saved)
      else:
        first_err = None
      if j < len(mb):
        kind = self._droppable(mb[j])
        if kind:
          self._drop(mb[j], kind)
          j += 1
          continue
      if first_err is not None:
        # is P[i] still there further down?  then M[j] is a statement the merge added
        for j2 in range(j + 1, min(len(mb), j + 12)):
          saved = self._save()
          try:
            self.stmt(pb[i], mb[j2])
            ok = True
          except Mismatch:
            ok = False
          self._restore(saved)
          if ok:
            raise Mismatch(_scope_str(self.scope) or "<module>",
                           f"statement added by the merge ({field}): {type(mb[j]).__name__}",
                           m=ast.unparse(mb[j])[:300])
        # or is M[j] a later statement of P?  then P[i] went missing
        for i2 in range(i + 1, min(len(pb), i + 12)):
          saved = self._save()
          try:
            self.stmt(pb[i2], mb[j])
            ok = True
          except Mismatch:
            ok = False
          self._restore(saved)
          if ok:
            raise Mismatch(_scope_str(self.scope) or "<module>",
                           f"statement of the original missing from the merged source ({field})",
                           p=ast.unparse(pb[i])[:300])
        raise first_err
      where = _scope_str(self.scope) or "<module>"
      if i < len(pb):
        raise Mismatch(where, f"statement of the original missing from the merged source ({field})",
                       p=ast.unparse(pb[i])[:300])
      raise Mismatch(where, f"statement added by the merge ({field}): {type(mb[j]).__name__}",
                     m=ast.unparse(mb[j])[:300])

  def _save(self):
    c = self.c
    return (len(c.slots), len(c.decls), len(c.added_imports), len(c.added_typevars),
            len(c.added_classes), len(c.generic_bases), list(self.scope), self.func)

  def _restore(self, s):
    c = self.c
    del c.slots[s[0]:], c.decls[s[1]:], c.added_imports[s[2]:], c.added_typevars[s[3]:]
    del c.added_classes[s[4]:], c.generic_bases[s[5]:]
    self.scope[:] = s[6]
    self.func = s[7]

  # -- statements ------------------------------------------------------------
  def stmt(self, p, m):
    where = _scope_str(self.scope) or "<module>"
    # Assign in P  <->  AnnAssign-with-value in M   (an inserted variable annotation)
    if isinstance(p, ast.Assign) and isinstance(m, ast.AnnAssign) and m.value is not None:
      if len(p.targets) != 1 or dump(p.targets[0]) != dump(m.target):
        raise Mismatch(where, "assignment targets differ", ast.unparse(p)[:200], ast.unparse(m)[:200])
      self.node(p.value, m.value, "value")
      self._slot("var", unparse(m.target), None, m.annotation, lineno=m.lineno,
                 target_is_name=isinstance(m.target, ast.Name), has_value=True)
      return
    if isinstance(p, ast.AnnAssign) and isinstance(m, ast.Assign):
      raise Mismatch(where, "annotated assignment lost its annotation",
                     ast.unparse(p)[:200], ast.unparse(m)[:200])
    if type(p) is not type(m):
      raise Mismatch(where, f"statement kind differs: {type(p).__name__} vs {type(m).__name__}",
                     ast.unparse(p)[:200], ast.unparse(m)[:200])
    if isinstance(p, ast.AnnAssign):
      if dump(p.target) != dump(m.target) or p.simple != m.simple:
        raise Mismatch(where, "annotated assignment target differs", ast.unparse(p)[:200],
                       ast.unparse(m)[:200])
      if (p.value is None) != (m.value is None):
        raise Mismatch(where, "annotated assignment value appeared/disappeared",
                       ast.unparse(p)[:200], ast.unparse(m)[:200])
      if p.value is not None:
        self.node(p.value, m.value, "value")
      self._slot("var", unparse(p.target), p.annotation, m.annotation, lineno=m.lineno,
                 target_is_name=isinstance(p.target, ast.Name), has_value=p.value is not None)
      return
    if isinstance(p, (ast.Import, ast.ImportFrom)):
      self.imports(p, m)
      return
    if isinstance(p, _FUNCS):
      self.function(p, m)
      return
    if isinstance(p, ast.ClassDef):
      self.klass(p, m)
      return
    self.node(p, m, type(p).__name__)

  def imports(self, p, m):
    where = _scope_str(self.scope) or "<module>"
    if isinstance(p, ast.ImportFrom) and (p.module != m.module or p.level != m.level):
      raise Mismatch(where, "import-from module differs", ast.unparse(p), ast.unparse(m))
    pa, ma = import_aliases(p), import_aliases(m)
    # P's aliases must be a subsequence of M's; extras are imports the merge added
    i = 0
    extra = []
    for a in ma:
      if i < len(pa) and a == pa[i]:
        i += 1
      else:
        extra.append(a)
    if i != len(pa):
      raise Mismatch(where, "import statement lost or reordered names", ast.unparse(p), ast.unparse(m))
    if extra and self.scope:
      raise Mismatch(where, "names added to a non-module-level import", ast.unparse(p), ast.unparse(m))
    self.c.added_imports.extend(extra)

  def function(self, p, m):
    where = _scope_str(self.scope) or "<module>"
    if p.name != m.name:
      raise Mismatch(where, "function name differs", p.name, m.name)
    self.nodes(p.decorator_list, m.decorator_list, "decorator_list")
    if getattr(p, "type_params", None) or getattr(m, "type_params", None):
      self.nodes(p.type_params, m.type_params, "type_params")
    self.scope.append(("func", p.name))
    old = self.func
    self.func = p
    try:
      pa, ma = p.args, m.args
      for fld in ("posonlyargs", "args", "kwonlyargs"):
        pl, ml = getattr(pa, fld), getattr(ma, fld)
        if [a.arg for a in pl] != [a.arg for a in ml]:
          raise Mismatch(_scope_str(self.scope), f"parameters differ ({fld})",
                         [a.arg for a in pl], [a.arg for a in ml])
        for idx, (x, y) in enumerate(zip(pl, ml)):
          self._slot("param", x.arg, x.annotation, y.annotation, pkind=fld, index=idx,
                     lineno=y.lineno)
      for fld in ("vararg", "kwarg"):
        x, y = getattr(pa, fld), getattr(ma, fld)
        if (x is None) != (y is None) or (x is not None and x.arg != y.arg):
          raise Mismatch(_scope_str(self.scope), f"parameters differ ({fld})",
                         x and x.arg, y and y.arg)
        if x is not None:
          self._slot("param", x.arg, x.annotation, y.annotation, pkind=fld, index=0,
                     lineno=y.lineno)
      self.nodes(pa.defaults, ma.defaults, "defaults")
      self.nodes(pa.kw_defaults, ma.kw_defaults, "kw_defaults")
      self._slot("return", p.name, p.returns, m.returns, lineno=m.lineno)
      self.body(p.body, m.body, "body")
    finally:
      self.scope.pop()
      self.func = old

  def klass(self, p, m):
    where = _scope_str(self.scope) or "<module>"
    if p.name != m.name:
      raise Mismatch(where, "class name differs", p.name, m.name)
    self.nodes(p.decorator_list, m.decorator_list, "decorator_list")
    pb, mb = list(p.bases), list(m.bases)
    if (self.tolerate_generic_base is not None and len(mb) == len(pb) + 1
        and isinstance(mb[-1], ast.Subscript) and isinstance(mb[-1].value, ast.Name)
        and mb[-1].value.id == "Generic"):
      self.c.generic_bases.append({"class": p.name, "base": ast.unparse(mb[-1])})
      mb = mb[:-1]
    self.nodes(pb, mb, "bases")
    self.nodes(p.keywords, m.keywords, "keywords")
    if getattr(p, "type_params", None) or getattr(m, "type_params", None):
      self.nodes(p.type_params, m.type_params, "type_params")
    self.scope.append(("class", p.name))
    try:
      self.body(p.body, m.body, "body")
    finally:
      self.scope.pop()

  # -- generic nodes -----------------------------------------------------------
  def nodes(self, pl, ml, field):
    if len(pl) != len(ml):
      raise Mismatch(_scope_str(self.scope) or "<module>", f"{field}: length differs",
                     [unparse(x) for x in pl][:6], [unparse(x) for x in ml][:6])
    for x, y in zip(pl, ml):
      self.node(x, y, field)

  def node(self, p, m, field):
    where = _scope_str(self.scope) or "<module>"
    if p is None or m is None:
      if p is not m:
        raise Mismatch(where, f"{field}: present/absent", unparse(p), unparse(m))
      return
    if type(p) is not type(m):
      raise Mismatch(where, f"{field}: node kind differs {type(p).__name__} vs {type(m).__name__}",
                     unparse(p)[:200], unparse(m)[:200])
    if isinstance(p, ast.Lambda):
      # lambdas cannot carry annotations: plain dump equality
      if dump(p) != dump(m):
        raise Mismatch(where, "lambda differs", unparse(p)[:200], unparse(m)[:200])
      return
    for name in p._fields:
      a, b = getattr(p, name, None), getattr(m, name, None)
      if isinstance(a, list):
        if not isinstance(b, list):
          raise Mismatch(where, f"{type(p).__name__}.{name} differs")
        if a and isinstance(a[0], ast.stmt) or b and isinstance(b[0], ast.stmt):
          self.body(a, b, f"{type(p).__name__}.{name}")
        elif a and isinstance(a[0], (ast.excepthandler, ast.match_case)) or \
             b and isinstance(b[0], (ast.excepthandler, ast.match_case)):
          self.nodes(a, b, name)
        else:
          if len(a) != len(b):
            raise Mismatch(where, f"{type(p).__name__}.{name}: length differs",
                           unparse(p)[:200], unparse(m)[:200])
          for x, y in zip(a, b):
            if isinstance(x, ast.AST) or isinstance(y, ast.AST):
              self.node(x, y, name)
            elif x != y:
              raise Mismatch(where, f"{type(p).__name__}.{name} differs", repr(x), repr(y))
      elif isinstance(a, ast.AST) or isinstance(b, ast.AST):
        self.node(a, b, name)
      elif a != b or type(a) is not type(b):
        raise Mismatch(where, f"{type(p).__name__}.{name} differs", repr(a)[:200], repr(b)[:200])


def compare(p_tree, m_tree, tolerate_added_classes=False):
  w = _Walker(tolerate_added_classes=tolerate_added_classes)
  try:
    if ast.get_docstring(p_tree, clean=False) != ast.get_docstring(m_tree, clean=False):
      raise Mismatch("<module>", "module docstring displaced: statements inserted above it",
                     m=ast.unparse(m_tree.body[0])[:200] if m_tree.body else None)
    w.body(p_tree.body, m_tree.body, "Module.body")
    if dump(p_tree.type_ignores) != dump(m_tree.type_ignores):
      raise Mismatch("<module>", "type_ignores differ")
  except Mismatch as e:
    w.c.mismatch = e.as_dict()
  except RecursionError:
    w.c.mismatch = {"where": "?", "what": NOT_JUDGED + " recursion limit"}
  return w.c


def strip_dump(tree):
  """The textbook form of strip() for a tree *on its own* (used by unit probes and
  as a cross-check of compare() when nothing was added)."""
  class T(ast.NodeTransformer):
    def visit_FunctionDef(self, n):
      self.generic_visit(n)
      n.returns = None
      for a in n.args.posonlyargs + n.args.args + n.args.kwonlyargs:
        a.annotation = None
      for a in (n.args.vararg, n.args.kwarg):
        if a is not None:
          a.annotation = None
      return n
    visit_AsyncFunctionDef = visit_FunctionDef

    def visit_AnnAssign(self, n):
      self.generic_visit(n)
      if n.value is None:
        n.annotation = ast.Constant("<ann>")
        return n
      return ast.copy_location(ast.Assign(targets=[n.target], value=n.value), n)
  import copy
  return ast.dump(T().visit(copy.deepcopy(tree)))


# ---------------------------------------------------------------------------
# annotation text normalisation (modulo quotes and `typing.` prefix)


class _Norm(ast.NodeTransformer):
  def __init__(self, typing_aliases):
    self.al = typing_aliases
    self.in_literal = 0

  def visit_Attribute(self, n):
    if isinstance(n.value, ast.Name) and n.value.id in self.al:
      return ast.Name(id=n.attr, ctx=ast.Load())
    self.generic_visit(n)
    return n

  def visit_Subscript(self, n):
    head = n.value
    lit = (isinstance(head, ast.Name) and head.id == "Literal") or (
        isinstance(head, ast.Attribute) and head.attr == "Literal")
    n.value = self.visit(n.value)
    if lit:
      return n
    n.slice = self.visit(n.slice)
    return n

  def visit_Constant(self, n):
    if isinstance(n.value, str):
      try:
        inner = ast.parse(n.value.strip(), mode="eval").body
      except SyntaxError:
        return n
      return self.visit(inner)
    return n


def norm_ann(text, typing_aliases=("typing",)):
  """Canonical text of an annotation modulo quoting and `typing.` qualification."""
  if text is None:
    return None
  try:
    node = ast.parse(text, mode="eval").body
  except SyntaxError:
    return "<unparseable>" + text
  node = _Norm(set(typing_aliases)).visit(node)
  return ast.unparse(ast.fix_missing_locations(node))


# ---------------------------------------------------------------------------
# what the stub gives


def func_key(node):
  """The shape key libcst uses (FunctionKey) - computed from `ast`."""
  a = node.args
  return (len(a.args), ",".join(sorted(x.arg for x in a.kwonlyargs)), len(a.posonlyargs),
          bool(a.vararg) or bool(a.kwonlyargs), bool(a.kwarg))


class StubInfo:
  def __init__(self, text):
    self.tree = ast.parse(text)
    self.funcs = {}       # qualname -> [FunctionDef]
    self.vars = {}        # qualname -> [AnnAssign]
    self.classes = {}     # qualname -> ClassDef
    self.class_short = set()
    self.imports = set()
    self.typevars = {}
    self.typing_aliases = {"typing"}
    self.conditional = False   # definitions under if/try: we do not model those
    self._walk(self.tree.body, [])

  def _walk(self, body, q):
    for st in body:
      if isinstance(st, _FUNCS):
        self.funcs.setdefault(".".join(q + [st.name]), []).append(st)
      elif isinstance(st, ast.ClassDef):
        self.classes[".".join(q + [st.name])] = st
        self.class_short.add(st.name)
        self._walk(st.body, q + [st.name])
      elif isinstance(st, ast.AnnAssign):
        t = st.target
        name = None
        if isinstance(t, ast.Name):
          name = t.id
        elif isinstance(t, ast.Attribute):
          name = ast.unparse(t)
        if name is not None:
          self.vars.setdefault(".".join(q + [name]), []).append(st)
      elif isinstance(st, (ast.Import, ast.ImportFrom)):
        for mod, name, asname in import_aliases(st):
          self.imports.add((mod, name, asname))
          if mod == "" and name == "typing":
            self.typing_aliases.add(asname or "typing")
      elif is_typevar_assign(st):
        self.typevars[st.targets[0].id] = ast.unparse(st)
      elif isinstance(st, (ast.If, ast.Try, ast.With)):
        self.conditional = True


def collect_typing_aliases(tree):
  out = {"typing"}
  for st in ast.walk(tree):
    if isinstance(st, ast.Import):
      for a in st.names:
        if a.name == "typing":
          out.add(a.asname or "typing")
  return out


def is_bare_any_never(norm):
  return norm in ("Any", "Never")


def _is_name_any_never(node):
  return isinstance(node, ast.Name) and node.id in ("Any", "Never")


def _is_trivial_valueless(st):
  """RemoveTrivialTypesTransformer's documented rule (value-less `x: int` etc.)."""
  if st.value is not None:
    return False
  a = st.annotation
  if isinstance(a, ast.Name) and a.id in ("int", "str", "float", "bool", "complex"):
    return True
  return isinstance(a, ast.Subscript) and isinstance(a.value, ast.Name) and a.value.id == "Literal"


# ---------------------------------------------------------------------------
# definitions of P (for completeness expectations)


class SourceInfo:
  """Which P definitions are matched unambiguously (used only by the completeness clause)."""

  def __init__(self, tree):
    self.funcs = {}        # qualname -> [FunctionDef]  (class-chain scopes only, incl. under if/try)
    self.first_assign = {}   # (scope qualname, name) -> Assign node that libcst would annotate
    self.assign_count = {}
    self.tuple_targets = set()   # (scope qualname, name) bound by tuple/multi-target assignment
    self._walk(tree.body, [])

  def _walk(self, body, q):
    for st in body:
      if isinstance(st, _FUNCS):
        self.funcs.setdefault(".".join(q + [st.name]), []).append(st)
        continue
      if isinstance(st, ast.ClassDef):
        self._walk(st.body, q + [st.name])
        continue
      if isinstance(st, ast.Assign):
        sq = ".".join(q)
        if len(st.targets) == 1 and isinstance(st.targets[0], ast.Name):
          key = (sq, st.targets[0].id)
          self.first_assign.setdefault(key, st)
          self.assign_count[key] = self.assign_count.get(key, 0) + 1
        else:
          for t in st.targets:
            for n in ast.walk(t):
              if isinstance(n, ast.Name):
                self.tuple_targets.add((sq, n.id))
      for fld in ("body", "orelse", "finalbody"):
        sub = getattr(st, fld, None)
        if isinstance(sub, list) and sub and isinstance(sub[0], ast.stmt):
          self._walk(sub, q)
      for h in getattr(st, "handlers", []) or []:
        self._walk(h.body, q)
      for c in getattr(st, "cases", []) or []:
        self._walk(c.body, q)


# ---------------------------------------------------------------------------
# verdicts


def judge(py, pyi, merged, stub_by_pytype, tolerate_added_classes=False):
  """Returns {"violations": [(key, detail)], "counts": {...}, "nontrivial": bool}.

  `stub_by_pytype`: the stub was emitted by pytype for exactly this source.
  """
  counts = {}
  vio = []

  def cnt(k, n=1):
    counts[k] = counts.get(k, 0) + n

  def bad(key, **detail):
    vio.append((key, detail))

  try:
    p_tree = ast.parse(py)
  except (SyntaxError, ValueError) as e:
    cnt("not_judged:original does not parse")
    return {"violations": [], "counts": counts, "nontrivial": False}
  try:
    compile(merged, "<merged>", "exec", dont_inherit=True)
    m_tree = ast.parse(merged)
  except (SyntaxError, ValueError) as e:
    bad("merged source does not compile", error=str(e))
    return {"violations": vio, "counts": counts, "nontrivial": True}
  cnt("merged_compiles")
  try:
    stub = StubInfo(pyi)
  except (SyntaxError, ValueError):
    stub = None
    cnt("stub_not_parseable_by_ast")

  c = compare(p_tree, m_tree, tolerate_added_classes=tolerate_added_classes)
  if c.mismatch:
    mm = c.mismatch
    if mm["what"].startswith(NOT_JUDGED):
      cnt("not_judged:recursion")
      return {"violations": vio, "counts": counts, "nontrivial": False}
    key = "non-annotation change: " + _mismatch_mechanism(mm, stub)
    bad(key, mismatch=mm)
    return {"violations": vio, "counts": counts, "nontrivial": True}
  cnt("strip_equal")
  if not (c.decls or c.added_imports or c.added_typevars or c.added_classes or c.generic_bases):
    # nothing was added: the textbook strip() must agree too (cross-check of the walker)
    if strip_dump(p_tree) != strip_dump(m_tree):
      bad("non-annotation change: textbook strip() differs although the lock-step walk agreed")
  for g in c.generic_bases:
    bad("non-annotation change: Generic[...] base from the stub appended to a class", **g)
  if c.added_classes:
    cnt("tolerated:class definitions of the stub added (stub has definitions the source lacks)",
        len(c.added_classes))

  aliases = collect_typing_aliases(p_tree) | (stub.typing_aliases if stub else set())
  norm = lambda t: norm_ann(t, aliases)
  src = SourceInfo(p_tree)
  inserted = 0

  # -- imports / typevars the merge added must come from the stub
  if stub is not None:
    for mod, name, asname in c.added_imports:
      cnt("added_import_aliases")
      ok = (mod, name, asname) in stub.imports or (mod, name, None) in stub.imports
      if not ok and mod == "" and any(m2 == name or m2.startswith(name + ".") or name.startswith(m2 + ".")
                                      for m2, _, _ in stub.imports if m2):
        ok = True     # `import pkg` added to qualify `pkg.X` the stub from-imports
      if not ok and mod == "typing":
        ok = True     # typing names (TypeVar for injected definitions, etc.)
      if not ok and any(m2 == "" and (n2 == mod or n2.startswith(mod + ".")) for m2, n2, _ in stub.imports):
        ok = True     # `from pkg import X` added where the stub writes `pkg.X`
      if not ok:
        bad("import added that the stub does not contain", alias=[mod, name, asname])
    for name, text in c.added_typevars:
      cnt("added_typevar_definitions")
      if stub.typevars.get(name) != text:
        bad("TypeVar definition added that differs from the stub's", name=name, merged=text,
            stub=stub.typevars.get(name))

  # -- slots
  used_names = set()
  for s in c.slots:
    scope = s["scope"]
    in_func = any(k == "func" for k, _ in (scope[:-1] if s["kind"] in ("param", "return") else scope))
    qual = ".".join(n for _, n in scope)
    if s["p"] is not None:
      cnt("existing_annotations")
      if s["m"] is None:
        bad("existing annotation removed", where=qual, slot=s["kind"], name=s["name"], was=s["p"])
      elif s["p_dump"] != s["m_dump"]:
        bad("existing annotation changed", where=qual, slot=s["kind"], name=s["name"],
            was=s["p"], now=s["m"])
      else:
        cnt("existing_annotations_kept")
      continue
    if s["m"] is None:
      cnt("slots_left_unannotated")
      continue
    inserted += 1
    cnt("inserted_annotations")
    cnt(f"inserted_{s['kind']}_annotations")
    got = norm(s["m"])
    if s["kind"] != "param" or s.get("pkind") == "args":
      # (libcst does not run its name collector over positional-only / keyword-only
      #  parameter annotations, so TypeVars used only there are never defined: not judged)
      try:
        for n in ast.walk(ast.parse(got, mode="eval")):
          if isinstance(n, ast.Name):
            used_names.add(n.id)
      except SyntaxError:
        pass
    if s["kind"] in ("return", "var") and is_bare_any_never(got):
      bad(_any_key(s["kind"], _stub_spelling(stub, s, qual, src)), where=qual, name=s["name"],
          annotation=s["m"])
    if in_func or (s["kind"] == "var" and not s.get("target_is_name", True)):
      bad("annotation inserted inside a function body or on a non-name target", where=qual,
          slot=s["kind"], name=s["name"], annotation=s["m"])
      continue
    if stub is None:
      cnt("not_judged:stub not parseable")
      continue
    if s["kind"] == "var":
      cands = stub.vars.get((qual + "." if qual else "") + s["name"], [])
      if not cands:
        bad("annotation inserted for a variable the stub does not declare in that scope",
            where=qual, name=s["name"], annotation=s["m"])
      elif len(cands) > 1:
        cnt("not_judged:variable declared more than once in the stub")
      else:
        want = norm(unparse(cands[0].annotation))
        if want == got:
          cnt("inserted_matches_stub")
        else:
          bad("inserted annotation differs from the stub's", where=qual, slot="var",
              name=s["name"], merged=s["m"], stub=unparse(cands[0].annotation))
      continue
    # parameter / return
    fq = qual
    pfunc = [f for f in src.funcs.get(fq, [])]
    cands = stub.funcs.get(fq, [])
    if not cands:
      bad("annotation inserted for a function the stub does not define", where=fq,
          slot=s["kind"], name=s["name"], annotation=s["m"])
      continue
    # which P definition is this slot in?  (same qualname may be defined several times)
    kp = s.get("fkey")     # the shape of the very definition this slot belongs to
    if kp is None:
      cnt("not_judged:function not found in the source model")
      continue
    same = [f for f in cands if func_key(f) == kp]
    if not same:
      bad("annotation inserted although no stub definition has this parameter shape", where=fq,
          slot=s["kind"], name=s["name"], annotation=s["m"])
      continue
    if len(same) > 1:
      cnt("not_judged:several stub definitions (overloads) with the same shape")
      continue
    sf = same[0]
    if s["kind"] == "return":
      want_node = sf.returns
      if want_node is None:
        bad("annotation inserted where the stub gives none", where=fq, slot="return", annotation=s["m"])
        continue
    else:
      pk = s["pkind"]
      if pk in ("vararg", "kwarg"):
        want_arg = getattr(sf.args, pk)
      elif pk == "kwonlyargs":
        want_arg = next((a for a in sf.args.kwonlyargs if a.arg == s["name"]), None)
      else:
        lst = getattr(sf.args, pk)
        want_arg = lst[s["index"]] if s["index"] < len(lst) else None
        if want_arg is not None and want_arg.arg != s["name"]:
          cnt("not_judged:positional parameter named differently in the stub")
          continue
      want_node = want_arg.annotation if want_arg is not None else None
      if want_node is None:
        bad("annotation inserted where the stub gives none", where=fq, slot="param",
            name=s["name"], annotation=s["m"])
        continue
    want = norm(unparse(want_node))
    if want == got:
      cnt("inserted_matches_stub")
    else:
      bad("inserted annotation differs from the stub's", where=fq, slot=s["kind"], name=s["name"],
          merged=s["m"], stub=unparse(want_node))

  # -- value-less declarations only in M
  for d in c.decls:
    inserted += 1
    cnt("inserted_declarations")
    got = norm(d["ann"])
    qual = ".".join(n for _, n in d["scope"])
    if is_bare_any_never(got):
      spell = None
      if stub is not None:
        for k, lst in stub.vars.items():
          if k == d["name"] or k.endswith("." + d["name"]):
            for sv in lst:
              if norm(unparse(sv.annotation)) == got:
                spell = spell or unparse(sv.annotation)
      bad(_any_key("var", spell), where=qual, name=d["name"], annotation=d["ann"], declaration=True)
    if d["scope"]:
      bad("declaration inserted below module level", where=qual, name=d["name"], annotation=d["ann"])
      continue
    if stub is None:
      cnt("not_judged:stub not parseable")
      continue
    cands = stub.vars.get(d["name"], [])
    if not cands:
      holders = sorted(k.rsplit(".", 1)[0] for k in stub.vars if k.endswith("." + d["name"]))
      hoisted = [h for h in holders if (h, d["name"]) in src.tuple_targets]
      if hoisted:
        bad("class-level tuple/multi-target variable annotated by a declaration hoisted to module level",
            name=d["name"], annotation=d["ann"], declared_in=hoisted)
      else:
        bad("declaration inserted for a name the stub does not declare at module level",
            name=d["name"], annotation=d["ann"], declared_in=holders)
    elif len(cands) > 1:
      cnt("not_judged:variable declared more than once in the stub")
    elif norm(unparse(cands[0].annotation)) == got:
      cnt("inserted_matches_stub")
    else:
      # the same short name may also live in a class and win in libcst's table
      bad("inserted annotation differs from the stub's", where="<module>", slot="declaration",
          name=d["name"], merged=d["ann"], stub=unparse(cands[0].annotation))

  # -- every TypeVar the inserted annotations mention must be defined in M like in the stub
  if stub is not None and inserted:
    m_typevars = {}
    m_bound = set()
    for st in ast.walk(m_tree):
      if is_typevar_assign(st):
        m_typevars[st.targets[0].id] = ast.unparse(st)
    for name in sorted(used_names & set(stub.typevars)):
      cnt("typevars_used_by_inserted_annotations")
      if name not in m_typevars:
        bad("inserted annotation uses a TypeVar of the stub that the merged source never defines",
            name=name, stub=stub.typevars[name])

  # -- completeness (see notes/C20.md: derived from the tool's purpose, conservative)
  if stub is not None and not stub.conditional:
    _completeness(c, src, stub, norm, cnt, bad)

  return {"violations": vio, "counts": counts, "nontrivial": inserted > 0,
          "inserted": inserted}


def _any_key(kind, spelling):
  what = "variable" if kind == "var" else "return"
  if spelling is not None and "." in spelling:
    return f"bare Any/Never {what} annotation inserted: the stub spells it `typing.Any`/`typing.Never`"
  return f"bare Any/Never {what} annotation inserted"


def _stub_spelling(stub, s, qual, src):
  """How the stub writes the annotation that ended up as bare Any/Never (None: unknown)."""
  if stub is None:
    return None
  if s["kind"] == "var":
    c = stub.vars.get((qual + "." if qual else "") + s["name"], [])
    return unparse(c[-1].annotation) if c else None
  c = stub.funcs.get(qual, [])
  same = [f for f in c if s.get("fkey") is None or func_key(f) == s["fkey"]]
  for f in reversed(same or c):
    if f.returns is not None:
      return unparse(f.returns)
  return None


def _mismatch_mechanism(mm, stub):
  what = mm["what"]
  m = mm.get("m") or ""
  if what.startswith("statement added by the merge") and "ClassDef" in what:
    first = m.split("\n", 1)[0]
    if "NamedTuple" in first:
      return "class definition of the stub injected into the source (functional namedtuple)"
    if "TypedDict" in first:
      return "class definition of the stub injected into the source (TypedDict)"
    return "class definition of the stub injected into the source"
  if what.startswith("statement added by the merge"):
    return what
  return what.split(":")[0] if what.startswith("statement kind") else what


def _completeness(c, src, stub, norm, cnt, bad):
  """S's annotation for an unannotated, uniquely matched definition must have been applied."""
  # libcst's visitor forgets to pop its qualifier stack when a name that it has already
  # annotated is assigned again (`_annotate_single_target`), after which nothing further in the
  # file matches the stub.  That is silence, not a wrong edit, so such programs are not judged here.
  for (sq, name), n in src.assign_count.items():
    if n > 1 and stub.vars.get((sq + "." if sq else "") + name):
      cnt("not_judged:completeness skipped (a stub-declared variable is assigned twice)")
      return
  by_func = {}
  for s in c.slots:
    if s["kind"] in ("param", "return"):
      by_func.setdefault(tuple((k, n) for k, n in s["scope"]), []).append(s)
  for scope, slots in by_func.items():
    if any(k == "func" for k, _ in scope[:-1]):
      continue
    fq = ".".join(n for _, n in scope)
    pdefs = src.funcs.get(fq, [])
    sdefs = stub.funcs.get(fq, [])
    if len(pdefs) != 1 or len(sdefs) != 1:
      continue
    pf, sf = pdefs[0], sdefs[0]
    if func_key(pf) != func_key(sf):
      continue
    if any(s["p"] is not None for s in slots):
      continue        # partially annotated: libcst's compatibility rule decides, not modelled
    names_p = [a.arg for a in pf.args.posonlyargs + pf.args.args]
    names_s = [a.arg for a in sf.args.posonlyargs + sf.args.args]
    if names_p != names_s:
      continue
    cnt("completeness_functions_checked")
    for s in slots:
      if s["kind"] == "return":
        want = sf.returns
        if want is None or is_bare_any_never(norm(unparse(want))):
          continue
      else:
        if s["pkind"] in ("vararg", "kwarg"):
          continue     # libcst never annotates *args/**kwargs; not demanded
        lst = getattr(sf.args, s["pkind"])
        a = next((x for x in lst if x.arg == s["name"]), None)
        want = a.annotation if a is not None else None
        if want is None:
          continue
      cnt("completeness_slots_checked")
      if s["m"] is None:
        bad("completeness: stub annotation not applied to an unannotated, uniquely matched function",
            where=fq, slot=s["kind"], name=s["name"], stub=unparse(want))
  # variables: the first plain `x = v` in a module/class scope
  var_slots = {}
  for s in c.slots:
    if s["kind"] == "var" and not any(k == "func" for k, _ in s["scope"]):
      var_slots.setdefault((".".join(n for _, n in s["scope"]), s["name"]), []).append(s)
  for (sq, name), st in src.first_assign.items():
    cands = stub.vars.get((sq + "." if sq else "") + name, [])
    if len(cands) != 1:
      continue
    sv = cands[0]
    if is_bare_any_never(norm(unparse(sv.annotation))) or _is_trivial_valueless(sv):
      continue
    slots = var_slots.get((sq, name), [])
    if any(s["p"] is not None for s in slots):
      continue       # the name carries an annotation of its own somewhere: not demanded
    if (sq, name) in src.tuple_targets:
      continue
    cnt("completeness_variables_checked")
    if not any(s["m"] is not None for s in slots):
      bad("completeness: stub annotation not applied to an unannotated, uniquely matched variable",
          where=sq or "<module>", name=name, stub=unparse(sv.annotation))
