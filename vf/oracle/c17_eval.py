"""C17 oracle: an independent brute-force evaluator for pytype.pytd.booleq terms.

Nothing in here calls a method of a booleq term; it only reads the public data
attributes (`_Eq.left/right`, `_And.exprs`, `_Or.exprs`) and the identity of the
TRUE/FALSE singletons.  A term's truth is its truth table over ALL assignments
of the universe (variables -> values), kept as an int bitmask (bit i = truth
under assignment number i); `eval_point` is the same evaluator for one
assignment given as a dict (used for witnesses, replay and as a self-check of
the vectorised form).
"""
from __future__ import annotations

import itertools


class Universe:
  """Variables, values and the list of all assignments."""

  def __init__(self, variables, values):
    self.vars = list(variables)
    self.vals = list(values)
    self.varset = set(self.vars)
    self.idx = {x: i for i, x in enumerate(self.vars)}
    self.A = list(itertools.product(self.vals, repeat=len(self.vars)))
    self.n = len(self.A)
    self.full = (1 << self.n) - 1
    self.valmask = {}
    for x in self.vars:
      k = self.idx[x]
      for v in self.vals:
        m = 0
        for i, a in enumerate(self.A):
          if a[k] == v:
            m |= 1 << i
        self.valmask[(x, v)] = m
    self.varmask = {}
    for x in self.vars:
      for y in self.vars:
        kx, ky = self.idx[x], self.idx[y]
        m = 0
        for i, a in enumerate(self.A):
          if a[kx] == a[ky]:
            m |= 1 << i
        self.varmask[(x, y)] = m

  def assignment(self, i):
    return dict(zip(self.vars, self.A[i]))

  def eq_mask(self, left, right):
    """Truth table of `left == right` where each side is a variable or a value."""
    lv, rv = left in self.varset, right in self.varset
    if lv and rv:
      return self.varmask[(left, right)]
    if lv:
      return self.valmask.get((left, right), 0)      # a value outside the universe is never taken
    if rv:
      return self.valmask.get((right, left), 0)
    return self.full if left == right else 0

  def table_mask(self, table):
    """Assignments drawn from a table {variable: set of still-possible values}."""
    m = self.full
    for x in self.vars:
      mx = 0
      for v in table.get(x, ()):
        mx |= self.valmask.get((x, v), 0)
      m &= mx
    return m


class Evaluator:
  """Walks real booleq terms.  `B` is the imported booleq module."""

  def __init__(self, B, universe):
    self.B = B
    self.u = universe
    self.memo = {}     # id(term) -> (term, mask); the stored reference keeps the id valid
    self.TRUE, self.FALSE = B.TRUE, B.FALSE
    self.cEq, self.cAnd, self.cOr = B._Eq, B._And, B._Or  # pylint: disable=protected-access

  def mask(self, t, store=True):
    got = self.memo.get(id(t))
    if got is not None and got[0] is t:
      return got[1]
    tt = type(t)
    if t is self.TRUE or tt is self.B.TrueValue:
      m = self.u.full
    elif t is self.FALSE or tt is self.B.FalseValue:
      m = 0
    elif tt is self.cEq:
      m = self.u.eq_mask(t.left, t.right)
    elif tt is self.cAnd:
      m = self.u.full
      for e in t.exprs:
        m &= self.mask(e, store)
    elif tt is self.cOr:
      m = 0
      for e in t.exprs:
        m |= self.mask(e, store)
    else:
      raise TypeError(f"not a boolean term: {t!r}")
    if store:
      self.memo[id(t)] = (t, m)
    return m

  def shallow_mask(self, t):
    """Truth table of a composite recomputed from its *current* members (members memoised).
    Differs from the memoised mask(t) iff the term object was mutated after it was built."""
    tt = type(t)
    if tt is self.cAnd:
      m = self.u.full
      for e in t.exprs:
        m &= self.mask(e)
      return m
    if tt is self.cOr:
      m = 0
      for e in t.exprs:
        m |= self.mask(e)
      return m
    return self.mask(t)

  def eval_point(self, t, alpha):
    """Truth of t under one assignment (dict variable -> value). No memo."""
    tt = type(t)
    if t is self.TRUE or tt is self.B.TrueValue:
      return True
    if t is self.FALSE or tt is self.B.FalseValue:
      return False
    if tt is self.cEq:
      l = alpha.get(t.left, t.left) if t.left in self.u.varset else t.left
      r = alpha.get(t.right, t.right) if t.right in self.u.varset else t.right
      return l == r
    if tt is self.cAnd:
      return all(self.eval_point(e, alpha) for e in t.exprs)
    if tt is self.cOr:
      return any(self.eval_point(e, alpha) for e in t.exprs)
    raise TypeError(f"not a boolean term: {t!r}")

  def mask_pointwise(self, t):
    m = 0
    for i in range(self.u.n):
      if self.eval_point(t, self.u.assignment(i)):
        m |= 1 << i
    return m

  # -- structure -------------------------------------------------------------
  def key(self, t):
    """Canonical, hash-seed independent form of a term (nested tuples)."""
    tt = type(t)
    if t is self.TRUE or tt is self.B.TrueValue:
      return ("T",)
    if t is self.FALSE or tt is self.B.FalseValue:
      return ("F",)
    if tt is self.cEq:
      return ("=", t.left, t.right)
    if tt is self.cAnd:
      return ("&",) + tuple(sorted(self.key(e) for e in t.exprs))
    if tt is self.cOr:
      return ("|",) + tuple(sorted(self.key(e) for e in t.exprs))
    raise TypeError(f"not a boolean term: {t!r}")

  def variables_of(self, t):
    tt = type(t)
    if tt is self.cEq:
      return {s for s in (t.left, t.right) if s in self.u.varset}
    if tt is self.cAnd or tt is self.cOr:
      out = set()
      for e in t.exprs:
        out |= self.variables_of(e)
      return out
    return set()

  def equalities_of(self, t):
    tt = type(t)
    if tt is self.cEq:
      return {(t.left, t.right)}
    if tt is self.cAnd or tt is self.cOr:
      out = set()
      for e in t.exprs:
        out |= self.equalities_of(e)
      return out
    return set()

  def malformed(self, t, deep=False):
    """The constructors' structural promise.  Returns a reason string or None.

    An _And/_Or must not have TRUE, FALSE or a term of its own kind as an
    immediate sub-term (docstrings of booleq.And / booleq.Or).
    """
    tt = type(t)
    if tt is self.cAnd or tt is self.cOr:
      for e in t.exprs:
        te = type(e)
        if e is self.TRUE or e is self.FALSE or te is self.B.TrueValue or te is self.B.FalseValue:
          return f"{tt.__name__} has {e!r} as an immediate sub-term"
        if te is tt:
          return f"{tt.__name__} directly nests another {tt.__name__}"
        if deep:
          r = self.malformed(e, True)
          if r:
            return r
    return None


# -- construction expressions (JSON-able) -----------------------------------
# ["T"] | ["F"] | ["Eq", l, r] | ["And", [e...]] | ["Or", [e...]]


def build(B, expr):
  """Builds a term through the PUBLIC constructors only."""
  k = expr[0]
  if k == "T":
    return B.TRUE
  if k == "F":
    return B.FALSE
  if k == "Eq":
    return B.Eq(expr[1], expr[2])
  if k == "And":
    return B.And([build(B, e) for e in expr[1]])
  if k == "Or":
    return B.Or([build(B, e) for e in expr[1]])
  raise ValueError(expr)


def show(expr):
  k = expr[0]
  if k in ("T", "F"):
    return "TRUE" if k == "T" else "FALSE"
  if k == "Eq":
    return f"Eq({expr[1]!r},{expr[2]!r})"
  return f"{k}([" + ", ".join(show(e) for e in expr[1]) + "])"
