"""C12 oracle: serialised stubs decode to the same declarations, byte-stably;
equal type nodes hash equally.

check_ast(U) applies exactly what pytype applies (pickle_utils.Serialize ->
serialize_ast.SerializeAst: rename *.__init__, UndoModuleAliasesVisitor,
CollectDependencies, ClearClassPointers IN PLACE, CanonicalOrderingVisitor,
ClearLookupCache; msgspec msgpack encoder with order='deterministic') and judges

  encode        Serialize(U) does not raise
  decode        DecodeAst(bytes) does not raise
  asteq         ASTeq(decoded.ast, expected) and decoded.ast.name == expected.name, where
                expected = CanonicalOrdering(UndoModuleAliases(rename(U))) computed here
                after the call (U's class pointers are cleared by the call itself)
  strict        an own field-by-field walk (exact Python types, tuple vs list, bool vs
                int, union member ORDER) finds no difference -- ASTeq cannot see a
                reordered union or a bool turned int because node equality ignores them
  bytes         Encode(decoded) == bytes
  reserialize   Serialize(decoded.ast, src_path, metadata) == bytes
  envelope      src_path / metadata / dependencies / late_dependencies /
                class_type_nodes survive (class_type_nodes = every ClassType of the AST)
  hash          every top-level decoded item is == its original and hashes equally

eqhash_pool(nodes) checks, over all ordered pairs, a == b => hash(a) == hash(b),
symmetry of ==, and sampled transitivity.

install_monitor() wraps pickle_utils.Serialize and SerializeAndSave: every call any
driver makes is decoded and compared (record-and-return, never raises into pytype).
"""
from __future__ import annotations

import collections
import itertools
import threading

VIOLATIONS: list[dict] = []
COUNTERS = collections.Counter()
_state = threading.local()
_installed = {}


# ---------------------------------------------------------------------------
# strict structural walk


def strict_diff(a, b, path=""):
  """First difference as (path, description) or None.  Ignores the `_name2item`
  lookup caches and ClassType.cls (both are documented non-content)."""
  from pytype.pytd import pytd
  from pytype.pytd.parse import node as node_mod
  if type(a) is not type(b):
    return path, f"type {type(a).__name__} != {type(b).__name__}"
  if isinstance(a, pytd.ClassType):
    if a.name != b.name:
      return path + ".name", f"{a.name!r} != {b.name!r}"
    if (a.cls is None) != (b.cls is None):
      return path + ".cls", "cls pointer present on one side only"
    return None
  if isinstance(a, node_mod.Node):
    for f in a.__struct_fields__:
      if f == "_name2item":
        continue
      d = strict_diff(getattr(a, f), getattr(b, f), f"{path}.{type(a).__name__}.{f}")
      if d:
        return d
    return None
  if isinstance(a, (tuple, list)):
    if len(a) != len(b):
      return path + ".len", f"{len(a)} != {len(b)}"
    for x, y in zip(a, b):
      d = strict_diff(x, y, path + "[]")
      if d:
        return d
    return None
  if isinstance(a, (set, frozenset)):
    return None if a == b else (path, "sets differ")
  if isinstance(a, dict):
    return None if a == b else (path, "dicts differ")
  if a != b:
    return path, f"{a!r} != {b!r}"[:120]
  return None


def _count_classtypes(ast):
  from pytype.pytd import serialize_ast
  v = serialize_ast.FindClassTypesVisitor()
  ast.Visit(v)
  return len(v.class_type_nodes)


def expected_ast(u):
  """What SerializeAst hands to the encoder, recomputed after the fact."""
  from pytype.pytd import serialize_ast
  from pytype.pytd import visitors
  if u.name.endswith(".__init__"):
    u = u.Visit(visitors.RenameModuleVisitor(u.name, u.name.rsplit(".__init__", 1)[0]))
  u = u.Visit(serialize_ast.UndoModuleAliasesVisitor())
  # "after the same ClearClassPointers": the rename above rebuilds ClassType nodes
  # (keeping cls), so the pointers SerializeAst cleared on ITS copy are still set here.
  u.Visit(visitors.ClearClassPointers())
  return u.Visit(visitors.CanonicalOrderingVisitor())


def expected_deps(exp):
  from pytype.pytd import visitors
  deps = visitors.CollectDependencies()
  exp.Visit(deps)
  return sorted(deps.dependencies.items()), sorted(deps.late_dependencies.items())


_SIMPLE = ("NamedType", "ClassType", "LateType")


def _raw_key(d):
  """Own re-statement of the canonical order for name-only type nodes: class name first,
  then the name (Node.__lt__: other class -> class names; same class -> stringified
  fields, i.e. the name)."""
  return (d["_struct_type"], d.get("name", ""), str(d.get("recursive", False)))


def raw_canonical_problems(data, c):
  """Walks the plain msgpack tree (dicts/lists).  Yields (mechanism key, witness)."""
  import msgspec
  root = msgspec.msgpack.decode(data)
  seen = set()
  out = []

  def report(key, **kw):
    if key not in seen:
      seen.add(key)
      out.append((key, kw))

  def names(xs):
    return [f"{x.get('_struct_type')}:{x.get('name')}" for x in xs][:8]

  def check_sorted(xs, what):
    if len(xs) < 2:
      return
    if all(isinstance(x, dict) and x.get("_struct_type") in _SIMPLE for x in xs):
      c["raw_sorted_collections_judged"] += 1
      if [_raw_key(x) for x in xs] != sorted(_raw_key(x) for x in xs):
        report(f"encoded {what} is not in canonical order (name-only members, own key)",
               members=names(xs))
    else:
      c["raw_sorted_collections_not_judged(mixed members)"] += 1

  def walk(x):
    if isinstance(x, dict):
      t = x.get("_struct_type")
      if t in ("UnionType", "IntersectionType"):
        tl = x.get("type_list", [])
        c["raw_unions"] += 1
        if any(isinstance(m, dict) and m.get("_struct_type") == t for m in tl):
          report(f"encoded {t} contains a nested {t} (decoding flattens it)", members=names(tl))
        for i, m in enumerate(tl):
          if any(m == n for n in tl[:i]):
            report(f"encoded {t} contains a duplicate member (decoding drops it)",
                   members=names(tl))
            break
        if t == "UnionType":
          check_sorted(tl, "UnionType.type_list")
      elif t == "Signature":
        ex = x.get("exceptions", [])
        if ex:
          c["raw_raise_lists"] += 1
        check_sorted(ex, "Signature.exceptions")
      for v_ in x.values():
        walk(v_)
    elif isinstance(x, list):
      for v_ in x:
        walk(v_)

  walk(root.get("ast") if isinstance(root, dict) else root)
  return out


def _late_names(ast):
  from pytype.pytd import visitors

  class V(visitors.Visitor):

    def __init__(self):
      super().__init__()
      self.names = []

    def EnterLateType(self, t):
      self.names.append(t.name)

  v = V()
  ast.Visit(v)
  return v.names


def _module_aliases(u):
  from pytype.pytd import pytd
  out = {}
  for a in u.aliases:
    if isinstance(a.type, pytd.Module):
      n = a.name
      if n.startswith(u.name + "."):
        n = n[len(u.name) + 1:]
      out[n] = a.type.module_name
  return out


def _undo_alias(name, aliases):
  """`al.x.y` -> `<module of al>.x.y` for the longest aliased dotted prefix."""
  parts = name.split(".")
  for k in range(len(parts) - 1, 0, -1):
    head = ".".join(parts[:k])
    if head in aliases:
      return ".".join([aliases[head]] + parts[k:])
  return name


def _mask_msg(e):
  import re
  m = str(e)
  m = re.sub(r"`[^`]*`", "`P`", m)
  m = re.sub(r"\$[\w\[\].]*", "$PATH", m)
  m = re.sub(r"'[^']*'", "'S'", m)
  m = re.sub(r"\d+", "0", m)
  return m[:140]


def check_ast(u, src_path=None, metadata=None, counters=None, data=None):
  """Judges one AST.  NOTE: like pytype's own Serialize this clears the class
  pointers of `u` in place.  `data`: bytes already produced by a real call
  (monitor use); else Serialize is called here.  Returns violation dicts."""
  prev = getattr(_state, "busy", False)
  _state.busy = True          # our own Serialize calls must not re-enter the monitor
  try:
    return _check_ast(u, src_path, metadata, counters, data)
  finally:
    _state.busy = prev


def _check_ast(u, src_path, metadata, counters, data):
  from pytype.imports import pickle_utils
  from pytype.pytd import pytd_utils
  c = counters if counters is not None else collections.Counter()
  out = []

  def v(key, stage, **kw):
    d = {"key": key, "stage": stage, "module": u.name}
    d.update(kw)
    out.append(d)

  c["asts"] += 1
  if data is None:
    try:
      data = pickle_utils.Serialize(u, src_path=src_path, metadata=metadata)
    except Exception as e:  # pylint: disable=broad-except
      c["encode_raised"] += 1
      v(f"msgspec encode raises: {type(e).__name__}: {_mask_msg(e)}", "encode", error=str(e)[:600])
      return out
  c["encoded"] += 1
  c["bytes"] += len(data)
  try:
    dec = pickle_utils.DecodeAst(data)
  except Exception as e:  # pylint: disable=broad-except
    c["decode_raised"] += 1
    v(f"msgspec decode raises: {type(e).__name__}: {_mask_msg(e)}", "decode", error=str(e)[:600])
    return out
  c["decoded"] += 1
  # raw: what is literally in the bytes, read WITHOUT pytype's node classes (no
  # __post_init__, no node ordering code): sorted collections are sorted by an own key,
  # unions are flat and duplicate-free
  try:
    for key, detail in raw_canonical_problems(data, c):
      v(key, "raw", **detail)
  except Exception as e:  # pylint: disable=broad-except
    c["raw_walk_failed_not_judged"] += 1
    c["raw_walk_failed:" + type(e).__name__] += 1
  try:
    exp = expected_ast(u)
  except Exception as e:  # pylint: disable=broad-except
    c["expected_not_computable_not_judged"] += 1
    return out
  # asteq
  c["asteq_checked"] += 1
  if dec.ast.name != exp.name:
    v("decoded module name differs", "asteq", got=dec.ast.name, want=exp.name)
  if not pytd_utils.ASTeq(dec.ast, exp):
    d = strict_diff(dec.ast, exp)
    v("ASTeq(decoded, canonical original) is false at " + (_unindex(d[0]) if d else "?"),
      "asteq", where=d and d[0], what=d and d[1])
  # strict
  c["strict_checked"] += 1
  d = strict_diff(dec.ast, exp)
  if d:
    v("decoded AST differs field-wise from the canonical original at " + _unindex(d[0]) +
      ": " + _kind_of(d[1]), "strict", where=d[0], what=d[1])
  # LateType names: module aliases must be undone (independent re-implementation)
  if not u.name.endswith(".__init__"):
    want = sorted(_undo_alias(n, _module_aliases(u)) for n in _late_names(u))
    got = sorted(_late_names(dec.ast))
    c["late_types"] += len(got)
    c["late_types_behind_alias"] += sum(1 for a, b in zip(sorted(_late_names(u)), want) if a != b)
    # sets, not multisets: undoing aliases can make two union members equal
    # (Union[z.R, zzz.R] with `import zzz as z`) and canonical ordering then drops one
    if set(want) != set(got):
      bad = (sorted(set(want) - set(got))[:3], sorted(set(got) - set(want))[:3])
      v("LateType names of the decoded AST are not the originals with module aliases undone",
        "latetype", want=repr(bad[0])[:200], got=repr(bad[1])[:200])
  # bytes
  try:
    c["bytes_checked"] += 1
    again = pickle_utils.Encode(dec)
    if again != data:
      v("Encode(decoded) differs from the original bytes (" + _bytes_where(data, again, dec) + ")",
        "bytes", len_a=len(data), len_b=len(again))
  except Exception as e:  # pylint: disable=broad-except
    v(f"msgspec re-encode raises: {type(e).__name__}: {_mask_msg(e)}", "bytes", error=str(e)[:600])
  # reserialize
  try:
    c["reserialize_checked"] += 1
    again = pickle_utils.Serialize(dec.ast, src_path=dec.src_path, metadata=dec.metadata)
    if again != data:
      v("Serialize(decoded.ast) differs from Serialize(original)", "reserialize",
        len_a=len(data), len_b=len(again))
  except Exception as e:  # pylint: disable=broad-except
    v(f"Serialize(decoded.ast) raises: {type(e).__name__}: {_mask_msg(e)}", "reserialize",
      error=str(e)[:600])
  # envelope
  c["envelope_checked"] += 1
  if dec.src_path != src_path:
    v("src_path lost or changed by the round trip", "envelope", got=dec.src_path, want=src_path)
  if list(dec.metadata) != list(metadata or []):
    v("metadata lost or changed by the round trip", "envelope", got=dec.metadata, want=metadata)
  try:
    deps, late = expected_deps(exp)
    got = [(k, set(s)) for k, s in dec.dependencies]
    if got != [(k, set(s)) for k, s in deps]:
      v("dependencies lost or changed by the round trip", "envelope",
        got=repr(got)[:300], want=repr(deps)[:300])
    got = [(k, set(s)) for k, s in dec.late_dependencies]
    if got != [(k, set(s)) for k, s in late]:
      v("late_dependencies lost or changed by the round trip", "envelope",
        got=repr(got)[:300], want=repr(late)[:300])
  except Exception:  # pylint: disable=broad-except
    c["deps_not_judged"] += 1
  n_ct = _count_classtypes(dec.ast)
  if dec.class_type_nodes is None or len(dec.class_type_nodes) != n_ct:
    v("class_type_nodes of the decoded envelope is not the list of all ClassType nodes",
      "envelope", got=None if dec.class_type_nodes is None else len(dec.class_type_nodes), want=n_ct)
  c["classtype_nodes"] += n_ct
  # eq/hash on the real declarations (decoded objects are equal-but-not-identical copies)
  for field in ("constants", "type_params", "classes", "functions", "aliases"):
    for x, y in zip(getattr(dec.ast, field), getattr(exp, field)):
      c["decl_pairs"] += 1
      try:
        if x == y:
          c["decl_pairs_equal"] += 1
          if hash(x) != hash(y):
            v(f"equal declarations hash differently: {hash_root(x, y)}", "hash", field=field,
              name=getattr(x, "name", None))
            break
      except TypeError as e:
        v(f"declaration not hashable after decode: {_mask_msg(e)}", "hash", field=field)
        break
  return out


def _unindex(p):
  """Mechanism-level location: the innermost 'NodeClass.field' of a strict_diff path."""
  parts = [x for x in p.replace("[]", "").split(".") if x]
  if len(parts) >= 2 and parts[-1] in ("len", "name", "cls") and len(parts) >= 3:
    return ".".join(parts[-3:])
  return ".".join(parts[-2:])


def _kind_of(desc):
  import re
  if desc.startswith("type "):
    return desc
  if re.fullmatch(r"\d+ != \d+", desc):
    return "length differs"
  return "value differs"


def _bytes_where(a, b, dec):
  if len(a) != len(b):
    return f"length changes"
  i = next(i for i, (x, y) in enumerate(zip(a, b)) if x != y)
  return "same length, content differs"


def hash_root(a, b):
  """Names the innermost node class at which equal sub-nodes hash differently."""
  from pytype.pytd.parse import node as node_mod
  if isinstance(a, node_mod.Node) and isinstance(b, node_mod.Node) and type(a) is type(b):
    for f in a.__struct_fields__:
      if f in ("_name2item", "cls"):
        continue
      r = _hash_root_val(getattr(a, f), getattr(b, f))
      if r:
        return r
    owner = next((k.__name__ for k in type(a).__mro__ if "__hash__" in k.__dict__),
                 type(a).__name__)
    eq_owner = next((k.__name__ for k in type(a).__mro__ if "__eq__" in k.__dict__),
                    type(a).__name__)
    if eq_owner == owner and owner != type(a).__name__:
      return f"__eq__ and __hash__ of {owner}"      # one mechanism for all its subclasses
    return f"{type(a).__name__} (__eq__ of {eq_owner}, __hash__ of {owner})"
  return None


def _hash_root_val(x, y):
  from pytype.pytd.parse import node as node_mod
  if isinstance(x, tuple) and isinstance(y, tuple):
    if len(x) == len(y):
      for p, q in zip(x, y):
        r = _hash_root_val(p, q)
        if r:
          return r
    return None
  if isinstance(x, node_mod.Node) and isinstance(y, node_mod.Node):
    try:
      if x == y and hash(x) != hash(y):
        return hash_root(x, y)
    except TypeError:
      return None
  return None


# ---------------------------------------------------------------------------
# eq / hash laws on a pool


def eqhash_pool(nodes, rng, counters=None, max_triples=20000):
  c = counters if counters is not None else collections.Counter()
  out = []
  seen_keys = set()

  def v(key, **kw):
    if key in seen_keys:
      c["suppressed_same_mechanism"] += 1
      return
    seen_keys.add(key)
    d = {"key": key, "stage": "eqhash"}
    d.update(kw)
    out.append(d)

  n = len(nodes)
  hashes = []
  for x in nodes:
    try:
      hashes.append(hash(x))
    except TypeError as e:
      hashes.append(None)
      v(f"type node is not hashable: {type(x).__name__}: {_mask_msg(e)}", node=repr(x)[:300])
  eq = [[False] * n for _ in range(n)]
  for i in range(n):
    a = nodes[i]
    row = eq[i]
    for j in range(n):
      b = nodes[j]
      c["pairs"] += 1
      r = a == b
      if r is NotImplemented:
        r = False
      r = bool(r)
      row[j] = r
      if r and i != j and a is not b:
        c["pairs_equal_not_identical"] += 1
        if type(a) is not type(b):
          c["pairs_equal_across_classes"] += 1
        if hashes[i] is not None and hashes[j] is not None and hashes[i] != hashes[j]:
          c["eq_but_hash_differs"] += 1
          v("equal type nodes hash differently: " + (hash_root(a, b) or type(a).__name__),
            a=repr(a)[:400], b=repr(b)[:400])
      # != must be the negation
      ne = a != b
      if bool(ne) == r:
        eo = next((k.__name__ for k in type(a).__mro__ if "__eq__" in k.__dict__), "?")
        no = next((k.__name__ for k in type(a).__mro__ if "__ne__" in k.__dict__), "?")
        # observed, not judged: C12 speaks of equality and hashing, not of `!=`
        c[f"observed_eq_and_ne_agree({eo}/{no})"] += 1
  for i in range(n):
    if not eq[i][i]:
      v(f"a {type(nodes[i]).__name__} node is not equal to itself", a=repr(nodes[i])[:300])
    for j in range(i + 1, n):
      c["symmetry_checked"] += 1
      if eq[i][j] != eq[j][i]:
        v(f"== is not symmetric between {type(nodes[i]).__name__} and {type(nodes[j]).__name__}",
          a=repr(nodes[i])[:300], b=repr(nodes[j])[:300])
  # transitivity on sampled triples drawn from equal pairs
  eq_pairs = [(i, j) for i in range(n) for j in range(n) if i != j and eq[i][j]]
  rng.shuffle(eq_pairs)
  t = 0
  for i, j in eq_pairs:
    for k in range(n):
      if eq[j][k]:
        t += 1
        if not eq[i][k]:
          v(f"== is not transitive on {type(nodes[i]).__name__}/{type(nodes[j]).__name__}/"
            f"{type(nodes[k]).__name__}", a=repr(nodes[i])[:200], b=repr(nodes[j])[:200],
            c=repr(nodes[k])[:200])
    if t > max_triples:
      break
  c["transitivity_triples"] += t
  # set/dict de-duplication really keeps one of each equality class
  classes = []
  for i in range(n):
    for cl in classes:
      if eq[cl[0]][i]:
        cl.append(i)
        break
    else:
      classes.append([i])
  c["equality_classes"] += len(classes)
  hashable = [x for x, h in zip(nodes, hashes) if h is not None]
  try:
    dedup = len(set(hashable))
    c["set_size"] += dedup
    if len(hashable) == n and dedup != len(classes):
      c["set_keeps_equal_nodes"] += 1
      if not c["eq_but_hash_differs"]:      # else a consequence of the hash finding
        v("a set of type nodes keeps two equal nodes (set size != number of equality classes)",
          set_size=dedup, classes=len(classes))
  except TypeError:
    pass
  return out


# ---------------------------------------------------------------------------
# Layer A monitor


def install_monitor():
  from pytype.imports import pickle_utils
  if _installed.get("ser"):
    return
  real_ser = pickle_utils.Serialize
  real_save = pickle_utils.SerializeAndSave

  def judge(ast, src_path, metadata, data):
    if getattr(_state, "busy", False):
      return
    try:
      COUNTERS["serialize_calls"] += 1
      vs = check_ast(ast, src_path=src_path, metadata=metadata, counters=COUNTERS, data=data)
      COUNTERS["evaluations"] += 1
      for w in vs:
        w["via"] = "monitor"
        VIOLATIONS.append(w)
    except BaseException as e:  # pylint: disable=broad-except
      COUNTERS["monitor_errors"] += 1
      COUNTERS["monitor_error:" + type(e).__name__] += 1

  def Serialize(ast, src_path=None, metadata=None):  # pylint: disable=invalid-name
    data = real_ser(ast, src_path, metadata)
    judge(ast, src_path, metadata, data)
    return data

  def SerializeAndSave(ast, filename, *, compress=False, open_function=open,  # pylint: disable=invalid-name
                       src_path=None, metadata=None):
    real_save(ast, filename, compress=compress, open_function=open_function,
              src_path=src_path, metadata=metadata)
    judge(ast, src_path, metadata, None)

  Serialize.__wrapped__ = real_ser
  SerializeAndSave.__wrapped__ = real_save
  pickle_utils.Serialize = Serialize
  pickle_utils.SerializeAndSave = SerializeAndSave
  _installed["ser"] = (real_ser, real_save)


def uninstall_monitor():
  from pytype.imports import pickle_utils
  r = _installed.pop("ser", None)
  if r:
    pickle_utils.Serialize, pickle_utils.SerializeAndSave = r


def drain():
  vs = list(VIOLATIONS)
  del VIOLATIONS[:]
  return vs
