"""C04 helpers: the three recorded outputs of one analysis (stub text, ordered
error report, pickled stub bytes), address-space perturbation, and the Layer-A
postcondition on ErrorLog.unique_sorted_errors.

`install_monitor()` may be called by any check: it wraps
ErrorLog.unique_sorted_errors in this process, records (never raises) and counts.
"""
from __future__ import annotations

import gc
import hashlib
import random
import re
import warnings

TRACEBACK_MARKER = "Called from (traceback):"


def sha(b) -> str:
  if isinstance(b, str):
    b = b.encode("utf8")
  return hashlib.sha256(b).hexdigest()


# ---------------------------------------------------------------------------
# Layer A: unique_sorted_errors postcondition


class Monitor:
  def __init__(self):
    self.installed = False
    self.evals = 0
    self.nonempty_evals = 0
    self.errors_seen = 0
    self.multi_traceback_groups = 0
    self.records = []


MON = Monitor()


def _tb_comparable(a, b):
  """Independent reading of the docstring of errors._compare_traceback_strings:
  comparable iff equal or one (marker stripped) ends with the other."""
  if a == b:
    return True
  a = a[len(TRACEBACK_MARKER):] if a else ""
  b = b[len(TRACEBACK_MARKER):] if b else ""
  return a.endswith(b) or b.endswith(a)


def check_unique_sorted(log_errors, result, max_tracebacks):
  """Returns a list of problem dicts (empty = postcondition holds)."""
  problems = []
  keys = [((e.filename or ""), e.line) for e in result]
  for i in range(len(keys) - 1):
    if keys[i] > keys[i + 1]:
      problems.append({"what": "unique_sorted_errors result not sorted by (filename, line)",
                       "at": i, "pair": [list(keys[i]), list(keys[i + 1])],
                       "names": [result[i].name, result[i + 1].name]})
      break
  groups = {}
  for e in result:
    groups.setdefault(e.get_unique_representation(), []).append(e)
  for rep, es in groups.items():
    if len(es) > 1:
      MON.multi_traceback_groups += 1
    if len(es) > max_tracebacks:
      problems.append({"what": "unique_sorted_errors keeps more than MAX_TRACEBACKS copies of one error",
                       "rep": repr(rep)[:300], "n": len(es)})
    for i in range(len(es)):
      for j in range(i + 1, len(es)):
        if _tb_comparable(es[i].traceback, es[j].traceback):
          problems.append({"what": "unique_sorted_errors result contains duplicate errors "
                                   "(same unique representation, comparable tracebacks)",
                           "rep": repr(rep)[:300],
                           "tracebacks": [es[i].traceback, es[j].traceback]})
          break
      else:
        continue
      break
  ids = {id(e) for e in log_errors}
  if any(id(e) not in ids for e in result):
    problems.append({"what": "unique_sorted_errors returns an error that is not in the log"})
  have = set(groups)
  for e in log_errors:
    if e.get_unique_representation() not in have:
      problems.append({"what": "unique_sorted_errors drops an error entirely",
                       "rep": repr(e.get_unique_representation())[:300]})
      break
  return problems


def install_monitor():
  if MON.installed:
    return MON
  from pytype.errors import errors
  orig = errors.ErrorLog.unique_sorted_errors
  max_tb = getattr(errors, "MAX_TRACEBACKS", 3)

  def unique_sorted_errors(self):
    res = orig(self)
    try:
      MON.evals += 1
      lst = list(res)
      if lst:
        MON.nonempty_evals += 1
        MON.errors_seen += len(lst)
      for p in check_unique_sorted(list(self._errors), lst, max_tb):   # pylint: disable=protected-access
        if len(MON.records) < 50:
          p["report"] = [(e.name, e.filename, e.line) for e in lst][:60]
          MON.records.append(p)
    except Exception as e:  # pylint: disable=broad-except
      if len(MON.records) < 50:
        MON.records.append({"what": "monitor error", "error": repr(e)})
    return res

  errors.ErrorLog.unique_sorted_errors = unique_sorted_errors
  MON.installed = True
  return MON


# ---------------------------------------------------------------------------
# recorded outputs


MODULE_NAME = "c04mod"


def make_options():
  from vf import pt
  return pt.options(module_name=MODULE_NAME)


def outputs(src: str, opts=None, loader=None, keep_pickle=False):
  """One analysis -> {"pyi", "errors", "pickle_sha", "pickle_len"} (texts, not digests,
  so that a mismatch can be diffed).  An exception is recorded as the output."""
  from pytype import io
  from pytype.imports import pickle_utils
  from pytype.pytd import serialize_ast
  opts = opts or make_options()
  out = {}
  try:
    with warnings.catch_warnings():
      warnings.simplefilter("ignore")
      ret, pyi = io.generate_pyi(src, opts, loader)
  except Exception as e:  # pylint: disable=broad-except
    msg = f"EXC {type(e).__name__}: {e}"[:500]
    return {"pyi": msg, "errors": msg, "pickle_sha": sha(msg), "pickle_len": -1, "raised": True}
  log = ret.context.errorlog
  errs = [(e.name, e.filename, e.line, e.message) for e in log.unique_sorted_errors()]
  out["pyi"] = pyi
  out["errors"] = "\n".join(repr(t) for t in errs) + "\n---- printed ----\n" + str(log)
  out["n_errors"] = len(errs)
  try:
    # the steps of io.write_pickle
    ldr = ret.context.loader
    ast = serialize_ast.PrepareForExport(opts.module_name, ret.ast, ldr)
    data = pickle_utils.Serialize(ast, src_path=opts.input, metadata=opts.pickle_metadata)
    out["pickle_sha"] = sha(data)
    out["pickle_len"] = len(data)
    if keep_pickle:
      out["pickle_bytes"] = data
  except Exception as e:  # pylint: disable=broad-except
    msg = f"EXC in pickle export {type(e).__name__}: {e}"[:500]
    out["pickle_sha"] = sha(msg)
    out["pickle_len"] = -1
    out["pickle_exc"] = msg
  ret.context.program = None
  return out


def digests(o):
  return {"pyi": sha(o["pyi"]), "errors": sha(o["errors"]), "pickle": o["pickle_sha"]}


def perturb(seed, n_max):
  """Allocates and returns a random number of heterogeneous objects (kept alive by
  the caller) so that heap addresses / id()s of everything allocated later move."""
  rng = random.Random(seed)
  n = rng.randint(0, n_max)
  keep = []
  for i in range(n):
    k = rng.randrange(5)
    if k == 0:
      keep.append(object())
    elif k == 1:
      keep.append([None] * rng.randint(1, 40))
    elif k == 2:
      keep.append({"k%d" % i: i})
    elif k == 3:
      keep.append("s" * rng.randint(1, 200) + str(i))
    else:
      keep.append((i, float(i)))
  holes = keep[::3]
  keep = [x for j, x in enumerate(keep) if j % 3]   # free a third: fragmented free lists
  del holes
  return keep


def tree_fingerprint():
  """Fingerprint (path, size, mtime) of every .py file of the pytype package under test.
  Runs recorded against different fingerprints are runs of *different programs under test*
  (somebody edited the checkout while the check was running) and must not be compared."""
  import os
  import pytype
  root = os.path.dirname(os.path.abspath(pytype.__file__))
  h = hashlib.sha256()
  for d, dirs, files in os.walk(root):
    dirs.sort()
    if "typeshed" in dirs:
      dirs.remove("typeshed")
    for f in sorted(files):
      if f.endswith((".py", ".pytd", ".pyi")):
        try:
          st = os.stat(os.path.join(d, f))
        except OSError:
          continue
        h.update(f"{os.path.relpath(os.path.join(d, f), root)}:{st.st_size}:{st.st_mtime_ns};".encode())
  return h.hexdigest()[:16]


def run_config(programs, others, config):
  """programs: [{"id", "src"}]; config: dict(mode, j, reuse_loader, reverse, perturb, gc_disable).
  Returns {"results": {id: outputs}, "hash_probe": hash("pytype"), ...}."""
  import sys
  from pytype import load_pytd
  mon = install_monitor()
  fp_start = tree_fingerprint()
  keep = perturb(config.get("perturb_seed", 0), config.get("perturb", 0))
  if config.get("gc_disable"):
    gc.disable()
  progs = list(programs)
  if config.get("reverse"):
    progs.reverse()
  opts = make_options()
  loader = load_pytd.create_loader(opts) if config.get("reuse_loader") else None
  j = config.get("j", 0)
  results = {}
  k_other = 0
  n_other = 0
  for p in progs:
    for _ in range(j):
      if others:
        outputs(others[k_other % len(others)], opts if loader else None, loader)
        k_other += 1
        n_other += 1
    results[p["id"]] = outputs(p["src"], opts if loader else None, loader)
    if config.get("gc_disable"):
      gc.collect()   # bound memory: no collection *during* an analysis, one between analyses
  return {"results": results, "tree_fp": [fp_start, tree_fingerprint()], "hash_probe": hash("pytype"), "hash_randomization": sys.flags.hash_randomization,
          "kept_objects": len(keep), "others_analysed": n_other,
          "monitor": {"evals": mon.evals, "nonempty": mon.nonempty_evals, "errors_seen": mon.errors_seen,
                      "multi_traceback_groups": mon.multi_traceback_groups, "records": mon.records[:10]}}


# ---------------------------------------------------------------------------
# offline comparison helpers


def _top_level_commas(s):
  depth = n = 0
  for ch in s:
    if ch in "[(":
      depth += 1
    elif ch in "])":
      depth -= 1
    elif ch == "," and depth == 0:
      n += 1
  return n


def max_union_width(pyi: str) -> int:
  best = 0
  for m in re.finditer(r"Union\[", pyi):
    i = m.end()
    depth = 1
    k = i
    while k < len(pyi) and depth:
      if pyi[k] == "[":
        depth += 1
      elif pyi[k] == "]":
        depth -= 1
      k += 1
    inner = pyi[i:k - 1]
    w = _top_level_commas(inner) + 1
    if pyi[max(0, m.start() - 9):m.start()] == "Optional[":
      w += 1
    best = max(best, w)
  return best


def diff_class(a: str, b: str) -> str:
  """Coarse description of how two texts differ (used in mechanism keys)."""
  la, lb = a.splitlines(), b.splitlines()
  if sorted(la) == sorted(lb):
    return "same lines in a different order"
  if len(la) == len(lb):
    changed = [(x, y) for x, y in zip(la, lb) if x != y]
    if all(sorted(re.findall(r"\w+", x)) == sorted(re.findall(r"\w+", y)) for x, y in changed):
      return "same words reordered within a line"
    if all(re.sub(r"\d+", "N", x) == re.sub(r"\d+", "N", y) for x, y in changed):
      return "only numbers differ within lines"
    return "line contents differ"
  return "different number of lines"
