"""C13 oracle: CPython itself binds the arguments.

For a list of (kind, signature, calls) the real callee is created by exec'ing
the very definition text that pytype analyses, every call expression is
evaluated, and independently inspect.signature(callee).bind(*a, **k) is asked.
Both must agree (else the case is not judged).  A successful call returns the
callee's parameters, whose run-time types say which argument landed where.
"""
from __future__ import annotations

import inspect
import re

from vf.gen import signatures as S


def module_prefix(markers):
  return [f"class {m}: pass" for m in markers]


def build_namespace(units):
  """units: list of (kind, sig, k, calls).  Returns namespace with markers + callees."""
  ns = {}
  markers = S.marker_names([(sig, calls) for _, sig, _, calls in units])
  src = module_prefix(markers)
  for kind, sig, k, _ in units:
    src.extend(S.callee_text(kind, sig, k)[0])
  exec("\n".join(src) + "\n", ns)   # pylint: disable=exec-used
  return ns


def _callee_object(ns, kind, k):
  if kind in ("func", "lambda"):
    return ns[f"f{k}"]
  t = ns[f"T{k}"]
  if kind == "method":
    return t().m
  if kind in ("classmethod", "staticmethod"):
    return t.m
  return t   # init: signature of the class = __init__ without self


def _tname(v):
  return type(v).__name__


def evaluate(ns, kind, sig, k, call):
  """-> {"ok": bool, "clause": str, "msg": str, "bound": [...]} or {"undecided": why}."""
  expr = S.callee_text(kind, sig, k)[1].format(args=S.args_text(call))
  names = S.param_names(sig)
  try:
    val = eval(expr, ns)   # pylint: disable=eval-used
    err = None
  except TypeError as e:
    val, err = None, str(e)
  except Exception as e:   # pylint: disable=broad-except
    return {"undecided": f"call raised {type(e).__name__}"}
  # second opinion: inspect.signature(...).bind
  try:
    a, kw = eval(f"(lambda *a, **k: (a, k))({S.args_text(call)})", ns)   # pylint: disable=eval-used
    sg = inspect.signature(_callee_object(ns, kind, k))
    try:
      ba = sg.bind(*a, **kw)
      ba.apply_defaults()
      berr = None
    except TypeError as e:
      ba, berr = None, str(e)
  except Exception as e:   # pylint: disable=broad-except
    return {"undecided": f"inspect failed: {type(e).__name__}"}
  disagree = (err is None) != (berr is None)
  # The real call is CPython's semantics; Signature.bind is a second opinion only (3.12's
  # bind refuses `def f(a=0, /, **kw): ...; f(a=1)`, which the interpreter accepts).
  if err is not None:
    return {"ok": False, "msg": err, "clause": clause(err, sig, call), "bind_differs": disagree}
  if not isinstance(val, tuple) or len(val) != len(names):
    return {"undecided": "unexpected result shape"}
  bound = []
  for n, v in zip(names, val):
    if n == "va":
      got = ["tuple", [_tname(x) for x in v]]
      if not disagree and [_tname(x) for x in ba.arguments["va"]] != got[1]:
        return {"undecided": "bind and call differ on *va"}
    elif n == "kw":
      got = ["dict", {key: _tname(x) for key, x in sorted(v.items())}]
      if not disagree and {key: _tname(x) for key, x in ba.arguments["kw"].items()} != got[1]:
        return {"undecided": "bind and call differ on **kw"}
    else:
      got = _tname(v)
      if not disagree and _tname(ba.arguments[n]) != got:
        return {"undecided": f"bind and call differ on {n}"}
    bound.append(got)
  return {"ok": True, "bound": bound, "clause": "", "msg": "", "bind_differs": disagree}


_QNAMES = re.compile(r"'([a-z][a-z0-9]*)'")


def clause(msg, sig, call):
  """The CPython rule that fails, as a skeleton (no callee name, no counts)."""
  names = _QNAMES.findall(msg)
  given_kw = set(call["kws"]) | set(call.get("dstar") or [])
  po = set(S.po_names(sig))
  if "positional-only arguments passed as keyword" in msg:
    return "positional-only passed as keyword"
  if "multiple values for argument" in msg:
    return "multiple values for argument"
  if "multiple values for keyword argument" in msg:
    return "multiple values for keyword argument"
  if "unexpected keyword argument" in msg:
    return "unexpected keyword argument"
  if "required keyword-only argument" in msg:
    return "missing required keyword-only"
  if "required positional argument" in msg:
    miss = set(names)
    if miss & po & given_kw:
      return "missing required positional-only (its name was given as keyword, absorbed by **kw)"
    if miss & po:
      return "missing required positional-only"
    return "missing required positional-or-keyword"
  if re.search(r"takes (from )?\d+ (to \d+ )?positional arguments? but \d+ (positional arguments? \(and \d+ keyword-only arguments?\) )?(was|were) given", msg):
    return "too many positional"
  if "takes no arguments" in msg:
    return "too many positional"
  return "other: " + re.sub(r"[A-Za-z_0-9.]+\(\)", "F()", msg)[:60]


# --------------------------------------------------------------------------
# decoding the stub type of a result


def decode(t):
  """pytd type -> comparable structure (same shape as evaluate()['bound'] elements)."""
  from pytype.pytd import pytd, pytd_utils
  if isinstance(t, pytd.TupleType):
    return ["tuple", [decode(p) for p in t.parameters]]
  if isinstance(t, pytd.GenericType):
    base = _short(t.base_type.name)
    if base == "dict" and len(t.parameters) == 2:
      return ["dict", decode(t.parameters[0]), sorted(_flat(t.parameters[1]))]
    if base == "tuple":
      return ["tuple*", sorted(_flat(t.parameters[0]))]
    return pytd_utils.Print(t)
  if isinstance(t, pytd.ClassType):
    return _short(t.name)
  if isinstance(t, pytd.NothingType):
    return "nothing"
  if isinstance(t, pytd.AnythingType):
    return "Any"
  return pytd_utils.Print(t)


def _short(name):
  return name[len("builtins."):] if name.startswith("builtins.") else name


def _flat(t):
  from pytype.pytd import pytd
  if isinstance(t, pytd.UnionType):
    out = []
    for x in t.type_list:
      out.extend(_flat(x))
    return out
  d = decode(t)
  return [d if isinstance(d, str) else repr(d)]


def compare(names, bound, got):
  """-> list of (param, expected, got) mismatches; got = decode(stub type of the result)."""
  if not (isinstance(got, list) and got[0] == "tuple" and len(got[1]) == len(names)):
    return [("<result>", "tuple of %d" % len(names), got)]
  out = []
  for n, e, g in zip(names, bound, got[1]):
    if n == "va":
      if g != e:
        out.append((n, e, g))
    elif n == "kw":
      vals = sorted(set(e[1].values()))
      if vals:
        want = ["dict", "str", vals]
      else:
        want = ["dict", "nothing", ["nothing"]]
      if g != want:
        out.append((n, want, g))
    elif g != e:
      out.append((n, e, g))
  return out
