"""Stand-in for `pytype-single`, executed by the real ninja (C19 dynamic monitor).

Invoked with exactly the command line pytype_runner.get_pytype_command_for_ninja builds:

  <exe> --imports_info <imports> --module-name <module> --platform <p> -V <ver> -o <out>
        [--disable <names>] [other value flags] <binary flags: --quick --nofail
        --analyze-annotated | --no-report-errors ...> <in>

It does what the real tool does with the plan, nothing else: reads the imports
map (same line format as pytype.imports_map_loader), opens every mapped file,
writes its own output.  Every step is logged (one O_APPEND write per event,
CLOCK_MONOTONIC) to $C19_LOG.  Delays are seeded from $C19_SEED so that a run
can be repeated.  Started with `python -I -S`; imports only os/sys/time/zlib
(json and random would double the start-up time of every step).

Exit status: 0 ok, 3 = a mapped declared output was missing or incomplete.
"""
import os
import sys
import time
import zlib

MARKER = "# C19-COMPLETE\n"
VALUE_FLAGS = {"--imports_info", "--module-name", "--platform", "-V", "-o", "--disable",
               "--python_version", "--output", "--pythonpath", "-P", "--enable-only"}


def parse_argv(argv):
  opts, flags, pos = {}, [], []
  i = 0
  while i < len(argv):
    a = argv[i]
    if a in VALUE_FLAGS and i + 1 < len(argv):
      opts[a] = argv[i + 1]
      i += 2
    elif a.startswith("-") and len(a) > 1:
      flags.append(a)
      i += 1
    else:
      pos.append(a)
      i += 1
  return opts, flags, pos


def jstr(x):
  if x is None:
    return "null"
  if x is True:
    return "true"
  if x is False:
    return "false"
  if isinstance(x, (int, float)):
    return repr(x)
  out = ['"']
  for ch in str(x):
    if ch in '"\\':
      out.append("\\" + ch)
    elif ch < " ":
      out.append("\\u%04x" % ord(ch))
    else:
      out.append(ch)
  out.append('"')
  return "".join(out)


class Rng:
  """Tiny seeded generator (crc32 seeded LCG); uniform() in [a, b)."""

  def __init__(self, key):
    self.x = zlib.crc32(key.encode()) or 1

  def random(self):
    self.x = (self.x * 6364136223846793005 + 1442695040888963407) % (1 << 64)
    return (self.x >> 11) / float(1 << 53)

  def uniform(self, a, b):
    return a + (b - a) * self.random()


def main():
  opts, flags, pos = parse_argv(sys.argv[1:])
  out = opts.get("-o")
  log_path = os.environ.get("C19_LOG")
  seed = os.environ.get("C19_SEED", "0")
  max_ms = float(os.environ.get("C19_MAX_MS", "30"))
  declared = set()
  dfile = os.environ.get("C19_OUTPUTS")
  if dfile:
    with open(dfile) as f:
      declared = set(f.read().split("\n")) - {""}
  fd = os.open(log_path, os.O_WRONLY | os.O_APPEND | os.O_CREAT, 0o644) if log_path else None

  def log(ev, t=None, **kw):
    kw.update(ev=ev, t=time.monotonic() if t is None else t, out=out, pid=os.getpid())
    if fd is not None:
      line = "{" + ", ".join(jstr(k) + ": " + jstr(v) for k, v in kw.items()) + "}\n"
      os.write(fd, line.encode())

  rng = Rng(f"{seed}|{out}")
  log("start", src=pos[-1] if pos else None, module=opts.get("--module-name"),
      imports=opts.get("--imports_info"), report="--no-report-errors" not in flags,
      nflags=len(flags), npos=len(pos))
  bad = 0
  if rng.random() < 0.5:
    time.sleep(rng.uniform(0, max_ms) / 1000.0)       # before the reads
  items = []
  imports = opts.get("--imports_info")
  try:
    with open(imports) as f:
      for line in f:
        line = line.strip()
        if line:
          short_path, path = line.split(" ", 1)
          items.append((short_path, path))
  except (OSError, ValueError) as e:
    log("imports-unreadable", error=repr(e))
    bad += 1
  for short_path, path in items:
    ap = os.path.abspath(path)
    t = time.monotonic()                                 # taken BEFORE the file is opened
    try:
      with open(ap) as f:
        data = f.read()
      state = "complete" if data.endswith(MARKER) else "incomplete"
      is_declared = (ap in declared) if dfile else os.path.basename(ap) != "default.pyi"
      if not is_declared and state == "incomplete":
        state = "foreign"                                # default.pyi or a stub that exists on disk
    except OSError:
      state = "missing"
      data = ""
      is_declared = (ap in declared) if dfile else True
    log("read", t=t, path=ap, key=short_path, state=state, size=len(data))
    if is_declared and state in ("missing", "incomplete"):
      bad += 1
  time.sleep(rng.uniform(0, max_ms) / 1000.0)           # between the reads and our own write
  if out:
    os.makedirs(os.path.dirname(out), exist_ok=True)
    log("wbegin")
    with open(out, "w") as f:
      f.write(f"# stub of {opts.get('--module-name')}\n")
      f.flush()
      time.sleep(rng.uniform(0, max_ms) / 1000.0)       # a reader arriving now sees a partial file
      f.write("def __getattr__(name): ...\n" + MARKER)
    log("wend")                                          # timestamp taken AFTER the file is closed
  rc = 3 if bad else 0
  log("end", rc=rc)
  return rc


if __name__ == "__main__":
  sys.exit(main())
