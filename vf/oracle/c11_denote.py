"""C11 oracle: finite-universe denotation of pytd types, widening comparison of two
TypeDeclUnits, the permitted-rewrite upper bound for the lossless settings, and an
in-situ monitor for optimize.Optimize.

Independent of optimize.py / pytd_utils.JoinTypes / visitors: pytd nodes are only
*read* (class name of the node + its fields) and turned into plain tuple terms;
everything else works on those terms.

Terms
  ("any",) ("nothing",) ("cls", name) ("union", (t..)) ("gen", base, (t..))
  ("tup", (t..)) ("call", (t..), ret) ("tvar", name) ("lit", repr) ("unknown", why)
Values (the finite universe; containers nest at most DEPTH deep)
  ("i", cls) instance   ("c", cls) class object   ("f", arity, result) callable
  ("l", elems) list  ("s", elems) set  ("fs", elems) frozenset  ("d", pairs) dict
  ("t", elems) tuple    WILD: stands for "a value of a type we do not model"

Soundness discipline: `inhabitants(t)` UNDER-approximates [[t]] (only values that
are certainly admitted), `member(v, t)` OVER-approximates (anything not modelled
is admitted; counted in STATS["lenient"]).  So `inhabitants(t) <= member(., t')`
failing really means a value of t is rejected by t'.
"""
from __future__ import annotations

import collections

STATS = collections.Counter()

OBJ = "builtins.object"
TYPE = "builtins.type"
TUPLE = "builtins.tuple"
CALLABLE = "typing.Callable"
NONE = "builtins.NoneType"
WILD = ("w",)
DEPTH = 2
CAP = 28

BUILTIN_ATOMS = ["builtins.int", "builtins.float", "builtins.str", "builtins.bytes",
                 "builtins.bool", NONE, "builtins.complex"]
CONTAINER_TAG = {"builtins.list": "l", "builtins.set": "s", "builtins.frozenset": "fs",
                 "builtins.dict": "d", TUPLE: "t"}
TAG_CLASS = {v: k for k, v in CONTAINER_TAG.items()}
# generic ABCs whose single parameter is the element type of these containers
ELEMENT_ABCS = {
    "l": {"typing.Sequence", "typing.MutableSequence", "typing.Iterable", "typing.Collection",
          "typing.Container", "typing.Reversible"},
    "t": {"typing.Sequence", "typing.Iterable", "typing.Collection", "typing.Container",
          "typing.Reversible"},
    "s": {"typing.AbstractSet", "typing.MutableSet", "typing.Iterable", "typing.Collection",
          "typing.Container"},
    "fs": {"typing.AbstractSet", "typing.Iterable", "typing.Collection", "typing.Container"},
}
MAPPING_ABCS = {"typing.Mapping", "typing.MutableMapping"}
ABC_IMPL = {"typing.Sequence": "l", "typing.MutableSequence": "l", "typing.Iterable": "l",
            "typing.Collection": "l", "typing.Container": "l", "typing.Reversible": "l",
            "typing.AbstractSet": "fs", "typing.MutableSet": "s"}


# ---------------------------------------------------------------------------
# pytd -> terms


def _kind(node):
  return type(node).__name__


def to_term(t):
  """pytd type node -> term. Reads node fields only."""
  k = _kind(t)
  if k == "AnythingType":
    return ("any",)
  if k == "NothingType":
    return ("nothing",)
  if k in ("ClassType", "NamedType"):
    n = t.name
    if n in ("builtins.object", "object"):
      return ("any",)
    if n == "NoneType":
      n = NONE
    return ("cls", n)
  if k == "UnionType":
    return ("union", tuple(to_term(x) for x in t.type_list))
  if k == "TupleType":
    return ("tup", tuple(to_term(x) for x in t.parameters))
  if k == "CallableType":
    ps = t.parameters
    if ps and _kind(ps[0]) in ("ParamSpec", "Concatenate"):
      return ("gen", CALLABLE, (("any",), to_term(ps[-1])))
    return ("call", tuple(to_term(x) for x in ps[:-1]), to_term(ps[-1]))
  if k == "GenericType":
    return ("gen", t.base_type.name, tuple(to_term(x) for x in t.parameters))
  if k in ("TypeParameter", "ParamSpec", "ParamSpecArgs", "ParamSpecKwargs"):
    return ("tvar", getattr(t, "name", k))
  if k == "Literal":
    return ("lit", repr(t.value))
  if k == "Annotated":
    return to_term(t.base_type)
  return ("unknown", k)


def term_size(t):
  k = t[0]
  if k in ("union", "tup"):
    return 1 + sum(term_size(x) for x in t[1])
  if k == "gen":
    return 1 + sum(term_size(x) for x in t[2])
  if k == "call":
    return 1 + sum(term_size(x) for x in t[1]) + term_size(t[2])
  return 1


def class_names(t, out):
  k = t[0]
  if k == "cls":
    out.add(t[1])
  elif k in ("union", "tup"):
    for x in t[1]:
      class_names(x, out)
  elif k == "gen":
    out.add(t[1])
    for x in t[2]:
      class_names(x, out)
  elif k == "call":
    for x in t[1]:
      class_names(x, out)
    class_names(t[2], out)


# ---------------------------------------------------------------------------
# class hierarchy (own transitive closure over the `bases` of Class nodes)


class Hierarchy:
  def __init__(self):
    self.bases = {}       # name -> [base names]
    self.open_direct = set()  # classes with a base we cannot name (Any, ...)
    self._supers = {}

  def add_unit(self, unit):
    for c in unit.classes:
      self._add_class(c)
    self._supers.clear()

  def _add_class(self, c):
    names = []
    for b in c.bases:
      k = _kind(b)
      if k in ("ClassType", "NamedType"):
        names.append(b.name)
      elif k in ("GenericType", "TupleType", "CallableType"):
        names.append(b.base_type.name)
      else:
        self.open_direct.add(c.name)
    self.bases[c.name] = names
    for inner in getattr(c, "classes", ()) or ():
      self._add_class(inner)

  def copy(self):
    h = Hierarchy()
    h.bases = dict(self.bases)
    h.open_direct = set(self.open_direct)
    return h

  def supers(self, name):
    """(set of strict superclasses, is_open). open = some ancestor is unknown."""
    r = self._supers.get(name)
    if r is not None:
      return r
    seen = set()
    is_open = name not in self.bases and name != OBJ
    stack = [name]
    while stack:
      x = stack.pop()
      if x in self.open_direct:
        is_open = True
      for b in self.bases.get(x, ()):
        if b not in seen:
          seen.add(b)
          if b not in self.bases and b not in (OBJ, "object"):
            is_open = True
          stack.append(b)
    seen.discard(name)
    r = (frozenset(seen), is_open)
    self._supers[name] = r
    return r

  def is_sub(self, j, k):
    """True / False / None(unknown): is class j a (non-strict) subclass of class k?"""
    if j == k or k in (OBJ, "object"):
      return True
    s, is_open = self.supers(j)
    if k in s:
      return True
    return None if is_open else False


# ---------------------------------------------------------------------------
# denotation


class Denote:
  """[[.]] over a universe whose atoms are instances of `atom_classes`."""

  def __init__(self, hier: Hierarchy, atom_classes):
    self.h = hier
    seen = []
    for c in list(atom_classes) + BUILTIN_ATOMS:
      if c not in seen and c not in (OBJ, "object"):
        seen.append(c)
    self.atoms = seen
    self._inh = {}
    self._mem = {}
    self._usample = {}

  # -- membership (over-approximation) ------------------------------------
  def _inst_in_cls(self, j, k):
    r = self.h.is_sub(j, k)
    if r is None:
      STATS["lenient"] += 1
      return True
    if r:
      return True
    # PEP 484 promotions, as pytype applies them: int -> float -> complex
    if k == "builtins.float":
      return bool(self.h.is_sub(j, "builtins.int"))
    if k == "builtins.complex":
      return bool(self.h.is_sub(j, "builtins.int")) or bool(self.h.is_sub(j, "builtins.float"))
    return False

  def member(self, v, t):
    key = (v, t)
    r = self._mem.get(key)
    if r is None:
      r = self._member(v, t)
      self._mem[key] = r
    return r

  def _member(self, v, t):
    k = t[0]
    if v == WILD or k == "any":
      return True
    if k == "nothing":
      return False
    if k == "union":
      return any(self.member(v, x) for x in t[1])
    if k in ("tvar", "lit", "unknown"):
      STATS["lenient"] += 1
      return True
    tag = v[0]
    if k == "cls":
      name = t[1]
      if tag == "i":
        return self._inst_in_cls(v[1], name)
      if tag == "c":
        return self._inst_in_cls(TYPE, name)
      if tag == "f":
        return self._inst_in_cls(CALLABLE, name)
      return self._inst_in_cls(TAG_CLASS[tag], name)
    if k == "tup":
      if tag == "t":
        return len(v[1]) == len(t[1]) and all(self.member(e, p) for e, p in zip(v[1], t[1]))
      if tag == "i" and self.h.is_sub(v[1], TUPLE) is not False:
        STATS["lenient"] += 1
        return True
      return False
    if k == "call":
      if tag == "f":
        return v[1] == len(t[1]) and self.member(v[2], t[2])
      if tag in ("i", "c"):     # instances with __call__, classes: not modelled
        STATS["lenient"] += 1
        return True
      return False
    if k == "gen":
      base, ps = t[1], t[2]
      if base == TYPE:
        if tag == "c":
          return len(ps) != 1 or self.member(("i", v[1]), ps[0])
        if tag == "i":
          return self._inst_in_cls(v[1], TYPE)
        return False
      if base == CALLABLE:
        if tag == "f":
          return len(ps) != 2 or self.member(v[2], ps[1])
        if tag in ("i", "c"):
          STATS["lenient"] += 1
          return True
        return False
      if tag in ("l", "s", "fs", "t"):
        own = TAG_CLASS[tag]
        if base == own or base in ELEMENT_ABCS[tag]:
          return len(ps) != 1 or all(self.member(e, ps[0]) for e in v[1])
        r = self.h.is_sub(own, base)
        if r is False:
          return False
        STATS["lenient"] += 1
        return True
      if tag == "d":
        if base == "builtins.dict" or base in MAPPING_ABCS:
          return len(ps) != 2 or all(self.member(a, ps[0]) and self.member(b, ps[1])
                                     for a, b in v[1])
        r = self.h.is_sub("builtins.dict", base)
        if r is False:
          return False
        STATS["lenient"] += 1
        return True
      if tag == "i":
        r = self.h.is_sub(v[1], base)
        if r is False:
          return False
        STATS["lenient"] += 1     # parameters of a user generic are not modelled
        return True
      if tag == "c":
        return self._inst_in_cls(TYPE, base)
      if tag == "f":
        return self._inst_in_cls(CALLABLE, base)
    return True

  # -- inhabitants (under-approximation) ----------------------------------
  def universe_sample(self, d):
    r = self._usample.get(d)
    if r is None:
      r = [("i", OBJ)] + [("i", c) for c in self.atoms[:14]]
      a0 = ("i", self.atoms[0])
      r += [("c", self.atoms[0]), ("c", OBJ), ("f", 0, a0), ("f", 2, ("i", NONE))]
      if d > 0:
        r += [("l", ()), ("l", (a0,)), ("t", ()), ("t", (a0, ("i", NONE))), ("d", ()),
              ("s", (a0,)), ("fs", ())]
      self._usample[d] = r
    return r

  def inhabitants(self, t, d=DEPTH):
    key = (t, d)
    r = self._inh.get(key)
    if r is None:
      r = _dedupe(self._inhabitants(t, d))
      if len(r) > CAP:
        r = _spread(r, CAP)
      self._inh[key] = r
    return r

  def _seq_values(self, tag, elems):
    """empty, singletons, neighbouring pairs (so members of different union arms mix)."""
    out = [(tag, ())]
    for e in elems:
      out.append((tag, (e,)))
    n = len(elems)
    if n >= 2:
      for i in range(n):
        a, b = elems[i], elems[(i + 1) % n]
        if a != b:
          out.append((tag, (a, b)))
        if n == 2:
          break
    return out

  def _inhabitants(self, t, d):
    k = t[0]
    if k in ("any", "tvar"):
      return list(self.universe_sample(d))
    if k == "nothing":
      return []
    if k in ("lit", "unknown"):
      return [WILD]
    if k == "union":
      cols = [self.inhabitants(x, d) for x in t[1]]
      out = []
      for i in range(max([len(c) for c in cols] or [0])):
        for c in cols:
          if i < len(c):
            out.append(c[i])
      return out
    if k == "cls":
      name = t[1]
      if name in CONTAINER_TAG:
        if d <= 0:
          return [(CONTAINER_TAG[name], ())]
        a0 = ("i", self.atoms[0])
        tag = CONTAINER_TAG[name]
        if tag == "d":
          return [("d", ()), ("d", ((a0, a0),))]
        return [(tag, ()), (tag, (a0,)), (tag, (("i", NONE), a0))]
      if name == TYPE:
        return [("c", c) for c in self.atoms[:8]] + [("c", OBJ)]
      if name == CALLABLE:
        return [("f", 0, ("i", self.atoms[0])), ("f", 1, ("i", NONE)), ("f", 3, ("i", OBJ))]
      out = [("i", name)]
      for c in self.atoms:
        if c != name and self.h.is_sub(c, name) is True:
          out.append(("i", c))
      return out
    if k == "tup":
      if not t[1]:
        return [("t", ())]
      if d <= 0:
        return []
      cols = [self.inhabitants(p, d - 1) for p in t[1]]
      return [("t", vec) for vec in vectors(cols, CAP)]
    if k == "call":
      rets = self.inhabitants(t[2], d)
      return [("f", len(t[1]), r) for r in rets[:CAP]]
    if k == "gen":
      base, ps = t[1], t[2]
      if base == TYPE and len(ps) == 1:
        return [("c", v[1]) for v in self.inhabitants(ps[0], d) if v[0] == "i" and v[1] != OBJ] + (
            [("c", OBJ)] if ps[0][0] in ("any", "tvar") else [])
      if base == CALLABLE and len(ps) == 2:
        rets = self.inhabitants(ps[1], d)
        out = []
        for i, r in enumerate(rets[:CAP]):
          out.append(("f", i % 4, r))
        return out
      tag = CONTAINER_TAG.get(base) or ABC_IMPL.get(base)
      if tag in ("l", "s", "fs", "t") and len(ps) == 1:
        if d <= 0:
          return [(tag, ())]
        elems = self.inhabitants(ps[0], d - 1)
        out = self._seq_values(tag, elems)
        if tag == "t" and elems:
          out.append(("t", (elems[0],) * 3))
        return out
      if (base == "builtins.dict" or base in MAPPING_ABCS) and len(ps) == 2:
        if d <= 0:
          return [("d", ())]
        ks = self.inhabitants(ps[0], d - 1)
        vs = self.inhabitants(ps[1], d - 1)
        return [("d", ())] + [("d", (kv,)) for kv in vectors([ks, vs], CAP)]
      return [WILD]       # a generic class we do not model
    return [WILD]


def _dedupe(xs):
  seen = set()
  out = []
  for x in xs:
    if x not in seen:
      seen.add(x)
      out.append(x)
  return out


def _spread(xs, n):
  """n elements of xs, evenly spaced, always including the first and the last."""
  if len(xs) <= n:
    return xs
  step = (len(xs) - 1) / (n - 1)
  return _dedupe(xs[round(i * step)] for i in range(n))


def vectors(cols, cap):
  """Argument vectors over the columns: every value of every column occurs; columns
  are rotated against each other so that different combinations appear."""
  if any(not c for c in cols):
    return []
  if not cols:
    return [()]
  longest = max(len(c) for c in cols)
  out = []
  for shift in range(3):
    for i in range(longest):
      out.append(tuple(c[(i + shift * j) % len(c)] for j, c in enumerate(cols)))
    if len(cols) == 1:
      break
  out = _dedupe(out)
  return _spread(out, cap) if len(out) > cap else out


def value_kind(v):
  return {"i": "instance", "c": "class object", "f": "callable", "l": "list", "s": "set",
          "fs": "frozenset", "d": "dict", "t": "tuple", "w": "?"}[v[0]]


def show(v):
  tag = v[0]
  if tag == "i":
    return f"<{v[1].split('.')[-1]} instance>"
  if tag == "c":
    return f"<class {v[1].split('.')[-1]}>"
  if tag == "f":
    return f"<callable/{v[1]} -> {show(v[2])}>"
  if tag == "w":
    return "<?>"
  if tag == "d":
    return "{" + ", ".join(f"{show(a)}: {show(b)}" for a, b in v[1]) + "}"
  o, c = {"l": "[]", "s": "{}", "fs": ("frozenset{", "}"), "t": "()"}[tag]
  return o + ", ".join(show(e) for e in v[1]) + c


# ---------------------------------------------------------------------------
# the permitted-rewrite upper bound for the lossless settings


def _flatten(ms, out):
  for m in ms:
    if m[0] == "union":
      _flatten(m[1], out)
    elif m[0] != "nothing" and m not in out:
      out.append(m)


def _join(ts):
  out = []
  _flatten(ts, out)
  if not out:
    return ("nothing",)
  if len(out) == 1:
    return out[0]
  return ("union", tuple(out))


def permitted(t, max_union=7):
  """Largest type the listed rewrites may turn `t` into: duplicates removed, unions
  flattened, Any absorbing, containers of one base merged parameter-wise (tuples of
  mixed arity / callables of mixed arity degenerate to the homogeneous / `...` form),
  and a union longer than max_union collapsing to Any (pytype's documented knob).
  Subclass absorption and object==Any do not change the denotation."""
  k = t[0]
  if k == "union":
    ms = []
    _flatten(t[1], ms)
    if any(m[0] == "any" for m in ms):
      return ("any",)
    if len(ms) > max_union and not any(m[0] == "lit" for m in ms):
      return ("any",)
    if len(ms) > max_union:
      STATS["permitted_long_literal_union"] += 1
    tuples = [m for m in ms if m[0] == "tup" or (m[0] == "gen" and m[1] == TUPLE)]
    calls = [m for m in ms if m[0] == "call" or (m[0] == "gen" and m[1] == CALLABLE)]
    groups = collections.OrderedDict()
    rest = []
    for m in ms:
      if m in tuples or m in calls:
        continue
      if m[0] == "gen":
        groups.setdefault(m[1], []).append(m)
      else:
        rest.append(m)
    out = list(rest)
    for base, g in groups.items():
      if len(g) == 1:
        out.append(g[0])
      elif len({len(x[2]) for x in g}) != 1:
        return ("any",)       # malformed arities: not judged
      else:
        out.append(("gen", base, tuple(_join([x[2][i] for x in g]) for i in range(len(g[0][2])))))
    if len(tuples) == 1:
      out.append(tuples[0])
    elif tuples:
      if all(m[0] == "tup" for m in tuples) and len({len(m[1]) for m in tuples}) == 1:
        n = len(tuples[0][1])
        out.append(("tup", tuple(_join([m[1][i] for m in tuples]) for i in range(n))))
      else:
        elems = []
        for m in tuples:
          elems.extend(m[1] if m[0] == "tup" else m[2])
        out.append(("gen", TUPLE, (_join(elems),)))
    if len(calls) == 1:
      out.append(calls[0])
    elif calls:
      if all(m[0] == "call" for m in calls) and len({len(m[1]) for m in calls}) == 1:
        n = len(calls[0][1])
        out.append(("call", tuple(_join([m[1][i] for m in calls]) for i in range(n)),
                    _join([m[2] for m in calls])))
      else:
        rets = [m[2] if m[0] == "call" else (m[2][-1] if m[2] else ("any",)) for m in calls]
        out.append(("gen", CALLABLE, (("any",), _join(rets))))
    return _join([permitted(m, max_union) for m in out])
  if k == "tup":
    return ("tup", tuple(permitted(x, max_union) for x in t[1]))
  if k == "gen":
    return ("gen", t[1], tuple(permitted(x, max_union) for x in t[2]))
  if k == "call":
    return ("call", tuple(permitted(x, max_union) for x in t[1]), permitted(t[2], max_union))
  return t


# ---------------------------------------------------------------------------
# comparing two units


def _shape(sig):
  return (tuple((p.name, _kind_of_param(p), bool(p.optional)) for p in sig.params),
          sig.starargs is not None, sig.starstarargs is not None)


def _kind_of_param(p):
  return getattr(p.kind, "name", str(p.kind))


def _positions(sig):
  ps = [to_term(p.type) for p in sig.params]
  if sig.starargs is not None:
    ps.append(to_term(sig.starargs.type))
  if sig.starstarargs is not None:
    ps.append(to_term(sig.starstarargs.type))
  return ps


def _walk_decls(unit):
  """Yields (path, kind, node): kind in {"constant","function"} for a unit and its classes."""
  def rec_class(c, prefix):
    for k in c.constants:
      yield (f"{prefix}{c.name}.{k.name}", "constant", k)
    for f in c.methods:
      yield (f"{prefix}{c.name}.{f.name}", "function", f)
    for inner in getattr(c, "classes", ()) or ():
      yield from rec_class(inner, prefix)
  for k in unit.constants:
    yield (k.name, "constant", k)
  for f in unit.functions:
    yield (f.name, "function", f)
  for c in unit.classes:
    yield from rec_class(c, "")


def unit_class_names(unit, limit=60):
  names = set()
  for _, kind, node in _walk_decls(unit):
    if kind == "constant":
      class_names(to_term(node.type), names)
    else:
      for s in node.signatures:
        for p in _positions(s):
          class_names(p, names)
        class_names(to_term(s.return_type), names)
  names.discard(OBJ)
  out = sorted(names)
  return out[:limit]


class Comparison:
  """Result of compare_units."""

  def __init__(self):
    self.sites = 0            # constant / parameter / return positions compared
    self.values = 0           # membership evaluations
    self.changed_sites = 0
    self.not_judged = 0
    self.problems = []        # dicts: what, path, site, value, ...


def compare_units(before, after, den: Denote, lossless=False, max_union=7, max_problems=8):
  """Widening (always) and permitted-rewrite upper bound (lossless only)."""
  cmp = Comparison()
  after_decls = {}
  for path, kind, node in _walk_decls(after):
    after_decls[(path, kind)] = node

  def problem(**kw):
    if len(cmp.problems) < max_problems:
      cmp.problems.append(kw)

  for path, kind, node in _walk_decls(before):
    other = after_decls.get((path, kind))
    if other is None:
      problem(what="dropped", path=path, site=kind, value=None)
      continue
    if kind == "constant":
      cmp.sites += 1
      tb, ta = to_term(node.type), to_term(other.type)
      if tb == ta:
        continue
      cmp.changed_sites += 1
      for v in den.inhabitants(tb):
        cmp.values += 1
        if not den.member(v, ta):
          problem(what="narrowed", path=path, site="constant", value=show(v),
                  value_kind=value_kind(v))
          break
      if lossless:
        ub = permitted(tb, max_union)
        for v in den.inhabitants(ta):
          cmp.values += 1
          if not den.member(v, ub):
            problem(what="overwide", path=path, site="constant", value=show(v),
                    value_kind=value_kind(v))
            break
      continue
    _compare_function(path, node, other, den, lossless, max_union, cmp, problem)
  return cmp


def _compare_function(path, fb, fa, den, lossless, max_union, cmp, problem):
  sb, sa = list(fb.signatures), list(fa.signatures)
  tb = [(_shape(s), _positions(s), to_term(s.return_type)) for s in sb]
  ta = [(_shape(s), _positions(s), to_term(s.return_type)) for s in sa]
  cmp.sites += sum(len(p) + 1 for _, p, _ in tb)
  if tb == ta:
    mut_same = all(_mut_terms(x) == _mut_terms(y) for x, y in zip(sb, sa))
    if mut_same:
      return
  cmp.changed_sites += 1
  # before <= after, relationally
  for i, (shape, ps, ret) in enumerate(tb):
    cands = [(q, r) for sh, q, r in ta if sh == shape]
    if not cands:
      problem(what="dropped", path=path, site=f"signature #{i}", value=None)
      continue
    cols = [den.inhabitants(p) for p in ps]
    vecs = vectors(cols, 40)
    if not vecs and ps:
      cmp.not_judged += 1
      continue
    rets = [WILD] + den.inhabitants(ret)
    bad = None
    for vec in vecs:
      admitting = [(q, r) for q, r in cands if all(den.member(a, qq) for a, qq in zip(vec, q))]
      cmp.values += len(vec) * len(cands)
      if not admitting:
        j = _first_rejected(den, vec, cands)
        bad = ("parameter", f"args ({', '.join(show(a) for a in vec)})", value_kind(vec[j]))
        break
      for rv in rets:
        cmp.values += 1
        if not any(den.member(rv, r) for _, r in admitting):
          bad = ("return", f"{show(rv)} for args ({', '.join(show(a) for a in vec)})",
                 value_kind(rv))
          break
      if bad:
        break
    if bad:
      problem(what="narrowed", path=path, site=bad[0], value=bad[1], value_kind=bad[2],
              signature=i)
    # mutated parameters
    for pi, p in enumerate(sb[i].params):
      if p.mutated_type is None:
        continue
      mt = to_term(p.mutated_type)
      ok = False
      for s2 in sa:
        if _shape(s2) != shape:
          continue
        p2 = s2.params[pi]
        target = to_term(p2.mutated_type) if p2.mutated_type is not None else to_term(p2.type)
        if all(den.member(v, target) for v in den.inhabitants(mt)):
          ok = True
          break
      cmp.sites += 1
      if not ok:
        problem(what="narrowed", path=path, site="mutated parameter", value=p.name,
                value_kind="mutated", signature=i)
  if not lossless:
    return
  # after <= permitted(before), relationally
  ub = [(sh, [permitted(p, max_union) for p in ps], r) for sh, ps, r in tb]
  for i, (shape, ps, ret) in enumerate(ta):
    cands = [(q, r) for sh, q, r in ub if sh == shape]
    if not cands:
      problem(what="overwide", path=path, site=f"new signature #{i}", value=None,
              value_kind="signature")
      continue
    cols = [den.inhabitants(p) for p in ps]
    vecs = vectors(cols, 40)
    rets = den.inhabitants(ret)
    bad = None
    for vec in vecs:
      admitting = [r for q, r in cands if all(den.member(a, qq) for a, qq in zip(vec, q))]
      cmp.values += len(vec) * len(cands)
      if not admitting:
        j = _first_rejected(den, vec, cands)
        bad = ("parameter", f"args ({', '.join(show(a) for a in vec)})", value_kind(vec[j]))
        break
      rub = permitted(("union", tuple(admitting)), max_union)
      for rv in rets:
        cmp.values += 1
        if not den.member(rv, rub):
          bad = ("return", f"{show(rv)} for args ({', '.join(show(a) for a in vec)})",
                 value_kind(rv))
          break
      if bad:
        break
    if bad:
      problem(what="overwide", path=path, site=bad[0], value=bad[1], value_kind=bad[2],
              signature=i)


def _mut_terms(sig):
  return [None if p.mutated_type is None else to_term(p.mutated_type) for p in sig.params]


def _first_rejected(den, vec, cands):
  """Index of the argument the last candidate signature rejects first (for the report)."""
  idx = 0
  for q, _ in cands:
    for j, (a, qq) in enumerate(zip(vec, q)):
      if not den.member(a, qq):
        idx = j
        break
  return idx


# ---------------------------------------------------------------------------
# in-situ monitor on optimize.Optimize (Layer A)

RECORDS = []          # one dict per observed top-level Optimize call
MONITOR = {"calls": 0, "checked": 0, "errors": 0, "installed": False, "busy": False}
_DEPS_H = {}


def unit_eq(a, b):
  """Structural equality (TypeDeclUnit itself compares by identity)."""
  return (a.constants == b.constants and a.type_params == b.type_params and
          a.classes == b.classes and a.functions == b.functions and a.aliases == b.aliases)


def hierarchy_for(unit, deps):
  key = id(deps)
  ent = _DEPS_H.get(key)
  if ent is None or ent[0] is not deps:
    h = Hierarchy()
    if deps is not None:
      h.add_unit(deps)
    _DEPS_H.clear()
    _DEPS_H[key] = ent = (deps, h)
  h = ent[1].copy()
  h.add_unit(unit)
  return h


LOSSLESS = {"lossy": False, "use_abcs": False, "max_union": 7, "remove_mutable": False}


def install_monitor():
  """Wraps optimize.Optimize: record-and-return.  For every outermost call it checks
  widening of result against input over a universe derived from the unit's own
  classes, the permitted-rewrite bound when the settings are the lossless ones, and
  re-runs the pipeline on its own output (idempotence).  Never raises into pytype."""
  from pytype.pytd import optimize
  from pytype.pytd import pytd_utils
  if MONITOR["installed"]:
    return
  real = optimize.Optimize

  def Optimize(node, deps=None, *args, **kwargs):   # pylint: disable=invalid-name
    result = real(node, deps, *args, **kwargs)
    MONITOR["calls"] += 1
    if MONITOR["busy"]:
      return result
    MONITOR["busy"] = True
    try:
      names = ["lossy", "use_abcs", "max_union", "remove_mutable", "can_do_lookup"]
      st = dict(zip(names, args))
      st.update(kwargs)
      full = dict(LOSSLESS, can_do_lookup=True)
      full.update(st)
      lossless = all(full[k] == v for k, v in LOSSLESS.items())
      rec = {"unit": getattr(node, "name", "?"), "settings": full, "problems": [],
             "idempotent": None}
      if _kind(node) == "TypeDeclUnit":
        h = hierarchy_for(node, deps)
        den = Denote(h, unit_class_names(node))
        cmp = compare_units(node, result, den, lossless=lossless, max_union=full["max_union"] or 7)
        rec.update(sites=cmp.sites, values=cmp.values, changed_sites=cmp.changed_sites,
                   problems=cmp.problems)
        again = real(result, deps, *args, **kwargs)
        same = unit_eq(again, result)
        if same:
          same = pytd_utils.Print(again) == pytd_utils.Print(result)
        rec["idempotent"] = bool(same)
        if not unit_eq(again, result):     # the second run must only widen, too
          cmp2 = compare_units(result, again, den, lossless=False, max_union=full["max_union"] or 7)
          rec["problems"] = cmp.problems + [dict(p, stage="re-optimisation") for p in cmp2.problems]
        if not same or rec["problems"]:
          rec["_node"], rec["_deps"] = node, deps     # for off-line classification
          rec["before_text"] = pytd_utils.Print(node)
          rec["after_text"] = pytd_utils.Print(result)
          if not same:
            rec["again_text"] = pytd_utils.Print(again)
        MONITOR["checked"] += 1
        RECORDS.append(rec)
    except Exception as e:   # pylint: disable=broad-except
      MONITOR["errors"] += 1
      RECORDS.append({"monitor_error": f"{type(e).__name__}: {e}"})
    finally:
      MONITOR["busy"] = False
    return result

  Optimize.__wrapped__ = real
  optimize.Optimize = Optimize
  MONITOR["installed"] = True
  MONITOR["real"] = real


def real_optimize():
  from pytype.pytd import optimize
  return MONITOR.get("real") or getattr(optimize.Optimize, "__wrapped__", optimize.Optimize)
