"""C16 oracle: structural invariants of pytype's ordered block graph.

`check_tree(ordered_code, presplits=None, raw=None)` is a pure function over an
`OrderedCode` (recursively through the nested code objects in `consts`).  It uses
only attribute reads of the result objects (blocks, opcodes, next/prev/target
links) and its own graph walks; nothing of pytype's splitting/ordering code is
called.

Invariants (names are the mechanism keys reported by the C16 check):

  I1  order non-empty; every block non-empty
  I2  no instruction object twice in code_iter / in two blocks of the split;
      blocks of `order` pairwise distinct; every instruction of the stream is in a
      block of the split unless it belongs to the documented 3.12 removals
  I3  every instruction in `order` with a known (relative/absolute) jump has a
      target; every target of an instruction in `order` starts a block of the
      split
  I4  inside a block `index` strictly increases and neighbours are linked by
      next/prev (except across the documented 3.12 async-for merge); walking
      `next` from the first instruction gives indices 0..n-1 without gaps,
      `prev` mirrors `next`
  I5  order[0] starts with instruction index 0; every later block has an
      incoming block placed earlier in `order`
  I6  set(order) == blocks reachable from order[0] over `outgoing` (own DFS)
  I7  incoming/outgoing mutually consistent; the block started by the target of
      a block's last instruction, its block-stack handler (block_target) and the
      fall-through block are in `outgoing`
  I8  control leaves a block only at its end: no real jump and no instruction
      that never falls through before the last position (except the documented
      3.12 SEND surgery: JUMP_BACKWARD_NO_INTERRUPT + CLEANUP_THROW)
  I9  instruction-level reachability recomputed from op.next / real jump targets
      only (handler targets not followed): every instruction reachable from
      instruction 0 is in a block of `order` (documented 3.12 removals excepted)
  J   (reference, native bytecode version only) the resolved target of every
      real jump instruction is the instruction CPython's own `dis` decodes as
      the jump target of that instruction

Rejected as stricter than the property (see DESIGN C16): "no jump in the middle
of a block" and "every exception handler is in order".

`install_monitor()` wraps `blocks.process_code` (record and return, never raises
into pytype) so other workloads can keep the invariants on while the VM runs.
"""
from __future__ import annotations

import collections
import hashlib
import sys

# ---------------------------------------------------------------------------
# helpers (duck-typed: no pytype import needed for the pure function)


def _is_ordered_code(c):
  return hasattr(c, "order") and hasattr(c, "consts") and hasattr(c, "python_version")


def _is_raw_code(c):
  return hasattr(c, "co_code") and hasattr(c, "co_consts")


def walk(ordered, raw=None):
  """Yields (OrderedCode, raw pycnite code or None) in parent-first order."""
  yield ordered, raw
  raw_consts = list(raw.co_consts) if raw is not None and _is_raw_code(raw) else None
  for i, c in enumerate(ordered.consts):
    if _is_ordered_code(c):
      r = None
      if raw_consts is not None and i < len(raw_consts) and _is_raw_code(raw_consts[i]):
        r = raw_consts[i]
      yield from walk(c, r)


def _opname(op):
  return type(op).__name__


def _desc(op):
  if op is None:
    return None
  t = getattr(op, "target", None)
  return f"{getattr(op, 'index', '?')}:{_opname(op)}" + (f"->{t.index}" if t is not None else "")


def _stream(ordered):
  """All opcode objects of the code object: walk prev to the start, then next."""
  first = ordered.order[0].code[0]
  seen = set()
  while first.prev is not None and id(first) not in seen:
    seen.add(id(first))
    first = first.prev
  out = []
  seen = set()
  op = first
  while op is not None and id(op) not in seen:
    seen.add(id(op))
    out.append(op)
    op = op.next
  return out, (op is not None)   # second: a cycle in `next`


class Report:
  """What one check_tree call observed."""

  def __init__(self):
    self.violations = []          # dicts {inv, code, detail}
    self.n_code = 0
    self.n_nontrivial = 0
    self.fps = []                 # fingerprints of non-trivial code objects
    self.opnames = set()
    self.n_exc_table = 0
    self.n_send = 0
    self.n_blocks = 0
    self.n_instr = 0
    self.evals = collections.Counter()     # per invariant: evaluations
    self.notjudged = collections.Counter()
    self.removed = collections.Counter()   # opcode classes legitimately outside every block

  def v(self, inv, code, detail):
    self.violations.append({"inv": inv, "code": getattr(code, "name", "?"),
                            "qualname": getattr(code, "qualname", None),
                            "version": list(getattr(code, "python_version", ())),
                            "detail": detail})

  def merge(self, other):
    self.violations += other.violations
    self.n_code += other.n_code
    self.n_nontrivial += other.n_nontrivial
    self.fps += other.fps
    self.opnames |= other.opnames
    self.n_exc_table += other.n_exc_table
    self.n_send += other.n_send
    self.n_blocks += other.n_blocks
    self.n_instr += other.n_instr
    self.evals.update(other.evals)
    self.notjudged.update(other.notjudged)
    self.removed.update(other.removed)

  def as_json(self):
    return {"violations": self.violations, "n_code": self.n_code,
            "n_nontrivial": self.n_nontrivial, "fps": self.fps,
            "opnames": sorted(self.opnames), "n_exc_table": self.n_exc_table,
            "n_send": self.n_send, "n_blocks": self.n_blocks, "n_instr": self.n_instr,
            "evals": dict(self.evals), "notjudged": dict(self.notjudged),
            "removed": dict(self.removed)}


# ---------------------------------------------------------------------------
# the invariants


def _allowed_removed(op, version, missing):
  """Documented 3.12 surgery that takes an instruction out of every block.

  (a) the JUMP_BACKWARD closing an `async for` body is popped when the
      END_ASYNC_FOR block is merged in (it carries end_async_for_target);
  (b) the block [.., CLEANUP_THROW, JUMP_BACKWARD->END_SEND] (exception path of
      SEND) is dropped by blocks._remove_jump_back_block.
  `missing` is the set of ids of instructions that are in no block.
  Returns a label or None.
  """
  if tuple(version) < (3, 12):
    return None
  n = _opname(op)
  if n == "JUMP_BACKWARD" and getattr(op, "end_async_for_target", None) is not None:
    return "JUMP_BACKWARD(async-for back edge)"
  cur = op
  while cur is not None and id(cur) in missing:
    if (_opname(cur) == "JUMP_BACKWARD" and cur.target is not None
        and _opname(cur.target) == "END_SEND"
        and cur.prev is not None and _opname(cur.prev) == "CLEANUP_THROW"):
      return f"{n}(send cleanup path)"
    if type(cur).no_next() or type(cur).does_jump():
      return None
    cur = cur.next
  return None


def check_one(oc, rep: Report, presplit=None):
  """Checks one OrderedCode (not its children)."""
  version = tuple(oc.python_version)
  order = list(oc.order)
  rep.n_code += 1

  # ---- I1
  rep.evals["I1"] += 1
  if not order:
    rep.v("I1 order is empty", oc, {})
    return
  empty = [getattr(b, "id", None) for b in order if len(b.code) == 0]
  if empty:
    rep.v("I1 empty block in order", oc, {"block_ids": empty[:5]})
    return
  if presplit is not None:
    pe = [getattr(b, "id", None) for b in presplit if len(b.code) == 0]
    if pe:
      rep.v("I1 empty block in split", oc, {"block_ids": pe[:5]})
      return

  # presplit must be a superset of order (by identity) to be the right capture
  if presplit is not None:
    pids = {id(b) for b in presplit}
    if any(id(b) not in pids for b in order):
      presplit = None
      rep.notjudged["presplit_unmatched"] += 1
  split = presplit if presplit is not None else order

  nblocks = len(order)
  rep.n_blocks += nblocks
  names = []
  for b in order:
    for op in b.code:
      names.append(_opname(op))
  rep.n_instr += len(names)
  rep.opnames.update(names)
  if getattr(oc, "exception_table", None):
    ents = getattr(oc.exception_table, "entries", None)
    if ents is None:
      try:
        ents = list(oc.exception_table)
      except TypeError:
        ents = [1]
    if ents:
      rep.n_exc_table += 1
  if "SEND" in names:
    rep.n_send += 1
  if nblocks >= 3:
    rep.n_nontrivial += 1
    rep.fps.append(hashlib.sha1((" ".join(names) + "|" + str(version)).encode()).hexdigest()[:16])

  # ---- I2  uniqueness
  rep.evals["I2"] += 1
  seen_blocks = set()
  for b in order:
    if id(b) in seen_blocks:
      rep.v("I2 block listed twice in order", oc, {"block": getattr(b, "id", None)})
      break
    seen_blocks.add(id(b))
  where = {}
  dup = None
  for b in order:
    for op in b.code:
      if id(op) in where and dup is None:
        dup = (op, where[id(op)], b)
      where.setdefault(id(op), b)
  if dup is not None:
    op, b1, b2 = dup
    rep.v("I2 instruction in two blocks of order", oc,
          {"instr": _desc(op), "blocks": [getattr(b1, "id", None), getattr(b2, "id", None)],
           "same_block": b1 is b2,
           "block1": [_desc(o) for o in b1.code][-6:], "block2": [_desc(o) for o in b2.code][-6:]})

  stream, cyc = _stream(oc)
  if presplit is not None:
    cnt = collections.Counter()
    for b in presplit:
      for op in b.code:
        cnt[id(op)] += 1
    if dup is None:
      for b in presplit:
        for op in b.code:
          if cnt[id(op)] > 1:
            rep.v("I2 instruction in two blocks of the split", oc, {"instr": _desc(op)})
            break
        else:
          continue
        break
    rep.evals["I2_partition"] += 1
    missing = {id(op) for op in stream if cnt[id(op)] == 0}
    for op in stream:
      if cnt[id(op)] == 0:
        lab = _allowed_removed(op, version, missing)
        if lab is None:
          rep.v("I2 instruction of the stream is in no block", oc,
                {"instr": _desc(op), "prev": _desc(op.prev), "next": _desc(op.next)})
          break
        rep.removed[lab] += 1
    sid = {id(op) for op in stream}
    for b in presplit:
      bad = [op for op in b.code if id(op) not in sid]
      if bad:
        rep.v("I2 block holds an instruction that is not in the instruction stream", oc,
              {"instr": _desc(bad[0]), "block": getattr(b, "id", None)})
        break

  # ---- I3  jumps resolved; targets start blocks
  rep.evals["I3"] += 1
  starts = {id(b.code[0]): b for b in split}
  i3a = i3b = None
  for b in order:
    for op in b.code:
      cls = type(op)
      if cls.has_known_jump() and op.target is None and i3a is None:
        i3a = op
      t = op.target
      if t is not None and id(t) not in starts and i3b is None:
        i3b = op
  if i3a is not None:
    rep.v("I3 known jump without resolved target", oc, {"instr": _desc(i3a)})
  if i3b is not None:
    if presplit is None:
      rep.notjudged["I3_target_start_without_split"] += 1
    else:
      rep.v("I3 jump target does not start a block", oc,
            {"instr": _desc(i3b), "target": _desc(i3b.target)})

  # ---- I4  indices and links
  rep.evals["I4"] += 1
  bad4 = None
  for b in order:
    code = b.code
    for a, c in zip(code, code[1:]):
      if not (a.index < c.index):
        bad4 = ("I4 index not increasing inside a block", a, c)
        break
      if a.next is c and c.prev is a:
        continue
      # documented 3.12 merge: a's successor was the popped async-for back edge
      nxt = a.next
      if (version >= (3, 12) and nxt is not None and _opname(nxt) == "JUMP_BACKWARD"
          and getattr(nxt, "end_async_for_target", None) is c):
        continue
      bad4 = ("I4 neighbours in a block not linked by next/prev", a, c)
      break
    if bad4:
      break
    # first instruction of a merged block [END_ASYNC_FOR] alone is fine
  if bad4:
    rep.v(bad4[0], oc, {"a": _desc(bad4[1]), "b": _desc(bad4[2])})
  if cyc:
    rep.v("I4 next-chain has a cycle", oc, {})
  else:
    idx = [op.index for op in stream]
    if idx != list(range(len(stream))):
      firstbad = next(i for i, (x, y) in enumerate(zip(idx + [None], range(len(idx) + 1))) if x != y)
      rep.v("I4 indices along next are not 0..n-1", oc,
            {"position": firstbad, "around": [_desc(o) for o in stream[max(0, firstbad - 2):firstbad + 3]]})
    for a, c in zip(stream, stream[1:]):
      if c.prev is not a:
        rep.v("I4 prev does not mirror next", oc, {"a": _desc(a), "b": _desc(c)})
        break

  # ---- I8  basic-block shape: control leaves a block only at its end
  # (the general "no jump inside a block" was rejected by the design because of the 3.12 SEND
  # surgery; the documented exception is carved out exactly: JUMP_BACKWARD_NO_INTERRUPT followed by
  # CLEANUP_THROW inside the yield block)
  rep.evals["I8"] += 1
  bad8 = None
  for b in order:
    code = b.code
    for k, a in enumerate(code[:-1]):
      cls = type(a)
      if cls.does_jump() or cls.no_next():
        nxt = code[k + 1]
        if (version >= (3, 12) and _opname(a) == "JUMP_BACKWARD_NO_INTERRUPT"
            and _opname(nxt) == "CLEANUP_THROW"):
          continue
        bad8 = (a, nxt, b)
        break
    if bad8:
      break
  if bad8:
    a, nxt, b = bad8
    what = "jump" if type(a).does_jump() else "non-falling-through instruction"
    rep.v(f"I8 {what} in the middle of a block", oc,
          {"instr": _desc(a), "followed_by": _desc(nxt), "block": [_desc(o) for o in b.code][:12]})

  # ---- I9  instruction-level reachability, recomputed from the instructions alone
  # (op.next unless no_next, op.target of real jumps; SETUP_* handler targets are NOT followed, so
  # this is a subset of what pytype may order): everything reachable that way from instruction 0 must
  # be in a block of `order`.  Independent of Block.outgoing: a dropped edge that silently loses code
  # is visible here even though the remaining graph is self-consistent.
  rep.evals["I9"] += 1
  if stream and not cyc:
    seen9 = set()
    st9 = [stream[0]]
    while st9:
      op = st9.pop()
      if id(op) in seen9:
        continue
      seen9.add(id(op))
      cls = type(op)
      if not cls.no_next() and op.next is not None:
        st9.append(op.next)
      if cls.does_jump() and op.target is not None:
        st9.append(op.target)
    not_in_order = {id(op) for op in stream if id(op) not in where}
    lost = [op for op in stream if id(op) in seen9 and id(op) in not_in_order
            and _allowed_removed(op, version, not_in_order) is None]
    if lost:
      rep.v("I9 instruction reachable from the entry (over next/jump targets) is in no block of order", oc,
            {"instr": _desc(lost[0]), "count": len(lost), "prev": _desc(lost[0].prev),
             "first_lost": [_desc(o) for o in lost[:6]]})

  # ---- I5  entry and predecessor-before
  rep.evals["I5"] += 1
  if order[0].code[0].index != 0:
    rep.v("I5 first block does not start at instruction 0", oc, {"first": _desc(order[0].code[0])})
  pos = {id(b): i for i, b in enumerate(order)}
  for i, b in enumerate(order[1:], 1):
    if not any(pos.get(id(p), 1 << 60) < i for p in b.incoming):
      rep.v("I5 block scheduled before all of its predecessors", oc,
            {"block": [_desc(o) for o in b.code][:4], "position": i,
             "incoming_positions": sorted(pos.get(id(p), -1) for p in b.incoming)})
      break

  # ---- I6  order == reachable set (own DFS)
  rep.evals["I6"] += 1
  reach = {}
  stack = [order[0]]
  while stack:
    x = stack.pop()
    if id(x) in reach:
      continue
    reach[id(x)] = x
    for y in x.outgoing:
      if id(y) not in reach:
        stack.append(y)
  oset = {id(b) for b in order}
  if set(reach) != oset:
    missing = [reach[k] for k in reach if k not in oset]
    extra = [b for b in order if id(b) not in reach]
    rep.v("I6 order differs from the set of blocks reachable from the entry", oc,
          {"reachable_not_in_order": [[_desc(o) for o in b.code][:3] for b in missing[:3]],
           "in_order_not_reachable": [[_desc(o) for o in b.code][:3] for b in extra[:3]]})

  # ---- I7  edges
  rep.evals["I7"] += 1
  bad7 = None
  for b in order:
    for o in b.outgoing:
      if not any(x is b for x in o.incoming):
        bad7 = ("I7 outgoing edge without matching incoming", b, o)
        break
    if bad7:
      break
    for p in b.incoming:
      if not any(x is b for x in p.outgoing):
        bad7 = ("I7 incoming edge without matching outgoing", p, b)
        break
    if bad7:
      break
  if bad7:
    rep.v(bad7[0], oc, {"from": [_desc(o) for o in bad7[1].code][-3:],
                        "to": [_desc(o) for o in bad7[2].code][:3]})
  in_any = None
  if presplit is not None:
    in_any = {id(op) for b in presplit for op in b.code}
  # I7c: the block-stack target (handler reached when the block is popped / a raise)
  for b in order:
    last = b.code[-1]
    bt = getattr(last, "block_target", None)
    if bt is not None:
      tb = starts.get(id(bt))
      if tb is None:
        rep.notjudged["I7_block_target_block_unknown"] += 1
      elif not any(x is tb for x in b.outgoing):
        rep.v("I7 block-stack edge missing: handler block of a block's last instruction not in outgoing", oc,
              {"last": _desc(last), "kind": _opname(last), "block_target": _desc(bt)})
        break
  for b in order:
    last = b.code[-1]
    out_ids = {id(x) for x in b.outgoing}
    t = last.target
    if t is not None:
      tb = starts.get(id(t))
      if tb is None:
        if presplit is None:
          rep.notjudged["I7_target_block_unknown"] += 1
      elif id(tb) not in out_ids:
        rep.v("I7 jump edge missing: target block of a block's last instruction not in outgoing", oc,
              {"last": _desc(last), "kind": _opname(last), "target": _desc(t),
               "outgoing": sorted(getattr(x, "id", -1) for x in b.outgoing)})
        break
    if not type(last).no_next() and last.next is not None:
      nb = starts.get(id(last.next))
      if nb is None:
        # the successor was removed by the documented surgery or starts no block
        if in_any is not None and id(last.next) in in_any:
          rep.v("I7 fall-through successor is in the middle of a block", oc,
                {"last": _desc(last), "next": _desc(last.next)})
          break
        rep.notjudged["I7_fallthrough_successor_removed"] += 1
      elif id(nb) not in out_ids:
        rep.v("I7 fall-through edge missing", oc,
              {"last": _desc(last), "kind": _opname(last), "next": _desc(last.next),
               "outgoing": sorted(getattr(x, "id", -1) for x in b.outgoing)})
        break


# ---------------------------------------------------------------------------
# J: reference jump targets from CPython's dis (native version only)

_SYNTHETIC_311 = ("SETUP_EXCEPT_311", "POP_BLOCK")


def _dis_reference(co_code: bytes):
  """[(opname, offset, target_offset|None, first_offset)] via CPython's disassembler.

  CACHE and EXTENDED_ARG are dropped; first_offset is the offset of the first
  EXTENDED_ARG prefix (jumps to a prefixed instruction go there).
  """
  import dis
  out = []
  jumps = set(dis.hasjrel) | set(dis.hasjabs)
  pending = None
  for ins in dis._get_instructions_bytes(co_code):  # pylint: disable=protected-access
    if ins.opname == "CACHE":
      continue
    if ins.opname == "EXTENDED_ARG":
      if pending is None:
        pending = ins.offset
      continue
    out.append((ins.opname, ins.offset, ins.argval if ins.opcode in jumps else None,
                ins.offset if pending is None else pending))
    pending = None
  return out


def check_jumps_against_dis(oc, raw, rep: Report):
  version = tuple(oc.python_version)
  if raw is None or version != tuple(sys.version_info[:2]) or version < (3, 11):
    rep.notjudged["J_not_native_or_no_raw"] += 1
    return
  try:
    ref = _dis_reference(bytes(raw.co_code))
  except Exception:  # pylint: disable=broad-except
    rep.notjudged["J_dis_failed"] += 1
    return
  if not oc.order or not oc.order[0].code:
    return
  stream, cyc = _stream(oc)
  if cyc:
    return
  real = [op for op in stream if not (_opname(op) in _SYNTHETIC_311)]
  if [_opname(o) for o in real] != [r[0] for r in ref]:
    rep.notjudged["J_stream_not_aligned_with_dis"] += 1
    return
  rep.evals["J"] += 1
  by_off = {r[1]: real[i] for i, r in enumerate(ref)}
  by_off.update({r[3]: real[i] for i, r in enumerate(ref)})
  for i, (name, off, tgt, _) in enumerate(ref):
    if tgt is None:
      continue
    op = real[i]
    want = by_off.get(tgt)
    rep.evals["J_jumps"] += 1
    if want is None:
      rep.notjudged["J_target_offset_unknown"] += 1
      continue
    got = op.target
    if got is want:
      continue
    # documented retargeting: jumps to the popped async-for back edge go to END_ASYNC_FOR
    if got is not None and getattr(want, "end_async_for_target", None) is got:
      rep.evals["J_retargeted_async_for"] += 1
      continue
    rep.v("J resolved jump target differs from CPython dis", oc,
          {"instr": _desc(op), "offset": off, "dis_target_offset": tgt,
           "expected": _desc(want), "got": _desc(got),
           "direction": "backward" if tgt <= off else "forward", "kind": name})
    break


# ---------------------------------------------------------------------------


def check_tree(ordered, presplits=None, raw=None) -> Report:
  """All invariants on `ordered` and every nested code object.

  presplits: optional list of pre-order block lists captured from
    cfg_utils.order_nodes during the process_code call, in call order
    (parent first, then children in consts order) - the same order `walk` uses.
  raw: optional pycnite code object the OrderedCode was built from (for J).
  """
  rep = Report()
  items = list(walk(ordered, raw))
  if presplits is not None and len(presplits) != len(items):
    rep.notjudged["presplit_count_mismatch"] += 1
    presplits = None
  for k, (oc, r) in enumerate(items):
    ps = presplits[k] if presplits is not None else None
    check_one(oc, rep, ps)
    check_jumps_against_dis(oc, r, rep)
  return rep


# ---------------------------------------------------------------------------
# in-situ monitor

violations = []            # appended to by the monitor (dicts)
counters = collections.Counter()
_installed = False
_capture = None            # list while inside process_code, else None
MAX_KEEP = 200


def reset():
  del violations[:]
  counters.clear()


def install_monitor():
  """Wraps blocks.process_code; record-and-return, never raises into pytype."""
  global _installed
  if _installed:
    return
  from pytype.blocks import blocks
  from pytype.typegraph import cfg_utils
  orig_process = blocks.process_code
  orig_order = cfg_utils.order_nodes

  def order_nodes(nodes):
    res = orig_order(nodes)
    cap = _capture
    if cap is not None:
      try:
        cap.append(list(nodes))
      except Exception:  # pylint: disable=broad-except
        pass
    return res

  def process_code(code):
    global _capture
    prev, _capture = _capture, []
    try:
      result = orig_process(code)
      cap = _capture
    finally:
      _capture = prev
    try:
      counters["process_code_calls"] += 1
      rep = check_tree(result[0], cap, code)
      counters["code_objects"] += rep.n_code
      counters["nontrivial_code_objects"] += rep.n_nontrivial
      for k, n in rep.evals.items():
        counters["eval_" + k] += n
      for k, n in rep.notjudged.items():
        counters["notjudged_" + k] += n
      for w in rep.violations:
        counters["violation: " + w["inv"]] += 1
        if len(violations) < MAX_KEEP:
          violations.append(w)
    except Exception as e:  # pylint: disable=broad-except
      counters["monitor_internal_error"] += 1
      counters["monitor_internal_error: " + type(e).__name__] += 1
    return result

  process_code.__wrapped__ = orig_process
  order_nodes.__wrapped__ = orig_order
  cfg_utils.order_nodes = order_nodes
  blocks.process_code = process_code
  _installed = True


def process_with_capture(code):
  """Driver-side: run the real process_code, capturing the pre-order splits."""
  global _capture
  from pytype.blocks import blocks
  from pytype.typegraph import cfg_utils
  real_process = getattr(blocks.process_code, "__wrapped__", blocks.process_code)
  if not hasattr(cfg_utils.order_nodes, "__wrapped__"):
    orig_order = cfg_utils.order_nodes

    def order_nodes(nodes):
      res = orig_order(nodes)
      if _capture is not None:
        _capture.append(list(nodes))
      return res
    order_nodes.__wrapped__ = orig_order
    cfg_utils.order_nodes = order_nodes
  prev, _capture = _capture, []
  try:
    ordered, graph = real_process(code)
    cap = _capture
  finally:
    _capture = prev
  return ordered, graph, cap
