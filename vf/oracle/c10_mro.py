"""C10 oracles.

1. cpython_eval(h): the running interpreter creates the classes of a hierarchy
   one class statement at a time (the very statement text that is handed to
   pytype), recording which statement raises TypeError, every created class's
   __mro__ and the class in which each attribute a_j is found.
2. c3(seqs): an independent C3 merge (textbook formulation on tails) used by the
   in-situ monitor on pytype.pytd.mro.MROMerge.
3. install_monitor(): Layer A.  Wraps mro.MROMerge; records and returns, never
   raises into pytype.  Evaluations are counted.
"""
from __future__ import annotations

from vf.gen import hierarchies as H


# --------------------------------------------------------------------------
# 1. CPython as the oracle


def cpython_eval(h, pfx="", check_attrs=True):
  """Per class: {"status": "ok"|"error"|"skipped", "msg", "mro": [idx|"o"], "owners": {j: idx}}.

  "skipped": a base of the class was refused (directly or transitively), so the
  statement is meaningless in CPython and is not judged anywhere.
  """
  ns = {}
  out = []
  objs = []
  all_attrs = sorted({j for c in h["classes"] for j in c["attrs"]})
  for i, c in enumerate(h["classes"]):
    if any(b != "o" and out[b]["status"] != "ok" for b in c["bases"]):
      out.append({"status": "skipped"})
      objs.append(None)
      continue
    for st in H.marker_stmts_py(h, i, pfx):
      exec(st, ns)   # pylint: disable=exec-used
    try:
      exec(H.class_stmt_py(h, i, pfx), ns)   # pylint: disable=exec-used
    except TypeError as e:
      out.append({"status": "error", "msg": str(e)})
      objs.append(None)
      continue
    k = ns[H.cname(pfx, i)]
    objs.append(k)
    index = {id(o): n for n, o in enumerate(objs) if o is not None}
    mro = ["o" if m is object else index[id(m)] for m in k.__mro__]
    owners = {}
    if check_attrs:
      inst = k()
      for j in all_attrs:
        try:
          v = getattr(k, f"a{j}")
        except AttributeError:
          continue
        w = getattr(inst, f"a{j}")
        assert type(v) is type(w)
        # the marker type names the defining class
        tn = type(v).__name__
        assert tn.startswith(pfx + "M") and tn.endswith(f"_{j}"), tn
        owners[j] = int(tn[len(pfx) + 1:].split("_")[0])
    out.append({"status": "ok", "mro": mro, "owners": owners})
  return out


_LEGAL_CACHE = {}


def legal_prefix(base_lists):
  """True iff CPython creates every class of the list of base lists (cached on the text)."""
  key = repr(base_lists)
  r = _LEGAL_CACHE.get(key)
  if r is None:
    objs = []
    r = True
    try:
      for i, bl in enumerate(base_lists):
        objs.append(type(f"K{i}", tuple(object if b == "o" else objs[b] for b in bl), {}))
    except TypeError:
      r = False
    if len(_LEGAL_CACHE) < 200000:
      _LEGAL_CACHE[key] = r
  return r


def last_ok(classes):
  """For hierarchies.random_hierarchy: does CPython create the last class?  (Earlier
  refused classes are never used as bases by the generator.)"""
  objs = []
  for i, c in enumerate(classes):
    try:
      objs.append(type(f"K{i}", tuple(object if b == "o" else objs[b] for b in c["bases"]), {}))
    except TypeError:
      if i == len(classes) - 1:
        return False
      objs.append(None)
  return True


def duplicate_base(h, i):
  bl = h["classes"][i]["bases"]
  return len(set(map(str, bl))) != len(bl)


# --------------------------------------------------------------------------
# 2. independent C3


class C3Error(Exception):
  pass


def c3(seqs):
  """C3 merge of sequences (lists of hashable, ==-comparable items).

  Written independently of pytype's MergeSequences: repeatedly take the first
  head that occurs in no tail; fail when no head qualifies.
  """
  seqs = [list(s) for s in seqs if s]
  res = []
  while seqs:
    for s in seqs:
      h = s[0]
      if not any(_in_tail(h, t) for t in seqs):
        break
    else:
      raise C3Error(res)
    res.append(h)
    nxt = []
    for s in seqs:
      if s[0] == h:
        s = s[1:]
      if s:
        nxt.append(s)
    seqs = nxt
  return res


def _in_tail(x, seq):
  for y in seq[1:]:
    if y == x:
      return True
  return False


# --------------------------------------------------------------------------
# 3. Layer A monitor


class MonitorState:
  def __init__(self):
    self.evaluations = 0      # judged calls
    self.calls = 0
    self.not_judged = {}      # reason -> count
    self.ok_merges = 0
    self.error_merges = 0
    self.max_len = 0
    self.records = []         # disagreements (JSON-able)
    self.installed = False

  def skip(self, why):
    self.not_judged[why] = self.not_judged.get(why, 0) + 1

  def snapshot(self):
    return {"calls": self.calls, "evaluations": self.evaluations, "ok_merges": self.ok_merges,
            "error_merges": self.error_merges, "not_judged": dict(self.not_judged),
            "max_result_len": self.max_len, "records": list(self.records)}


STATE = MonitorState()


def _label(x):
  n = getattr(x, "name", None)
  return n if isinstance(n, str) else type(x).__name__


def _judge(input_copy, result, raised):
  st = STATE
  # Only plain named classes: no Any/unsolvable (SINGLETON: pytype deliberately lets
  # those repeat), and everything must be hashable.
  flat = [x for s in input_copy for x in s]
  if any(getattr(x, "SINGLETON", False) for x in flat):
    st.skip("special SINGLETON element (Any/unsolvable base)")
    return
  try:
    for s in input_copy:
      if len(set(s)) != len(s):
        # A repeated element inside one sequence: CPython would refuse a repeated
        # base, MROMerge's Dedup erases it.  The verdict on that belongs to the
        # CPython differential (Layer B); here the case is counted, not judged.
        st.skip("repeated element inside one input sequence")
        return
  except TypeError:
    st.skip("unhashable element")
    return
  st.evaluations += 1
  try:
    want = c3(input_copy)
    want_err = False
  except C3Error:
    want, want_err = None, True
  if want_err:
    st.error_merges += 1
  else:
    st.ok_merges += 1
    st.max_len = max(st.max_len, len(want))
  if want_err != raised:
    st.records.append({
        "what": "MROMerge raises MROError" if raised else "MROMerge returned a merge",
        "expected": "C3 has no linearisation" if want_err else "C3 linearisation exists",
        "input": [[_label(x) for x in s] for s in input_copy],
        "got": None if raised else [_label(x) for x in result],
        "want": None if want_err else [_label(x) for x in want]})
    return
  if not raised:
    same = len(want) == len(result) and all(a == b for a, b in zip(want, result))
    if not same:
      st.records.append({
          "what": "MROMerge order differs from C3",
          "input": [[_label(x) for x in s] for s in input_copy],
          "got": [_label(x) for x in result], "want": [_label(x) for x in want]})


def install_monitor():
  """Idempotent.  Returns the shared MonitorState."""
  if STATE.installed:
    return STATE
  from pytype.pytd import mro
  orig = mro.MROMerge

  def MROMerge(input_seqs):   # pylint: disable=invalid-name
    STATE.calls += 1
    try:
      copy = [list(s) for s in input_seqs]
    except Exception:  # pylint: disable=broad-except
      copy = None
    raised = False
    result = None
    try:
      result = orig(input_seqs)
      return result
    except mro.MROError:
      raised = True
      raise
    finally:
      if copy is not None and (raised or result is not None):
        try:
          _judge(copy, result, raised)
        except Exception as e:  # pylint: disable=broad-except
          STATE.skip(f"monitor error {type(e).__name__}")

  MROMerge.__wrapped__ = orig
  mro.MROMerge = MROMerge
  STATE.installed = True
  return STATE
