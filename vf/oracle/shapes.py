"""Run-time value shapes (JSON trees) and the CPython-side tracer for C01.

`trace_program(src)` executes a program in this process under sys.setprofile and
returns the shapes of: module globals at exit, instance attributes of globals that
are instances of classes defined by the program, and every value returned by a
Python function whose caller frame is the module body.
"""
from __future__ import annotations

import sys
import types

MAX_DEPTH = 4
MAX_ELEMS = 20


def shape(v, depth=0, modname="__c01__"):
  t = type(v)
  if depth > MAX_DEPTH:
    return {"k": "opaque"}
  if isinstance(v, type):
    return {"k": "class", "name": v.__qualname__, "mro": [c.__qualname__ for c in v.__mro__],
            "user": v.__module__ == modname}
  if isinstance(v, (types.FunctionType, types.BuiltinFunctionType, types.MethodType,
                    types.MethodDescriptorType, types.WrapperDescriptorType, staticmethod,
                    classmethod)):
    return {"k": "callable"}
  if isinstance(v, (types.GeneratorType, types.ModuleType, types.CoroutineType)):
    return {"k": "opaque", "t": t.__name__}
  mro = [c.__qualname__ for c in t.__mro__]
  s = {"k": "obj", "cls": t.__qualname__, "mro": mro, "user": t.__module__ == modname}
  if t in (int, bool, str, bytes) and (not isinstance(v, (str, bytes)) or len(v) < 40):
    s["v"] = repr(v)
  if v is None:
    s["v"] = "None"
  if isinstance(v, (list, set, dict)) or s["user"]:
    s["id"] = id(v)     # identity of mutable objects: lets the checker see aliasing
  if isinstance(v, (list, tuple, set, frozenset)):
    items = list(v)
    if isinstance(v, (set, frozenset)):
      items = sorted(items, key=repr)
    s["k"] = {list: "list", tuple: "tuple", set: "set", frozenset: "frozenset"}[
        next(b for b in (list, tuple, set, frozenset) if isinstance(v, b))]
    s["n"] = len(items)
    s["e"] = [shape(x, depth + 1, modname) for x in items[:MAX_ELEMS]]
    s["trunc"] = len(items) > MAX_ELEMS
  elif isinstance(v, dict):
    items = list(v.items())
    s["k"] = "dict"
    s["n"] = len(items)
    s["kv"] = [[shape(a, depth + 1, modname), shape(b, depth + 1, modname)] for a, b in items[:MAX_ELEMS]]
    s["trunc"] = len(items) > MAX_ELEMS
  elif callable(v) and not s["user"]:
    s["callable"] = True
  return s


def trace_program(src: str, modname="__c01__"):
  """Returns {"ok", "error", "globals", "attrs", "returns"}."""
  g = {"__name__": modname, "__builtins__": __builtins__}
  try:
    code = compile(src, "<c01>", "exec")
  except SyntaxError as e:
    return {"ok": False, "error": f"SyntaxError: {e}"}
  returns = []

  def prof(frame, event, arg):
    if event == "return" and frame.f_back is not None and frame.f_back.f_code is code \
        and frame.f_code is not code:
      co = frame.f_code
      if co.co_flags & 0x20 or co.co_flags & 0x80:   # generator / coroutine frames
        return
      try:
        recv = None
        if co.co_argcount and co.co_varnames and co.co_varnames[0] == "self":
          recv = type(frame.f_locals.get("self")).__qualname__
        returns.append((co.co_qualname, frame.f_back.f_lineno, shape(arg, 0, modname), recv))
      except Exception:  # pylint: disable=broad-except
        pass

  executed = set()

  def tracer(frame, event, arg):
    if frame.f_code.co_filename == "<c01>":
      if event == "line":
        executed.add(frame.f_lineno)
      return tracer
    return None

  old = sys.getprofile()
  oldtrace = sys.gettrace()
  lim = sys.getrecursionlimit()
  sys.setrecursionlimit(400)
  sys.setprofile(prof)
  sys.settrace(tracer)
  try:
    exec(code, g)   # pylint: disable=exec-used
  except BaseException as e:  # pylint: disable=broad-except
    sys.settrace(oldtrace)
    sys.setprofile(old)
    sys.setrecursionlimit(lim)
    return {"ok": False, "error": f"{type(e).__name__}: {str(e)[:120]}"}
  finally:
    sys.settrace(oldtrace)
    sys.setprofile(old)
    sys.setrecursionlimit(lim)
  globs = {}
  attrs = []
  for name, val in g.items():
    if name.startswith("__"):
      continue
    try:
      globs[name] = shape(val, 0, modname)
      if type(val).__module__ == modname and hasattr(val, "__dict__") and not isinstance(val, type):
        for a, av in vars(val).items():
          attrs.append((name, type(val).__qualname__, [c.__qualname__ for c in type(val).__mro__],
                        a, shape(av, 0, modname)))
    except Exception:  # pylint: disable=broad-except
      continue
  return {"ok": True, "globals": globs, "attrs": attrs, "returns": returns, "executed_lines": sorted(executed)}
