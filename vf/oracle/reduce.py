"""AST-based delta debugging for Python programs.

`reduce(src, test, budget)` shrinks `src` while `test(candidate_src)` stays true.
Transformations: remove chunks of statements from any statement list (ddmin
style), hoist the body/orelse of a compound statement, replace an expression by
one of its sub-expressions or by a small literal, drop call arguments / defaults /
base classes / decorators.
"""
from __future__ import annotations

import ast
import copy

STMT_LISTS = ("body", "orelse", "finalbody")


def _stmt_lists(tree):
  """Yields (owner node, field name) for every statement list."""
  for node in ast.walk(tree):
    for f in STMT_LISTS:
      v = getattr(node, f, None)
      if isinstance(v, list) and v and isinstance(v[0], ast.stmt):
        yield node, f
    if isinstance(node, ast.Try):
      for h in node.handlers:
        pass  # handlers are reached through ast.walk (ExceptHandler has .body)


def _unparse(tree):
  try:
    ast.fix_missing_locations(tree)
    return ast.unparse(tree) + "\n"
  except Exception:  # pylint: disable=broad-except
    return None


class Reducer:
  def __init__(self, src, test, budget=400):
    self.test = test
    self.budget = budget
    self.runs = 0
    self.tree = ast.parse(src)
    self.src = _unparse(self.tree)
    self.cache = {}

  def ok(self, tree):
    s = _unparse(tree)
    if s is None or s == self.src:
      return False
    if s in self.cache:
      return self.cache[s]
    if self.runs >= self.budget:
      return False
    try:
      compile(s, "<r>", "exec")
    except (SyntaxError, ValueError):
      self.cache[s] = False
      return False
    self.runs += 1
    r = bool(self.test(s))
    self.cache[s] = r
    if r:
      self.tree = ast.parse(s)
      self.src = s
    return r

  # -- passes ------------------------------------------------------------------
  def pass_statements(self):
    progress = False
    restart = True
    while restart and self.runs < self.budget:
      restart = False
      nlists = len(list(_stmt_lists(self.tree)))
      for li in range(nlists):
        lists = list(_stmt_lists(self.tree))
        if li >= len(lists):
          break
        n = len(getattr(lists[li][0], lists[li][1]))
        chunk = max(1, n // 2)
        while chunk >= 1 and not restart:
          for i in range(0, n, chunk):
            t2 = copy.deepcopy(self.tree)
            o2, f2 = list(_stmt_lists(t2))[li]
            body = getattr(o2, f2)
            new = body[:i] + body[i + chunk:]
            if not new and f2 == "body":
              new = [ast.Pass()]
            if len(new) == len(body):
              continue
            setattr(o2, f2, new)
            if self.ok(t2):
              progress = restart = True
              break
            if self.runs >= self.budget:
              return progress
          chunk //= 2
        if restart:
          break
    return progress

  def pass_hoist(self):
    progress = False
    again = True
    while again and self.runs < self.budget:
      again = False
      nodes = [n for n in ast.walk(self.tree) if isinstance(n, (ast.If, ast.Try, ast.With))]
      for idx in range(len(nodes)):
        for which in ("body", "orelse", "finalbody", "handler0"):
          t2 = copy.deepcopy(self.tree)
          n2 = [n for n in ast.walk(t2) if isinstance(n, (ast.If, ast.Try, ast.With))]
          if idx >= len(n2):
            break
          target = n2[idx]
          if which == "handler0":
            repl = target.handlers[0].body if isinstance(target, ast.Try) and target.handlers else None
          else:
            repl = getattr(target, which, None)
          if not repl:
            continue
          if _replace_stmt(t2, target, repl) and self.ok(t2):
            progress = again = True
            break
        if again:
          break
    return progress

  def pass_expressions(self):
    progress = False
    again = True
    while again and self.runs < self.budget:
      again = False
      exprs = _expr_sites(self.tree)
      for idx in range(len(exprs)):
        node = exprs[idx][2]
        cands = []
        for ch in ast.iter_child_nodes(node):
          if isinstance(ch, ast.expr) and not isinstance(ch, (ast.Starred,)):
            cands.append(ch)
          elif isinstance(ch, ast.keyword):
            cands.append(ch.value)
        if isinstance(node, ast.Call):
          # also try dropping one argument at a time
          for ai in range(len(node.args)):
            c = copy.deepcopy(node)
            del c.args[ai]
            cands.append(c)
          for ki in range(len(node.keywords)):
            c = copy.deepcopy(node)
            del c.keywords[ki]
            cands.append(c)
        if isinstance(node, (ast.List, ast.Tuple, ast.Set)) and len(node.elts) > 1:
          for ei in range(len(node.elts)):
            c = copy.deepcopy(node)
            del c.elts[ei]
            cands.append(c)
        if isinstance(node, ast.Dict) and len(node.keys) > 1:
          for ei in range(len(node.keys)):
            c = copy.deepcopy(node)
            del c.keys[ei]
            del c.values[ei]
            cands.append(c)
        if not isinstance(node, ast.Constant):
          cands += [ast.Constant(0), ast.Constant(None), ast.Constant("")]
        elif isinstance(node.value, str) and len(node.value) > 1:
          cands.append(ast.Constant("a"))
        elif isinstance(node.value, int) and not isinstance(node.value, bool) and node.value not in (0, 1):
          cands.append(ast.Constant(1))
        done = False
        for cand in cands:
          if self.runs >= self.budget:
            break
          t2 = copy.deepcopy(self.tree)
          sites = _expr_sites(t2)
          if idx >= len(sites):
            break
          owner, field, old, pos = sites[idx]
          new = copy.deepcopy(cand)
          if pos is None:
            setattr(owner, field, new)
          else:
            getattr(owner, field)[pos] = new
          if self.ok(t2):
            progress = again = done = True
            break
        if done:
          break
    return progress

  def pass_defs(self):
    """Drop parameters' defaults, decorators, base classes, unused parameters."""
    progress = False
    again = True
    while again and self.runs < self.budget:
      again = False
      defs = [n for n in ast.walk(self.tree) if isinstance(n, (ast.FunctionDef, ast.ClassDef))]
      for idx in range(len(defs)):
        variants = []
        d = defs[idx]
        if d.decorator_list:
          variants.append(("deco", 0))
        if isinstance(d, ast.ClassDef):
          for bi in range(len(d.bases)):
            variants.append(("base", bi))
        else:
          for di in range(len(d.args.defaults)):
            variants.append(("default", di))
          if d.args.vararg:
            variants.append(("vararg", 0))
        for kind, j in variants:
          t2 = copy.deepcopy(self.tree)
          d2 = [n for n in ast.walk(t2) if isinstance(n, (ast.FunctionDef, ast.ClassDef))][idx]
          if kind == "deco":
            d2.decorator_list = []
          elif kind == "base":
            del d2.bases[j]
          elif kind == "default":
            d2.args.defaults = []
          elif kind == "vararg":
            d2.args.vararg = None
          if self.ok(t2):
            progress = again = True
            break
        if again:
          break
    return progress

  def run(self):
    for _ in range(6):
      p = self.pass_statements()
      p |= self.pass_hoist()
      p |= self.pass_defs()
      p |= self.pass_expressions()
      if not p or self.runs >= self.budget:
        break
    return self.src


def _replace_stmt(tree, target, repl):
  for node in ast.walk(tree):
    for f in STMT_LISTS:
      v = getattr(node, f, None)
      if isinstance(v, list) and target in v:
        i = v.index(target)
        v[i:i + 1] = repl
        return True
    if isinstance(node, ast.Try):
      for h in node.handlers:
        if target in h.body:
          i = h.body.index(target)
          h.body[i:i + 1] = repl
          return True
  return False


def _expr_sites(tree):
  """(owner, field, expr node, index|None) for every replaceable expression, outermost first."""
  out = []
  for node in ast.walk(tree):
    for field, value in ast.iter_fields(node):
      if field in ("targets", "target", "ctx", "decorator_list", "bases") or isinstance(node, ast.arguments):
        continue
      if isinstance(node, (ast.Attribute, ast.Subscript, ast.Name)) and isinstance(
          getattr(node, "ctx", None), (ast.Store, ast.Del)):
        continue
      if isinstance(value, ast.expr) and not isinstance(value, (ast.Starred,)):
        if isinstance(node, ast.keyword) or isinstance(node, ast.Call) and field == "func":
          if isinstance(node, ast.Call):
            continue
        if isinstance(getattr(value, "ctx", None), (ast.Store, ast.Del)):
          continue
        out.append((node, field, value, None))
      elif isinstance(value, list):
        for i, x in enumerate(value):
          if isinstance(x, ast.expr) and not isinstance(x, ast.Starred) and field in (
              "args", "elts", "values", "keys", "comparators"):
            if isinstance(getattr(x, "ctx", None), (ast.Store, ast.Del)):
              continue
            out.append((node, field, x, i))
  return out


def reduce(src, test, budget=400):
  r = Reducer(src, test, budget)
  out = r.run()
  return out, r.runs
