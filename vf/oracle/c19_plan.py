"""C19 oracle: an independent interpreter for the build plan pytype writes.

Nothing in here imports pytype.  Parts:

* `parse_ninja(text)`      - a parser whose lexer follows ninja's lexer.in.cc /
                             manifest_parser.cc for the constructs a plan can
                             contain (`$ `, `$:`, `$$`, `$\\n`, `$var`, `${var}`,
                             `|`, `||`, `|@`, indented bindings, lazy rule
                             bindings, shell-escaped `$in`/`$out`).
* `read_imports_file(path)`- line format of pytype.imports_map_loader
                             (`strip()`, `split(" ", 1)`).
* `check_plan(...)`        - the static conditions of the property + closure.
* `enumerate_orders(...)`  - literally all topological orders on a virtual
                             file system (cross-check of the closure checker).
* `check_event_log(...)`   - read-after-complete-write over the event log the
                             fake pytype-single (c19_fake_pytype.py) appends to.
"""
from __future__ import annotations

import json
import os
import re

_SIMPLE = set("abcdefghijklmnopqrstuvwxyzABCDEFGHIJKLMNOPQRSTUVWXYZ0123456789_-")
_IDENT = _SIMPLE | {"."}
_KEYWORDS = {"build", "pool", "rule", "default", "include", "subninja"}
_RULE_BINDINGS = {"command", "depfile", "dyndep", "description", "deps", "generator", "pool",
                  "restat", "rspfile", "rspfile_content", "msvc_deps_prefix"}
MARKER = "# C19-COMPLETE\n"


class NinjaError(Exception):
  pass


# ---------------------------------------------------------------------------
# lexer + parser


class _Lexer:

  def __init__(self, text):
    self.s = text
    self.n = len(text)
    self.i = 0
    self.escapes = {"$ ": 0, "$:": 0, "$$": 0, "$\\n": 0, "$var": 0}

  def _ch(self, k=0):
    j = self.i + k
    return self.s[j] if j < self.n else "\0"

  def line(self):
    return self.s.count("\n", 0, self.i) + 1

  def eat_whitespace(self):
    while True:
      c = self._ch()
      if c == " ":
        self.i += 1
      elif c == "$" and self._ch(1) == "\n":
        self.i += 2
      elif c == "$" and self._ch(1) == "\r" and self._ch(2) == "\n":
        self.i += 3
      else:
        return

  def read_token(self):
    """Returns (kind, text). kinds: NEWLINE INDENT IDENT EQUALS COLON PIPE PIPE2 PIPEAT EOF + keywords."""
    while True:
      start = self.i
      j = self.i
      while j < self.n and self.s[j] == " ":
        j += 1
      c = self.s[j] if j < self.n else "\0"
      if c == "#":                       # [ ]*#[^\n]*\n
        k = self.s.find("\n", j)
        if k < 0:
          raise NinjaError("lexing error: comment without newline")
        self.i = k + 1
        continue
      if c == "\n":
        self.i = j + 1
        return ("NEWLINE", "\n")
      if c == "\r" and j + 1 < self.n and self.s[j + 1] == "\n":
        self.i = j + 2
        return ("NEWLINE", "\n")
      if j > start:
        self.i = j
        tok = ("INDENT", self.s[start:j])
        self.eat_whitespace()
        return tok
      if c == "\0" and j >= self.n:
        return ("EOF", "")
      if c in _IDENT:
        k = j
        while k < self.n and self.s[k] in _IDENT:
          k += 1
        word = self.s[j:k]
        self.i = k
        tok = (word, word) if word in _KEYWORDS else ("IDENT", word)
      elif c == "=":
        self.i = j + 1
        tok = ("EQUALS", c)
      elif c == ":":
        self.i = j + 1
        tok = ("COLON", c)
      elif c == "|":
        if self._ch(1) == "|":
          self.i = j + 2
          tok = ("PIPE2", "||")
        elif self._ch(1) == "@":
          self.i = j + 2
          tok = ("PIPEAT", "|@")
        else:
          self.i = j + 1
          tok = ("PIPE", "|")
      else:
        raise NinjaError(f"lexing error at line {self.line()}: unexpected {c!r}")
      self.eat_whitespace()
      return tok

  def peek(self, kind):
    save = self.i
    tok = self.read_token()
    if tok[0] == kind:
      return True
    self.i = save
    return False

  def expect(self, kind):
    save = self.i
    tok = self.read_token()
    if tok[0] != kind:
      self.i = save
      raise NinjaError(f"line {self.line()}: expected {kind}, got {tok[0]} {tok[1]!r}")

  def read_ident(self):
    j = self.i
    while j < self.n and self.s[j] in _IDENT:
      j += 1
    if j == self.i:
      return None
    word = self.s[self.i:j]
    self.i = j
    self.eat_whitespace()
    return word

  def read_eval_string(self, path):
    """ninja Lexer::ReadEvalString.  Returns a token list [('lit', s)|('var', name)]."""
    out = []
    line0 = self.line()
    while True:
      c = self._ch()
      if self.i >= self.n:
        raise NinjaError(f"line {line0}: unexpected EOF")
      if c not in "$ :\r\n|\0":
        j = self.i
        while j < self.n and self.s[j] not in "$ :\r\n|\0":
          j += 1
        out.append(("lit", self.s[self.i:j]))
        self.i = j
        continue
      if c == "\r" and self._ch(1) == "\n":
        if path:
          break
        self.i += 2
        break
      if c == "\r":
        raise NinjaError(f"line {self.line()}: carriage return without newline")
      if c in " :|\n":
        if path:
          break
        self.i += 1
        if c == "\n":
          break
        out.append(("lit", c))
        continue
      if c == "\0":
        raise NinjaError("unexpected NUL")
      # c == '$'
      d = self._ch(1)
      if d == "$":
        out.append(("lit", "$"))
        self.escapes["$$"] += 1
        self.i += 2
      elif d == " ":
        out.append(("lit", " "))
        self.escapes["$ "] += 1
        self.i += 2
      elif d == ":":
        out.append(("lit", ":"))
        self.escapes["$:"] += 1
        self.i += 2
      elif d == "\n" or (d == "\r" and self._ch(2) == "\n"):
        self.i += 2 if d == "\n" else 3
        while self._ch() == " ":
          self.i += 1
        self.escapes["$\\n"] += 1
      elif d == "{":
        j = self.i + 2
        while j < self.n and self.s[j] in _IDENT:
          j += 1
        if j == self.i + 2 or j >= self.n or self.s[j] != "}":
          raise NinjaError(f"line {self.line()}: bad $-escape (literal $ must be written as $$)")
        out.append(("var", self.s[self.i + 2:j]))
        self.escapes["$var"] += 1
        self.i = j + 1
      elif d in _SIMPLE:
        j = self.i + 1
        while j < self.n and self.s[j] in _SIMPLE:
          j += 1
        out.append(("var", self.s[self.i + 1:j]))
        self.escapes["$var"] += 1
        self.i = j
      else:
        raise NinjaError(f"line {self.line()}: bad $-escape (literal $ must be written as $$)")
    if path:
      self.eat_whitespace()
    return out


def _evaluate(tokens, lookup):
  return "".join(t if k == "lit" else lookup(t) for k, t in tokens)


def _canon(path):
  if "//" in path or "/./" in path or "/../" in path or path.startswith("./") or path.endswith("/.."):
    return os.path.normpath(path)
  return path


def shell_escape(s):
  """ninja GetShellEscapedString (posix)."""
  safe = set("abcdefghijklmnopqrstuvwxyzABCDEFGHIJKLMNOPQRSTUVWXYZ0123456789_+-./")
  if all(c in safe for c in s):
    return s
  return "'" + s.replace("'", "'\\''") + "'"


class Build:

  def __init__(self):
    self.outs, self.implicit_outs = [], []
    self.rule = None
    self.ins, self.implicit, self.order_only, self.validations = [], [], [], []
    self.bindings = {}
    self.line = 0

  @property
  def out(self):
    return self.outs[0] if self.outs else None

  def all_inputs(self):
    return self.ins + self.implicit + self.order_only

  def to_json(self):
    return {"outs": self.outs, "rule": self.rule, "ins": self.ins, "implicit": self.implicit,
            "order_only": self.order_only, "bindings": self.bindings, "line": self.line}


class Plan:

  def __init__(self):
    self.rules = {}        # name -> {key: tokens}
    self.builds = []
    self.globals = {}
    self.error = None      # first error: ninja would refuse the whole file
    self.escapes = {}
    self.raw_build_lines = 0

  def producer(self):
    return {o: b for b in self.builds for o in b.outs + b.implicit_outs}

  def lookup(self, build, var, shell=True, _depth=0):
    """ninja EdgeEnv::LookupVariable."""
    if var in ("in", "in_newline"):
      sep = " " if var == "in" else "\n"
      return sep.join(shell_escape(p) if shell else p for p in build.ins)
    if var == "out":
      return " ".join(shell_escape(p) if shell else p for p in build.outs)
    if var in build.bindings:
      return build.bindings[var]
    rule = self.rules.get(build.rule, {})
    if var in rule and _depth < 20:
      return _evaluate(rule[var], lambda v: self.lookup(build, v, shell, _depth + 1))
    return self.globals.get(var, "")

  def command(self, build):
    rule = self.rules.get(build.rule, {})
    return _evaluate(rule.get("command", []), lambda v: self.lookup(build, v))

  def rule_text(self, name, key="command"):
    return "".join(t if k == "lit" else "$" + t for k, t in self.rules.get(name, {}).get(key, []))


def parse_ninja(text) -> Plan:
  plan = Plan()
  plan.raw_build_lines = sum(1 for ln in text.split("\n") if ln.startswith("build "))
  lx = _Lexer(text)
  outs_seen = set()
  try:
    while True:
      kind, word = lx.read_token()
      if kind == "EOF":
        break
      if kind == "NEWLINE":
        continue
      if kind == "rule":
        name = lx.read_ident()
        if not name:
          raise NinjaError(f"line {lx.line()}: expected rule name")
        lx.expect("NEWLINE")
        if name in plan.rules:
          raise NinjaError(f"duplicate rule '{name}'")
        bindings = {}
        while lx.peek("INDENT"):
          key = lx.read_ident()
          if not key:
            raise NinjaError(f"line {lx.line()}: expected variable name")
          lx.expect("EQUALS")
          val = lx.read_eval_string(False)
          if key not in _RULE_BINDINGS:
            raise NinjaError(f"unexpected variable '{key}'")
          bindings[key] = val
        if "command" not in bindings:
          raise NinjaError("expected 'command =' line")
        plan.rules[name] = bindings
      elif kind == "build":
        b = Build()
        b.line = lx.line()
        raw_outs, raw_iouts, raw_ins, raw_imp, raw_oo, raw_val = [], [], [], [], [], []

        def paths(dst):
          while True:
            p = lx.read_eval_string(True)
            if not p:
              break
            dst.append(p)
        paths(raw_outs)
        if lx.peek("PIPE"):
          paths(raw_iouts)
        if not raw_outs and not raw_iouts:
          raise NinjaError(f"line {lx.line()}: expected path")
        lx.expect("COLON")
        rule = lx.read_ident()
        if not rule:
          raise NinjaError(f"line {lx.line()}: expected build command name")
        if rule not in plan.rules and rule != "phony":
          raise NinjaError(f"line {lx.line()}: unknown build rule '{rule}'")
        b.rule = rule
        paths(raw_ins)
        if lx.peek("PIPE"):
          paths(raw_imp)
        if lx.peek("PIPE2"):
          paths(raw_oo)
        if lx.peek("PIPEAT"):
          paths(raw_val)
        lx.expect("NEWLINE")
        while lx.peek("INDENT"):
          key = lx.read_ident()
          if not key:
            raise NinjaError(f"line {lx.line()}: expected variable name")
          lx.expect("EQUALS")
          val = lx.read_eval_string(False)
          b.bindings[key] = _evaluate(val, lambda v: plan.globals.get(v, ""))

        def ev(tokens):
          return _canon(_evaluate(
              tokens, lambda v: b.bindings[v] if v in b.bindings else plan.globals.get(v, "")))
        b.outs = [ev(t) for t in raw_outs]
        b.implicit_outs = [ev(t) for t in raw_iouts]
        b.ins = [ev(t) for t in raw_ins]
        b.implicit = [ev(t) for t in raw_imp]
        b.order_only = [ev(t) for t in raw_oo]
        b.validations = [ev(t) for t in raw_val]
        for o in b.outs + b.implicit_outs:
          if o in outs_seen:
            raise NinjaError(f"multiple rules generate {o}")
          outs_seen.add(o)
        plan.builds.append(b)
      elif kind == "IDENT":
        lx.expect("EQUALS")
        val = lx.read_eval_string(False)
        plan.globals[word] = _evaluate(val, lambda v: plan.globals.get(v, ""))
      elif kind in ("default", "pool", "include", "subninja"):
        raise NinjaError(f"line {lx.line()}: statement '{kind}' is not expected in a pytype plan")
      elif kind == "INDENT":
        raise NinjaError(f"line {lx.line()}: unexpected indent")
      else:
        raise NinjaError(f"line {lx.line()}: unexpected {kind}")
  except NinjaError as e:
    plan.error = str(e)
  plan.escapes = dict(lx.escapes)
  return plan


# ---------------------------------------------------------------------------
# imports files


def read_imports_file(path):
  """pytype.imports_map_loader.ImportsMapBuilder._read_from_file, same splitting.

  Returns a list of (short_path, path, raw_line).  A line without a space makes
  pytype itself raise; it is returned with path None.
  """
  items = []
  with open(path) as f:
    for line in f:
      raw = line
      line = line.strip()
      if line:
        if " " in line:
          short_path, p = line.split(" ", 1)
        else:
          short_path, p = line, None
        items.append((short_path, p, raw.rstrip("\n")))
  return items


# ---------------------------------------------------------------------------
# static checks


def char_classes(*strings):
  """Which special characters of the property occur ('space', 'colon', 'dollar', 'double-dollar')."""
  out = []
  s = "\0".join(x for x in strings if x)
  if " " in s:
    out.append("space")
  if ":" in s:
    out.append("colon")
  if "$$" in s:
    out.append("double-dollar")
  elif "$" in s:
    out.append("dollar")
  return "+".join(out) or "none"


def dollar_class(name):
  if name.endswith("$"):
    return "dollar at end of name (line continuation)"
  if "$$" in name:
    return "double-dollar"
  return "dollar"


def _stage(b, outputs):
  o = b.out or ""
  if o.endswith("-1"):
    return "first pass"
  if o + "-1" in outputs:
    return "second pass"
  return "single pass"


def step_graph(plan):
  """Steps are indexed by position in plan.builds; edges producer -> consumer from declared inputs."""
  prod = {}
  for i, b in enumerate(plan.builds):
    for o in b.outs + b.implicit_outs:
      prod[o] = i
  preds = []
  for b in plan.builds:
    ps = set()
    for p in b.all_inputs():
      if p in prod:
        ps.add(prod[p])
    preds.append(ps)
  return prod, preds


def closure(preds):
  """Transitive predecessors per step; returns (anc, cyclic) - plain DFS, no cleverness."""
  n = len(preds)
  anc = []
  cyclic = False
  for s in range(n):
    seen = set()
    stack = list(preds[s])
    while stack:
      x = stack.pop()
      if x in seen:
        continue
      seen.add(x)
      stack.extend(preds[x])
    if s in seen:
      cyclic = True
    anc.append(seen)
  return anc, cyclic


def enumerate_orders(preds, reads, prod_of, limit=2_000_000):
  """All topological orders of the step DAG, each replayed on a virtual file system.

  reads[s]  = set of paths step s opens that are declared outputs
  prod_of   = {path: step}
  Returns (orders_enumerated, unsafe: list of (order_prefix, step, path)), complete flag.
  A failing prefix is not extended (every extension is unsafe too).
  """
  n = len(preds)
  succs = [[] for _ in range(n)]
  indeg = [0] * n
  for s, ps in enumerate(preds):
    for p in ps:
      succs[p].append(s)
      indeg[s] += 1
  done = [False] * n
  order = []
  fs = set()
  res = {"orders": 0, "unsafe": [], "complete": True}

  def rec():
    if res["orders"] >= limit:
      res["complete"] = False
      return
    if len(order) == n:
      res["orders"] += 1
      return
    for s in range(n):
      if done[s] or indeg[s]:
        continue
      bad = [p for p in reads[s] if p not in fs]
      if bad:
        res["orders"] += 1
        if len(res["unsafe"]) < 5:
          res["unsafe"].append((list(order), s, sorted(bad)[0]))
        continue
      done[s] = True
      order.append(s)
      mine = [p for p, q in prod_of.items() if q == s]
      fs.update(mine)
      for t in succs[s]:
        indeg[t] -= 1
      rec()
      for t in succs[s]:
        indeg[t] += 1
      fs.difference_update(mine)
      order.pop()
      done[s] = False

  rec()
  return res


def check_plan(out_dir, expect, enum_max_steps=8):
  """Static monitor.  `expect` (all optional except requested):

    requested      : [abs path]               files given as conf.inputs
    project_files  : {abs path: {"module": [acceptable module names], "stem": rel path w/o .py or None}}
    expected_deps  : {abs path: [abs path]}   local modules a file certainly imports
    default_keys   : {abs path: [short keys]} system modules a file certainly imports (entry -> default.pyi)
    allow_foreign  : [prefix]                 step inputs outside project_files that are legitimate

  Returns {"findings": [{key, detail}], "stats": {...}, "plan": Plan}
  """
  findings = []
  seen = set()

  def add(key, **detail):
    sig = key
    if sig in seen:
      return
    seen.add(sig)
    findings.append({"key": key, "detail": detail})

  ninja_file = os.path.join(out_dir, "build.ninja")
  with open(ninja_file) as f:
    text = f.read()
  plan = parse_ninja(text)
  requested = list(expect.get("requested", []))
  pfiles = expect.get("project_files", {})
  special_all = char_classes(out_dir, *requested, *pfiles)
  stats = {"steps": len(plan.builds), "check_steps": 0, "two_pass_groups": 0, "first_pass_steps": 0,
           "imports_entries": 0, "default_entries": 0, "output_entries": 0, "ondisk_entries": 0,
           "reads_checked": 0, "orders": 0, "enumerated": False, "max_chain": 0,
           "escapes": plan.escapes, "shared_imports_files": 0, "special": special_all,
           "sh_unsafe_imports_args": 0}
  if plan.error:
    kind = _error_kind(plan.error)
    lines = text.split("\n")
    m = re.search(r"line (\d+)", plan.error)
    err_line = lines[int(m.group(1)) - 1] if m and 0 < int(m.group(1)) <= len(lines) else ""
    if err_line.startswith("  module = ") and "$" in err_line:
      add("plan not loadable by ninja: `$` in the unescaped `module =` binding",
          error=plan.error, line=err_line)
    elif kind == "multiple rules generate" and _same_output_twice(lines):
      dup = _same_output_twice(lines)
      add("plan not loadable by ninja: two different sources are given the same output path"
          + _modname_qualifier(lines, dup[2]), error=plan.error, lines=dup)
    else:
      add(f"plan not loadable by ninja (paths contain {special_all}): " + kind, error=plan.error,
          line=err_line)
    # ninja refuses the whole file: there is no plan to judge further
    stats["not_judged_unloadable"] = 1
    return {"findings": findings, "stats": stats, "plan": plan}
  # build statements pytype wrote but ninja does not see as statements
  corrupted = False
  if plan.raw_build_lines != len(plan.builds):
    corrupted = True
    add("build statement swallowed by ninja line continuation ($ at end of unescaped module name)",
        written=plan.raw_build_lines, parsed=len(plan.builds))

  outputs = {o for b in plan.builds for o in b.outs + b.implicit_outs}
  prod, preds = step_graph(plan)
  anc, cyclic = closure(preds)
  if cyclic:
    add("dependency cycle in plan")
  default_pyi = os.path.join(out_dir, "imports", "default.pyi")
  pyi_dir = os.path.join(out_dir, "pyi")

  def reporting(b):
    return "--no-report-errors" not in plan.rule_text(b.rule)

  # ---- per step well-formedness and path survival
  imports_of = {}
  imports_file_users = {}
  for i, b in enumerate(plan.builds):
    if len(b.outs) != 1 or len(b.ins) != 1:
      add("build statement does not have exactly one output and one source",
          step=b.to_json())
      continue
    src = b.ins[0]
    info = pfiles.get(src)
    if reporting(b):
      stats["check_steps"] += 1
    if b.out.endswith("-1"):
      stats["first_pass_steps"] += 1
    elif b.out + "-1" in outputs:
      stats["two_pass_groups"] += 1   # counted per member, normalised by caller if wanted
    if pfiles and info is None:
      if not any(src.startswith(p) for p in expect.get("allow_foreign", [])):
        near = [p for p in pfiles if char_classes(p) != "none"]
        if near and not os.path.exists(src):
          add(f"path changed by ninja escaping: {char_classes(*near)} (source path)", step=b.to_json())
        else:
          add("build step for a file that is not a project source (system/builtin modules must map to "
              "the default stub)", step=b.to_json())
    # output location
    ok_out = b.out.startswith(pyi_dir + os.sep) and (b.out.endswith(".pyi") or b.out.endswith(".pyi-1"))
    if not ok_out:
      add(f"path changed by ninja escaping: {special_all} (output path outside <output>/pyi)",
          step=b.to_json())
    elif info and info.get("stem"):
      stem = b.out[len(pyi_dir) + 1:]
      stem = stem[:-6] if stem.endswith(".pyi-1") else stem[:-4]
      if stem != info["stem"]:
        add(f"path changed by ninja escaping: {char_classes(info['stem'])} (output path does not "
            "correspond to the source path)", step=b.to_json(), expected_stem=info["stem"])
    # imports file
    imp = b.bindings.get("imports")
    if imp is None:
      add("build statement without an imports binding", step=b.to_json())
    else:
      imports_file_users.setdefault(imp, []).append(i)
      if not os.path.isfile(imp):
        add(f"path changed by ninja escaping: {char_classes(imp, out_dir)} (imports file named in the "
            "plan does not exist)", step=b.to_json())
      else:
        imports_of[i] = read_imports_file(imp)
      if shell_escape(imp) != imp:
        stats["sh_unsafe_imports_args"] += 1     # noted, not judged
    # module name
    mod = b.bindings.get("module")
    if info and info.get("module") is not None and mod not in info["module"]:
      want = info["module"][0]
      if "$" in want:
        add("module name changed by ninja evaluation of the unescaped `module =` binding",
            step=b.to_json(), expected=info["module"], got=mod, dollar_class=dollar_class(want))
      else:
        add("module binding does not name the module of the source file", step=b.to_json(),
            expected=info["module"], got=mod)

  for imp, users in imports_file_users.items():
    if len(users) > 1:
      stats["shared_imports_files"] += 1
  shared_users = {i for us in imports_file_users.values() if len(us) > 1 for i in us}

  if corrupted:
    # ninja sees a different statement structure than pytype wrote: the root cause is reported
    # above; judging the remaining conditions on the corrupted structure would only restate it.
    findings[:] = [f for f in findings if "swallowed" in f["key"] or "module name changed" in f["key"]]
    stats["not_judged_after_corruption"] = 1
    return {"findings": findings, "stats": stats, "plan": plan}

  # ---- every requested file has exactly one error-reporting step
  for f in requested:
    steps = [b for b in plan.builds if b.ins == [f]]
    n = sum(1 for b in steps if reporting(b))
    if n != 1:
      cls = char_classes(f)
      if not steps and cls != "none":
        add(f"path changed by ninja escaping: {cls} (no step has the requested file as source)",
            requested=f)
      else:
        add(f"requested file has {n if n < 2 else '2+'} check steps", requested=f, n=n,
            steps=[b.to_json() for b in steps])

  # ---- imports entries and the closure condition
  def shared(i, consequence, what):
    b = plan.builds[i]
    mod = b.bindings.get("module")
    q = ("empty module name: sources outside the pythonpath" if mod == "" else "same module name")
    add(f"several steps share one imports file, the last writer wins ({q})", step=b.to_json(),
        consequence=consequence, what=what,
        sharers=[plan.builds[j].ins for j in imports_file_users[b.bindings.get("imports")]])

  reads = []
  for i, b in enumerate(plan.builds):
    rd = set()
    items = imports_of.get(i, [])
    have_keys = set()
    for short, path, raw in items:
      stats["imports_entries"] += 1
      have_keys.add(os.path.splitext(short)[0] if path is not None else short)
      if path is None:
        add("imports line without a separator", step=b.to_json(), line=raw)
        continue
      ap = os.path.abspath(path)
      if ap == default_pyi:
        stats["default_entries"] += 1
        continue
      if ap in outputs:
        stats["output_entries"] += 1
        rd.add(ap)
        # key <-> stub consistency inside the plan
        stem = ap[len(pyi_dir) + 1:] if ap.startswith(pyi_dir + os.sep) else None
        if stem is not None:
          stem = stem[:-6] if stem.endswith(".pyi-1") else stem[:-4]
          if stem != short:
            add("imports entry key differs from the stub it maps to", step=b.to_json(), line=raw)
        continue
      # not default, not declared: can the line be explained by a wrong split?
      resplit = None
      for k in range(len(raw)):
        if raw[k] == " " and os.path.abspath(raw[k + 1:].strip()) in outputs | {default_pyi}:
          resplit = (raw[:k], raw[k + 1:])
      if resplit is not None:
        add("imports entry not produced by any step: short path contains a space, so "
            "imports_map_loader's split(' ', 1) cuts it in the wrong place", step=b.to_json(),
            line=raw, parsed=[short, path], meant=list(resplit))
        have_keys.add(resplit[0])        # the consequence is reported once, here
      elif os.path.isfile(ap) and ap.endswith((".pyi", ".pytd")) and not ap.startswith(pyi_dir):
        stats["ondisk_entries"] += 1      # a stub that exists independently of the build: not judged
      else:
        add("imports entry not produced by any step", step=b.to_json(), line=raw)
    reads.append(rd)
    stage = _stage(b, outputs)
    for p in sorted(rd):
      stats["reads_checked"] += 1
      q = prod[p]
      if q == i:
        add("step reads its own output", step=b.to_json(), path=p)
      elif q not in anc[i]:
        pstage = _stage(plan.builds[q], outputs)
        key = (f"reader not ordered after producer (missing dependency edge): {stage} step reads "
               f"{pstage} output")
        if i in shared_users:
          shared(i, key, p)
        else:
          add(key, reader=b.to_json(), producer=plan.builds[q].to_json(), path=p)
    # completeness against the generator's ground truth
    src = b.ins[0] if b.ins else None
    want_local = expect.get("expected_deps", {}).get(src, [])
    for d in want_local:
      stem = (pfiles.get(d) or {}).get("stem")
      if stem is None or d == src:
        continue
      same = _same_group(plan, outputs, src, d)
      if stage == "first pass" and same:
        continue   # by design the first pass of a cycle does not see the cycle itself
      if stem not in have_keys:
        key = f"imports map lacks a module the source certainly imports ({stage}" + (
            ", target also analysed in two passes)" if same else ")")
        if i in shared_users:
          shared(i, key, stem)
        else:
          add(key, step=b.to_json(), missing=stem, have=sorted(have_keys))
    for k in expect.get("default_keys", {}).get(src, []):
      if k not in have_keys:
        add("imports map lacks the default-stub entry of a system module the source imports",
            step=b.to_json(), missing=k)
  # declared inputs must be sources on disk or outputs of some step
  for b in plan.builds:
    for p in b.implicit + b.order_only:
      if p not in outputs and not os.path.exists(p):
        add("declared dependency has no producer and does not exist", step=b.to_json(), path=p)

  # chain length (non-triviality)
  depth = {}

  def dep(s, guard=0):
    if s in depth:
      return depth[s]
    depth[s] = 1
    if not cyclic:
      depth[s] = 1 + max([dep(p) for p in preds[s]] or [0])
    return depth[s]
  stats["max_chain"] = max([dep(s) for s in range(len(preds))] or [0])

  # ---- literally all topological orders (small plans): cross-check of the closure condition
  if len(plan.builds) <= enum_max_steps and not cyclic and len(reads) == len(plan.builds):
    res = enumerate_orders(preds, reads, prod)
    stats["orders"] = res["orders"]
    stats["enumerated"] = res["complete"]
    closure_unsafe = any(prod[p] != i and prod[p] not in anc[i] or prod[p] == i
                         for i, rd in enumerate(reads) for p in rd)
    if res["complete"] and bool(res["unsafe"]) != closure_unsafe:
      add("INTERNAL: closure condition and order enumeration disagree",
          unsafe=res["unsafe"], closure_unsafe=closure_unsafe)
    if res["unsafe"]:
      stats["unsafe_order_example"] = [
          [plan.builds[s].out for s in res["unsafe"][0][0]], plan.builds[res["unsafe"][0][1]].out,
          res["unsafe"][0][2]]
  return {"findings": findings, "stats": stats, "plan": plan}


def _same_group(plan, outputs, src_a, src_b):
  """Both sources have first-pass steps => they were analysed as members of a two-pass group."""
  def two_pass(src):
    return any(b.ins == [src] and b.out.endswith("-1") for b in plan.builds)
  return two_pass(src_a) and two_pass(src_b)


def _same_output_twice(lines):
  seen = {}
  for ln in lines:
    if ln.startswith("build ") and ": " in ln:
      o, rest = ln[6:].split(": ", 1)
      src = rest.split(" | ")[0]
      if o in seen and seen[o] != src:
        return [seen[o], src, o]
      seen.setdefault(o, src)
  return None


def _modname_qualifier(lines, out_escaped):
  """The `module =` values of the statements that claim the same output."""
  mods = []
  for k, ln in enumerate(lines):
    if ln.startswith("build " + out_escaped + ": "):
      for nxt in lines[k + 1:k + 3]:
        if nxt.startswith("  module = "):
          mods.append(nxt[len("  module = "):])
  if mods and all(m == "" for m in mods):
    return " (empty module name: sources outside the pythonpath)"
  return " (same module name)"


def _error_kind(msg):
  for k in ("bad $-escape", "unknown build rule", "multiple rules generate", "expected COLON",
            "expected NEWLINE", "expected EQUALS", "expected path", "unexpected indent",
            "duplicate rule", "expected build command name", "lexing error", "unexpected EOF",
            "expected variable name"):
    if k in msg:
      return k
  return "other"


# ---------------------------------------------------------------------------
# real ninja as a referee for the parser above


def compare_with_compdb(plan: Plan, compdb_json: str):
  """`ninja -t compdb <rules>` lists every edge with its fully evaluated command.

  Returns a list of differences between ninja's evaluation and ours (should be empty).
  """
  diffs = []
  try:
    db = json.loads(compdb_json)
  except ValueError as e:
    return [f"compdb not json: {e}"]
  theirs = {(e["output"], e["file"]): e["command"] for e in db}
  ours = {(b.out, b.ins[0] if b.ins else None): plan.command(b) for b in plan.builds}
  for k in sorted(set(theirs) | set(ours), key=repr):
    if theirs.get(k) != ours.get(k):
      diffs.append({"edge": k, "ninja": theirs.get(k), "oracle": ours.get(k)})
  return diffs


# ---------------------------------------------------------------------------
# dynamic monitor: the event log


def read_event_log(path):
  evs = []
  try:
    with open(path) as f:
      for line in f:
        line = line.strip()
        if line:
          evs.append(json.loads(line))
  except FileNotFoundError:
    pass
  return evs


def check_event_log(events, plan: Plan, ninja_rc):
  """Read-after-complete-write, judged from the log alone.

  Events (one JSON object per line, `t` from CLOCK_MONOTONIC, shared by all processes):
    start{out,src,module,imports,report}  read{out,path,state,t}  wbegin{out}  wend{out}  end{out,rc}
  """
  findings = []
  seen = set()

  def add(key, **detail):
    if key not in seen:
      seen.add(key)
      findings.append({"key": key, "detail": detail})

  outputs = {o for b in plan.builds for o in b.outs}
  by_out = {}
  for e in events:
    by_out.setdefault(e.get("out"), []).append(e)
  wend = {}
  for e in events:
    if e["ev"] == "wend":
      wend.setdefault(e["out"], []).append(e["t"])
  starts = [(e["t"], e["out"]) for e in events if e["ev"] == "start"]
  ends = {e["out"]: e["t"] for e in events if e["ev"] == "end"}
  reads = 0
  for e in events:
    if e["ev"] != "read" or e["path"] not in outputs:
      continue
    reads += 1
    p = e["path"]
    done = [t for t in wend.get(p, []) if t <= e["t"]]
    # `read.t` is taken before the open, `wend.t` after the close; ninja starts a dependent step
    # only after the producer's process exited, so on an ordered pair wend.t < read.t always.
    if e["state"] == "missing":
      add("read of missing stub under real ninja", reader=e["out"], path=p, state=e["state"])
    elif e["state"] != "complete":
      add("read of incomplete stub under real ninja", reader=e["out"], path=p, state=e["state"],
          producer_finished_before_read=bool(done))
    elif not done:
      add("read overlapping the producer's write under real ninja (content happened to be complete)",
          reader=e["out"], path=p)
  # every step of the plan ran exactly once when ninja reports success
  nstart = {}
  for _, o in starts:
    nstart[o] = nstart.get(o, 0) + 1
  if ninja_rc == 0:
    for o in outputs:
      if nstart.get(o, 0) != 1:
        add(f"step executed {nstart.get(o, 0)} times under real ninja although ninja succeeded", out=o)
  failed = [e for e in events if e["ev"] == "end" and e.get("rc")]
  # intervals -> parallelism
  pts = []
  for t, o in starts:
    pts.append((t, 1))
    if o in ends:
      pts.append((ends[o], -1))
  cur = mx = 0
  for _, d in sorted(pts):
    cur += d
    mx = max(mx, cur)
  order = [o for _, o in sorted(starts)]
  return {"findings": findings, "reads": reads, "max_parallel": mx, "start_order": order,
          "steps_started": len(starts), "failed_steps": len(failed)}
