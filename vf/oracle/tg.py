"""Typegraph helpers: an op-log interpreter that drives a real cfg.Program,
an exporter that reads a live Program back through its public attributes, and
the declarative reference semantics of "a set of bindings is possible at a
node" (no caches, no path shortcuts, no articulation points).
"""
from __future__ import annotations

import itertools


# ---------------------------------------------------------------------------
# Driving a real Program from an op log.  Bindings are addressed as
# (variable index, position inside variable.bindings): both vectors are in
# creation order, so the address is stable and identical on a replica.


class Real:
  """Applies ops to a live cfg.Program."""

  def __init__(self, ndata=80):
    from pytype.typegraph import cfg
    self.cfg = cfg
    self.p = cfg.Program()
    self.nodes = []
    self.vars = []
    self.data = [f"d{i}" for i in range(ndata)]
    self.p.default_data = "DEFAULT"

  def b(self, addr):
    vi, bi = addr
    return self.vars[vi].bindings[bi]

  def bs(self, addrs):
    return [self.b(a) for a in addrs]

  def node(self, i):
    return None if i is None else self.nodes[i]

  def apply(self, op):
    k = op[0]
    if k == "node":
      cond = op[1] if len(op) > 1 else None
      if cond is None:
        self.nodes.append(self.p.NewCFGNode(f"n{len(self.nodes)}"))
      else:
        self.nodes.append(self.p.NewCFGNode(f"n{len(self.nodes)}", self.b(cond)))
    elif k == "cnew":
      cond = op[2] if len(op) > 2 else None
      if cond is None:
        self.nodes.append(self.nodes[op[1]].ConnectNew(f"n{len(self.nodes)}"))
      else:
        self.nodes.append(self.nodes[op[1]].ConnectNew(f"n{len(self.nodes)}", self.b(cond)))
    elif k == "edge":
      self.nodes[op[1]].ConnectTo(self.nodes[op[2]])
    elif k == "var":
      self.vars.append(self.p.NewVariable())
    elif k == "bind":      # (bind, v, data, [src], where)
      self.vars[op[1]].AddBinding(self.data[op[2]], self.bs(op[3]), self.nodes[op[4]])
    elif k == "bind0":     # (bind0, v, data)
      self.vars[op[1]].AddBinding(self.data[op[2]])
    elif k == "origin":    # (origin, b, where, [src])
      self.b(op[1]).AddOrigin(self.nodes[op[2]], self.bs(op[3]))
    elif k == "cond":      # (cond, n, b|None)
      self.nodes[op[1]].condition = None if op[2] is None else self.b(op[2])
    elif k == "paste_b":   # (paste_b, v, b, where|None, [additional])
      self.vars[op[1]].PasteBinding(self.b(op[2]), self.node(op[3]), self.bs(op[4]))
    elif k == "paste_v":   # (paste_v, v, v2, where|None, [additional])
      self.vars[op[1]].PasteVariable(self.vars[op[2]], self.node(op[3]), self.bs(op[4]))
    elif k == "paste_nd":  # (paste_nd, v, b, data)
      self.vars[op[1]].PasteBindingWithNewData(self.b(op[2]), self.data[op[3]])
    elif k == "assign_v":  # (assign_v, v, where|None) -> new variable
      self.vars.append(self.vars[op[1]].AssignToNewVariable(self.node(op[2])))
    elif k == "assign_b":  # (assign_b, b, where|None) -> new variable
      self.vars.append(self.b(op[1]).AssignToNewVariable(self.node(op[2])))
    elif k == "newvar_b":  # (newvar_b, [data], [src], where) -> Program.NewVariable(bindings, source_set, where)
      self.vars.append(self.p.NewVariable([self.data[d] for d in op[1]], self.bs(op[2]),
                                          self.nodes[op[3]]))
    else:
      raise ValueError(op)

  def replay(self, ops):
    for op in ops:
      self.apply(op)
    return self

  # queries -----------------------------------------------------------------
  def query(self, q):
    k = q[0]
    if k == "has":
      return self.nodes[q[1]].HasCombination(self.bs(q[2]))
    if k == "can":
      return self.nodes[q[1]].CanHaveCombination(self.bs(q[2]))
    if k == "vis":
      return self.b(q[1]).IsVisible(self.nodes[q[2]])
    if k == "filter":
      return sorted(b.id for b in self.vars[q[1]].Filter(self.nodes[q[2]], q[3]))
    if k == "bindings":
      return sorted(b.id for b in self.vars[q[1]].Bindings(self.nodes[q[2]]))
    if k == "fdata":
      return sorted(self.vars[q[1]].FilteredData(self.nodes[q[2]], q[3]))
    if k == "data":
      return sorted(self.vars[q[1]].Data(self.nodes[q[2]]))
    if k == "reach":
      return self.p.is_reachable(self.nodes[q[1]], self.nodes[q[2]])
    if k == "hassrc":
      return self.b(q[1]).HasSource(self.b(q[2]))
    raise ValueError(q)

  def addrs(self):
    return [(vi, bi) for vi, v in enumerate(self.vars) for bi in range(len(v.bindings))]


# ---------------------------------------------------------------------------
# Export: read a live Program through its public attributes only.


class Desc:
  """Plain description of a typegraph keyed by node ids and binding ids."""
  __slots__ = ("n", "pred", "succ", "cond", "bvar", "borig", "var_nodes", "var_bindings",
               "cyclic", "has_cond", "objs")

  def fingerprint(self):
    return (self.n, tuple(tuple(sorted(p)) for p in self.pred), tuple(self.cond),
            tuple(sorted((b, v, tuple(sorted((w, tuple(sorted(tuple(sorted(s)) for s in ss)))
                                             for w, ss in self.borig[b].items())))
                         for b, v in self.bvar.items())))


def export(program, extra_vars=()) -> Desc:
  """Reads the graph back through public attributes.  Program.variables only
  lists variables bound at some node, so variables reachable through source sets
  and conditions (and `extra_vars`) are added by closure."""
  d = Desc()
  nodes = program.cfg_nodes
  d.n = len(nodes)
  d.pred = [None] * d.n
  d.succ = [None] * d.n
  d.cond = [None] * d.n
  todo = {}
  for v in list(program.variables) + list(extra_vars):
    todo[v.id] = v
  for nd in nodes:
    d.pred[nd.id] = [x.id for x in nd.incoming]
    d.succ[nd.id] = [x.id for x in nd.outgoing]
    c = nd.condition
    d.cond[nd.id] = None if c is None else c.id
    if c is not None:
      todo.setdefault(c.variable.id, c.variable)
  d.bvar, d.borig, d.var_nodes, d.var_bindings = {}, {}, {}, {}
  d.objs = {}
  done = set()
  while todo:
    vid, v = todo.popitem()
    if vid in done:
      continue
    done.add(vid)
    vn = set()
    ids = []
    for b in v.bindings:
      ids.append(b.id)
      d.bvar[b.id] = v.id
      d.objs[b.id] = b
      om = {}
      for o in b.origins:
        sets = []
        for ss in o.source_sets:
          sets.append(frozenset(s.id for s in ss))
          for s in ss:
            sv = s.variable
            if sv.id not in done:
              todo.setdefault(sv.id, sv)
        om[o.where.id] = sets
        vn.add(o.where.id)
      d.borig[b.id] = om
    d.var_nodes[v.id] = vn
    d.var_bindings[v.id] = ids
  d.has_cond = any(c is not None for c in d.cond)
  d.cyclic = _cyclic(d)
  return d


def _cyclic(d):
  color = [0] * d.n
  for s in range(d.n):
    if color[s]:
      continue
    stack = [(s, iter(d.succ[s]))]
    color[s] = 1
    while stack:
      x, it = stack[-1]
      for y in it:
        if color[y] == 1:
          return True
        if color[y] == 0:
          color[y] = 1
          stack.append((y, iter(d.succ[y])))
          break
      else:
        color[x] = 2
        stack.pop()
  return False


# ---------------------------------------------------------------------------
# Reference semantics.


class Budget(Exception):
  pass


class Ref:
  """explained(n, G): some backward path explains the goal set G at node n."""

  def __init__(self, d: Desc, budget=200000):
    self.d = d
    self.memo_true = set()
    self.memo_false = set()   # only used on acyclic graphs
    self.budget = budget
    self.steps = 0

  def removal_results(self, n, goals):
    """All (removed, new) obtained by replacing goals that have an origin at n
    by one of that origin's source sets, repeatedly."""
    d = self.d
    results = []

    def rec(todo, removed, new):
      todo = todo - removed - new
      if not todo:
        results.append((removed, new))
        return
      g = min(todo)
      rest = todo - {g}
      ss = d.borig[g].get(n)
      if ss is None:
        rec(rest, removed, new | {g})
      else:
        for s in ss:
          rec(rest | s, removed | {g}, new)
    rec(frozenset(goals), frozenset(), frozenset())
    return results

  def explained(self, n, goals, stack=frozenset()):
    d = self.d
    goals = frozenset(goals)
    if d.cond[n] is not None:
      goals = goals | {d.cond[n]}
    key = (n, goals)
    if key in self.memo_true:
      return True
    if key in self.memo_false:
      return False
    if key in stack:
      return False   # least fixed point: a state already on the stack fails
    self.steps += 1
    if self.steps > self.budget:
      raise Budget()
    stack2 = stack | {key}
    ok = False
    for removed, new in self.removal_results(n, goals):
      vs = [d.bvar[g] for g in removed]
      if len(set(vs)) != len(vs):
        continue           # two bindings of one variable required together
      if not new:
        ok = True
        break
      if any(n in d.var_nodes[d.bvar[g]] for g in new):
        continue           # a remaining goal's variable is (re)bound here
      for p in d.pred[n]:
        if self.explained(p, new, stack2):
          ok = True
          break
      if ok:
        break
    if ok:
      self.memo_true.add(key)
    elif not d.cyclic:
      self.memo_false.add(key)
    return ok

  # independent helpers -------------------------------------------------------
  def back_reach(self, n):
    seen = {n}
    st = [n]
    while st:
      x = st.pop()
      for y in self.d.pred[x]:
        if y not in seen:
          seen.add(y)
          st.append(y)
    return seen

  def origin_reachable(self, n, g):
    r = self.back_reach(n)
    return any(w in r for w in self.d.borig[g])

  def prune(self, var, n):
    """CFG-only pruning (Variable.Bindings): walk backwards from n, collect the
    bindings at the first nodes that bind var on each path."""
    d = self.d
    ids = d.var_bindings[var]
    if len(ids) == 1:
      r = self.back_reach(n)
      return set(ids) if any(w in r for w in d.var_nodes[var]) else set()
    out = set()
    seen = set()
    st = [n]
    while st:
      x = st.pop()
      if x in seen:
        continue
      seen.add(x)
      if x in d.var_nodes[var]:
        out |= {b for b in ids if x in d.borig[b]}
        continue
      st.extend(d.pred[x])
    return out


def subsets(items, maxk):
  for k in range(1, maxk + 1):
    yield from itertools.combinations(items, k)
