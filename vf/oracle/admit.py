"""member(shape, pytd type): does the stub type admit the run-time value?

Independent structural interpreter of pytd types over value shapes (PEP 484
rules).  Every "don't know" resolves to *admit* so the oracle can miss but never
false-alarm.  Returns (verdict, reason) with verdict in {True, False}.
"""
from __future__ import annotations

PROMOTE = {"float": {"int", "bool"}, "complex": {"float", "int", "bool"}}
# names that, as a generic base, mean "container with these element semantics"
SEQ_LIKE = {"list", "set", "frozenset"}
UNKNOWN_GENERIC_ADMIT = True


def _short(name: str, modname: str | None) -> str:
  for p in ("builtins.", "typing.", "collections.abc.", "collections."):
    if name.startswith(p):
      return name[len(p):]
  if modname and name.startswith(modname + "."):
    return name[len(modname) + 1:]
  return name


class Admit:
  def __init__(self, ast, modname=None):
    from pytype.pytd import pytd
    self.pytd = pytd
    self.ast = ast
    self.modname = modname or getattr(ast, "name", None)
    self.classes = {c.name: c for c in ast.classes}
    self.counts = {"any": 0, "decided": 0, "dontknow": 0}

  def short(self, name):
    return _short(name, self.modname)

  def admits(self, t, s) -> bool:
    """True if type t admits shape s (or we cannot tell)."""
    pytd = self.pytd
    k = s.get("k")
    if k == "opaque":
      return True
    if isinstance(t, pytd.AnythingType):
      return True
    if isinstance(t, pytd.NothingType):
      return False
    if isinstance(t, pytd.UnionType):
      return any(self.admits(x, s) for x in t.type_list)
    if isinstance(t, pytd.IntersectionType):
      return all(self.admits(x, s) for x in t.type_list)
    if isinstance(t, pytd.Annotated):
      return self.admits(t.base_type, s)
    if isinstance(t, (pytd.TypeParameter, pytd.LateType, pytd.Module)):
      return True
    if isinstance(t, pytd.Literal):
      v = t.value
      if isinstance(v, pytd.Constant):   # enum member etc.
        return True
      if "v" not in s:
        return True
      if isinstance(v, bool):
        return s["v"] == repr(v)
      if isinstance(v, int):
        return s["v"] == repr(v) and s.get("cls") in ("int",)
      if isinstance(v, str):
        # pytd stores string/bytes literals with their quotes
        return s["v"] == v or s["v"] == repr(v) or _unquote(v) == _unquote(s["v"])
      return True
    if isinstance(t, pytd.CallableType) or (
        isinstance(t, pytd.GenericType) and self.short(t.base_type.name) == "Callable"):
      return self.is_callable(s)
    if isinstance(t, pytd.TupleType):
      if k == "tuple":
        if s.get("trunc"):
          return True
        if s["n"] != len(t.parameters):
          return False
        return all(self.admits(pt, e) for pt, e in zip(t.parameters, s["e"]))
      mro = s.get("mro")
      if mro is not None and "tuple" not in mro:
        return False
      return True
    if isinstance(t, pytd.GenericType):
      base = self.short(t.base_type.name)
      ps = t.parameters
      if base in ("list", "set", "frozenset"):
        if not self.nominal_is(base, s):
          return False
        if k not in ("list", "set", "frozenset"):
          return True
        return all(self.admits(ps[0], e) for e in s["e"])
      if base == "tuple":
        if not self.nominal_is("tuple", s):
          return False
        if k != "tuple":
          return True
        return all(self.admits(ps[0], e) for e in s["e"])
      if base == "dict":
        if not self.nominal_is("dict", s):
          return False
        if k != "dict" or len(ps) != 2:
          return True
        return all(self.admits(ps[0], a) and self.admits(ps[1], b) for a, b in s["kv"])
      if base == "type":
        if k != "class":
          return self._maybe_metaclass(s)
        p = ps[0]
        return self.class_admits(p, s)
      # user generic classes, typing ABCs (Sequence, Mapping, Iterator, Generator...): nominal part only
      r = self.nominal(base, s)
      return True if r is None else r
    if isinstance(t, (pytd.NamedType, pytd.ClassType)):
      name = self.short(t.name)
      if name in ("object", "Any"):
        return True
      if name == "NoneType":
        return s.get("cls") == "NoneType"
      if name == "type":
        return k == "class" or self._maybe_metaclass(s)
      if name == "Callable":
        return self.is_callable(s)
      r = self.nominal(name, s)
      return True if r is None else r
    return True   # unknown node kind

  def _maybe_metaclass(self, s):
    return "type" in s.get("mro", ())

  def is_callable(self, s):
    k = s.get("k")
    if k in ("callable", "class"):
      return True
    if s.get("callable"):
      return True
    if s.get("user"):
      return True    # may define __call__; don't know
    if k in ("list", "tuple", "dict", "set", "frozenset"):
      return False
    if s.get("cls") in ("int", "str", "float", "bool", "bytes", "NoneType", "complex"):
      return False
    return True

  def nominal_is(self, base, s):
    r = self.nominal(base, s)
    return True if r is None else r

  def nominal(self, name, s):
    """True/False if decidable, None if unknown name."""
    k = s.get("k")
    if k == "class":
      # a class object against a class name: only `type`/object/metaclasses admit it
      return name in ("type", "object") or name in s.get("metamro", ())
    if k == "callable":
      return None if name not in ("int", "str", "float", "list", "dict", "tuple", "set", "bool",
                                  "bytes", "NoneType") else False
    mro = s.get("mro")
    if mro is None:
      return None
    if name in mro:
      return True
    if name in PROMOTE and PROMOTE[name] & set(mro):
      return True
    # typing aliases / ABCs we cannot decide structurally
    if name in KNOWN_CONCRETE or name in self.classes:
      return False
    return None

  def class_admits(self, p, s):
    """type[p] against a class-object shape."""
    pytd = self.pytd
    if isinstance(p, (pytd.AnythingType, pytd.TypeParameter, pytd.LateType)):
      return True
    if isinstance(p, pytd.UnionType):
      return any(self.class_admits(x, s) for x in p.type_list)
    if isinstance(p, (pytd.NamedType, pytd.ClassType)):
      name = self.short(p.name)
      if name == "object":
        return True
      if name in s["mro"]:
        return True
      if name in PROMOTE and PROMOTE[name] & set(s["mro"]):
        return True
      if name in KNOWN_CONCRETE or name in self.classes:
        return False
      return True
    if isinstance(p, pytd.GenericType):
      return self.class_admits(p.base_type, s)
    return True


KNOWN_CONCRETE = {"int", "str", "float", "bool", "bytes", "complex", "list", "dict", "set", "frozenset",
                  "tuple", "NoneType", "bytearray", "range", "slice", "function", "type"}


def _unquote(x):
  x = str(x)
  if len(x) >= 2 and x[0] == x[-1] and x[0] in "'\"":
    return x[1:-1]
  if len(x) >= 3 and x[0] in "bB" and x[1] == x[-1] and x[1] in "'\"":
    return "b" + x[2:-1]
  return x


def find_failure(adm, t, s, path=()):
  """Descends to the innermost (type, shape) pair that is not admitted.
  Returns (path, type, shape, parent_shape); path items: 'elem', 'key', 'value', 'tuple[i]', 'union'."""
  pytd = adm.pytd
  k = s.get("k")
  if isinstance(t, pytd.Annotated):
    return find_failure(adm, t.base_type, s, path)
  if isinstance(t, pytd.UnionType):
    # descend into the member that nominally matches the container, if any
    for m in t.type_list:
      base = m.base_type.name if isinstance(m, pytd.GenericType) else getattr(m, "name", "")
      if adm.short(base) in s.get("mro", ()):
        r = find_failure(adm, m, s, path)
        if r[0] != path:
          return r
    return (path, t, s, None)
  if isinstance(t, pytd.TupleType) and k == "tuple" and s["n"] == len(t.parameters):
    for i, (pt, e) in enumerate(zip(t.parameters, s["e"])):
      if not adm.admits(pt, e):
        r = find_failure(adm, pt, e, path + (f"tuple[{i}]",))
        return r if r[3] is not None else (r[0], r[1], r[2], s)
  elif isinstance(t, pytd.GenericType) and not isinstance(t, (pytd.CallableType, pytd.TupleType)):
    base = adm.short(t.base_type.name)
    if base in ("list", "set", "frozenset", "tuple") and k in ("list", "set", "frozenset", "tuple") \
        and adm.nominal_is(base, s):
      for e in s["e"]:
        if not adm.admits(t.parameters[0], e):
          r = find_failure(adm, t.parameters[0], e, path + ("elem",))
          return r if r[3] is not None else (r[0], r[1], r[2], s)
    if base == "dict" and k == "dict" and len(t.parameters) == 2:
      for a, b in s["kv"]:
        if not adm.admits(t.parameters[0], a):
          r = find_failure(adm, t.parameters[0], a, path + ("key",))
          return r if r[3] is not None else (r[0], r[1], r[2], s)
        if not adm.admits(t.parameters[1], b):
          r = find_failure(adm, t.parameters[1], b, path + ("value",))
          return r if r[3] is not None else (r[0], r[1], r[2], s)
  return (path, t, s, None)
