"""C06 oracle: read emitted stubs with the stdlib `ast`, normalise types, and
compute what a downstream module must see.

Independent of pytype: nothing here imports pytype; the stub *text* pytype wrote
is the observable.  Types are normalised into nested tuples:

  ("n", "int")                         a (dotted) name, upstream-module / typing / builtins prefix stripped
  ("u", (t1, t2, ...))                 a union: flattened, de-duplicated, sorted; Optional[X] == Union[X, None];
                                       a bare generic class G absorbs G[...] members (G is G[Any])
  ("g", head, (arg, ...))              a parameterised type; typing aliases (List, Dict, ...) lower-cased
  ("l", (t, ...))                      a bracketed list (Callable parameters)
  ("c", repr)                          a literal constant (inside Literal[...]); ("e",) for `...`

Everything that cannot be computed returns SKIP with a reason (counted by the
check, never guessed).
"""
from __future__ import annotations

import ast

_FUNCS = (ast.FunctionDef, ast.AsyncFunctionDef)
_ALIASES = {"List": "list", "Dict": "dict", "Set": "set", "FrozenSet": "frozenset", "Tuple": "tuple",
            "Type": "type", "Text": "str", "DefaultDict": "collections.defaultdict",
            "Deque": "collections.deque", "OrderedDict": "collections.OrderedDict",
            "Counter": "collections.Counter", "ChainMap": "collections.ChainMap"}


class Skip(Exception):
  pass


class Normalizer:
  """prefixes: module prefixes to strip (e.g. {"a", "pkg.sub.a"})."""

  def __init__(self, prefixes=(), foreign=()):
    self.prefixes = sorted(prefixes, key=len, reverse=True)
    self.foreign = set(foreign)     # names that must only appear module-qualified
    self.bare_foreign = []          # ... and the ones that appeared bare
    self.absorbed = 0               # G[...] union members absorbed by a bare G

  def name(self, dotted):
    for p in self.prefixes:
      if dotted.startswith(p + "."):
        dotted = dotted[len(p) + 1:]
        break
    for p in ("typing.", "builtins.", "typing_extensions."):
      if dotted.startswith(p):
        dotted = dotted[len(p):]
    return _ALIASES.get(dotted, dotted)

  def t(self, node, in_literal=False):
    if node is None:
      return None
    if isinstance(node, ast.Constant):
      if in_literal:
        return ("c", repr(node.value))
      if node.value is None:
        return ("n", "None")
      if node.value is Ellipsis:
        return ("e",)
      if isinstance(node.value, str):
        try:
          return self.t(ast.parse(node.value, mode="eval").body)
        except SyntaxError:
          raise Skip("unparseable string annotation")
      return ("c", repr(node.value))
    if isinstance(node, ast.Name):
      if node.id in self.foreign:
        self.bare_foreign.append(node.id)
      return ("n", self.name(node.id))
    if isinstance(node, ast.Attribute):
      parts = []
      cur = node
      while isinstance(cur, ast.Attribute):
        parts.append(cur.attr)
        cur = cur.value
      if not isinstance(cur, ast.Name):
        raise Skip("odd attribute expression in a type")
      parts.append(cur.id)
      if cur.id in self.foreign:
        self.bare_foreign.append(".".join(reversed(parts)))
      if in_literal:
        return ("c", ".".join(reversed(parts)))   # enum member inside Literal[...]
      return ("n", self.name(".".join(reversed(parts))))
    if isinstance(node, ast.BinOp) and isinstance(node.op, ast.BitOr):
      return self.union([self.t(node.left), self.t(node.right)])
    if isinstance(node, ast.UnaryOp) and isinstance(node.op, ast.USub) and in_literal:
      return ("c", "-" + repr(getattr(node.operand, "value", "?")))
    if isinstance(node, ast.List):
      return ("l", tuple(self.t(e) for e in node.elts))
    if isinstance(node, ast.Tuple):
      return ("l", tuple(self.t(e, in_literal) for e in node.elts))
    if isinstance(node, ast.Subscript):
      head = self.t(node.value)
      if head[0] != "n":
        raise Skip("odd subscript head")
      h = head[1]
      sl = node.slice
      elts = list(sl.elts) if isinstance(sl, ast.Tuple) else [sl]
      if h == "Union":
        return self.union([self.t(e) for e in elts])
      if h == "Optional":
        return self.union([self.t(elts[0]), ("n", "None")])
      if h == "Literal":
        return ("g", h, tuple(sorted(self.t(e, True) for e in elts)))
      return ("g", h, tuple(self.t(e) for e in elts))
    raise Skip("unsupported type syntax " + type(node).__name__)

  def union(self, members):
    flat = []
    for m in members:
      if m[0] == "u":
        flat.extend(m[1])
      else:
        flat.append(m)
    # A bare generic class G is G[Any]; pytype's union simplification lets it absorb every
    # G[...] next to it (Union[list, list[int]] prints as list), so both sides are normalised so.
    bare = {m[1] for m in flat if m[0] == "n"}
    kept = [m for m in flat if not (m[0] == "g" and m[1] in bare)]
    self.absorbed += len(flat) - len(kept)
    uniq = sorted(set(kept), key=repr)
    if len(uniq) == 1:
      return uniq[0]
    return ("u", tuple(uniq))


def show(t):
  if t is None:
    return "<none>"
  k = t[0]
  if k == "n":
    return t[1]
  if k == "u":
    return "Union[" + ", ".join(show(x) for x in t[1]) + "]"
  if k == "g":
    return t[1] + "[" + ", ".join(show(x) for x in t[2]) + "]"
  if k == "l":
    return "[" + ", ".join(show(x) for x in t[1]) + "]"
  if k == "c":
    return t[1]
  if k == "e":
    return "..."
  return repr(t)


def names_in(t, out=None):
  out = set() if out is None else out
  if t is None:
    return out
  if t[0] == "n":
    out.add(t[1])
  elif t[0] in ("u", "l"):
    for x in t[1]:
      names_in(x, out)
  elif t[0] == "g":
    out.add(t[1])
    for x in t[2]:
      names_in(x, out)
  return out


# ---------------------------------------------------------------------------
# stub model


class ClassInfo:
  def __init__(self, name, node):
    self.name, self.node = name, node
    self.bases = []        # normalised base types
    self.attrs = {}        # name -> type tuple (declared by AnnAssign)
    self.methods = {}      # name -> [FunctionDef]
    self.nested = {}
    self.other = False     # anything else in the body we do not model


class Stub:
  """A stub read with `ast`.  Raises SyntaxError if Python cannot parse it."""

  def __init__(self, text, prefixes=(), foreign=()):
    self.text = text
    self.N = Normalizer(prefixes, foreign)
    self.tree = ast.parse(text)
    self.consts = {}       # name -> AnnAssign annotation node
    self.funcs = {}        # name -> [FunctionDef]
    self.classes = {}      # name -> ClassInfo
    self.typevars = {}     # name -> normalised description
    self.aliases = {}      # name -> dotted target  (`x = a.f`)
    self.imported = set()
    self.unmodelled = []
    for st in self.tree.body:
      self._top(st)

  def _top(self, st):
    if isinstance(st, ast.AnnAssign) and isinstance(st.target, ast.Name):
      self.consts[st.target.id] = st.annotation
    elif isinstance(st, _FUNCS):
      self.funcs.setdefault(st.name, []).append(st)
    elif isinstance(st, ast.ClassDef):
      self._register(st.name, self._klass(st))
    elif isinstance(st, ast.Assign) and len(st.targets) == 1 and isinstance(st.targets[0], ast.Name):
      v = st.value
      name = st.targets[0].id
      if isinstance(v, ast.Call) and isinstance(v.func, (ast.Name, ast.Attribute)) and \
         (getattr(v.func, "id", None) == "TypeVar" or getattr(v.func, "attr", None) == "TypeVar"):
        self.typevars[name] = self._typevar(v)
      elif isinstance(v, (ast.Name, ast.Attribute)):
        self.aliases[name] = ast.unparse(v)
      else:
        self.unmodelled.append(ast.unparse(st)[:80])
    elif isinstance(st, (ast.Import, ast.ImportFrom)):
      for a in st.names:
        self.imported.add(a.asname or a.name.split(".")[0])
    elif isinstance(st, ast.Expr):
      pass
    else:
      self.unmodelled.append(type(st).__name__)

  def _register(self, qual, ci):
    """Classes are addressable by dotted name (`Outer.Inner`); top-level ones by their name."""
    ci.qual = qual
    self.classes[qual] = ci
    for n, sub in ci.nested.items():
      self._register(qual + "." + n, sub)

  def toplevel_classes(self):
    return {q for q in self.classes if "." not in q}

  def _typevar(self, call):
    parts = [ast.unparse(call.args[0]) if call.args else "?"]
    for a in call.args[1:]:
      try:
        parts.append(show(self.N.t(a)))
      except Skip:
        parts.append("?" + ast.unparse(a))
    for kw in call.keywords:
      try:
        parts.append(f"{kw.arg}=" + show(self.N.t(kw.value)))
      except Skip:
        parts.append(f"{kw.arg}=?" + ast.unparse(kw.value))
    return tuple(parts)

  def _klass(self, node):
    ci = ClassInfo(node.name, node)
    for b in node.bases:
      try:
        ci.bases.append(self.N.t(b))
      except Skip:
        ci.bases.append(("n", "<unknown>"))
    if node.keywords:
      ci.other = True
    for st in node.body:
      if isinstance(st, ast.AnnAssign) and isinstance(st.target, ast.Name):
        ci.attrs[st.target.id] = st.annotation
      elif isinstance(st, _FUNCS):
        ci.methods.setdefault(st.name, []).append(st)
      elif isinstance(st, ast.ClassDef):
        ci.nested[st.name] = self._klass(st)
      elif isinstance(st, ast.Expr) or isinstance(st, ast.Pass):
        pass
      else:
        ci.other = True
    return ci

  # -- normalised views ------------------------------------------------------
  def const_type(self, name):
    return self.N.t(self.consts[name])

  def signature(self, fn, drop_first=False):
    """Normalised signature of a def (order of parameters kept - it is significant)."""
    a = fn.args
    out = []
    npos = len(a.posonlyargs) + len(a.args)
    ndef = len(a.defaults)
    for i, arg in enumerate(a.posonlyargs + a.args):
      kind = "posonly" if i < len(a.posonlyargs) else "pos"
      out.append((kind, arg.arg, self.N.t(arg.annotation), i >= npos - ndef))
    if a.vararg:
      out.append(("var", a.vararg.arg, self.N.t(a.vararg.annotation), False))
    for arg, d in zip(a.kwonlyargs, a.kw_defaults):
      out.append(("kwonly", arg.arg, self.N.t(arg.annotation), d is not None))
    if a.kwarg:
      out.append(("kw", a.kwarg.arg, self.N.t(a.kwarg.annotation), False))
    decos = tuple(sorted(ast.unparse(d) for d in fn.decorator_list))
    return {"params": tuple(out), "ret": self.N.t(fn.returns), "decorators": decos,
            "async": isinstance(fn, ast.AsyncFunctionDef)}

  # -- class hierarchy -------------------------------------------------------
  def mro(self, cname):
    """C3 linearisation over the stub's own classes; Skip when a base is not modelled."""
    seen = {}

    def lin(name, stack):
      if name in seen:
        return seen[name]
      if name in stack:
        raise Skip("cyclic bases")
      ci = self.classes.get(name)
      if ci is None:
        raise Skip("a base is not a class of the stub")
      if ci.other:
        raise Skip("class has keywords / unmodelled statements")
      bases = []
      for b in ci.bases:
        if b == ("n", "object"):
          continue
        if b[0] != "n":
          raise Skip("parameterised base class")
        bases.append(b[1])
      seqs = [list(lin(b, stack + [name])) for b in bases] + [list(bases)]
      res = [name]
      while any(seqs):
        for s in seqs:
          if not s:
            continue
          cand = s[0]
          if not any(cand in s2[1:] for s2 in seqs):
            break
        else:
          raise Skip("inconsistent hierarchy")
        res.append(cand)
        for s in seqs:
          if s and s[0] == cand:
            del s[0]
      seen[name] = res
      return res

    return lin(cname, [])

  def lookup_member(self, cname, member):
    """First (kind, owner, payload) along the MRO; None if no class declares it."""
    for c in self.mro(cname):
      ci = self.classes[c]
      if member in ci.attrs:
        return ("attr", c, ci.attrs[member])
      if member in ci.methods:
        return ("method", c, ci.methods[member])
      if member in ci.nested:
        return ("class", c, ci.nested[member])
    return None

  def all_members(self, cname):
    out = {}
    for c in reversed(self.mro(cname)):
      ci = self.classes[c]
      for k in ci.attrs:
        out[k] = "attr"
      for k in ci.methods:
        out[k] = "method"
      for k in ci.nested:
        out[k] = "class"
    return out


# ---------------------------------------------------------------------------
# ground arguments


GROUND = {"int": ("1", ("n", "int")), "str": ("'s'", ("n", "str")), "float": ("1.5", ("n", "float")),
          "bool": ("True", ("n", "bool")), "bytes": ("b'b'", ("n", "bytes")), "None": ("None", ("n", "None")),
          "object": ("1", ("n", "int")), "Any": ("1", ("n", "int")), "complex": ("1j", ("n", "complex"))}


def construct(stub, cname, ref, depth=0):
  """Source text constructing an instance of stub class `cname` (dotted), or Skip."""
  mro = stub.mro(cname)
  if any("__new__" in stub.classes[c].methods for c in mro):
    raise Skip("__new__ in the hierarchy")
  init = stub.lookup_member(cname, "__init__")
  if init is None:
    args = ""
  else:
    if init[0] != "method" or len(init[2]) != 1:
      raise Skip("__init__ is not a single method")
    args, _ = call_args(stub, init[2][0], drop_first=True, ref=ref, depth=depth)
  return f"{ref}.{cname}({args})"


def ground_arg(t, typevars, stub=None, ref=None, depth=0):
  """(source text, type of that text) for a parameter of normalised type t, or Skip."""
  if t is None:
    return GROUND["int"]
  if t[0] == "n":
    if t[1] in GROUND:
      return GROUND[t[1]]
    if t[1] in typevars:
      tv = typevars[t[1]]
      if len(tv) == 1:          # unconstrained, unbounded
        return GROUND["int"]
      raise Skip("constrained or bounded TypeVar parameter")
    if stub is not None and ref is not None and t[1] in stub.classes and depth < 2:
      return construct(stub, t[1], ref, depth + 1), t
    raise Skip("parameter of type " + t[1])
  if t[0] == "u":
    for m in t[1]:
      try:
        return ground_arg(m, typevars, stub, ref, depth)
      except Skip:
        continue
    raise Skip("no member of the union is ground-constructible")
  if t[0] == "g" and t[1] in ("list", "set", "frozenset") and len(t[2]) == 1:
    src, ty = ground_arg(t[2][0], typevars, stub, ref, depth)
    if t[2][0][0] == "n" and t[2][0][1] in typevars:
      raise Skip("TypeVar inside a container")
    mk = {"list": f"[{src}]", "set": "{" + src + "}", "frozenset": f"frozenset([{src}])"}[t[1]]
    return mk, ("g", t[1], (ty,))
  raise Skip("parameter of type " + show(t))


def call_args(stub, fn, drop_first, ref=None, depth=0):
  """Source text of ground arguments satisfying the required parameters of `fn`.

  Returns (args_text, {typevar: bound type}) or raises Skip.
  """
  sig = stub.signature(fn)
  params = list(sig["params"])
  if drop_first:
    if not params or params[0][0] not in ("pos", "posonly"):
      raise Skip("method without a positional self")
    params = params[1:]
  args = []
  binding = {}
  for kind, name, t, has_default in params:
    if kind in ("var", "kw") or has_default:
      continue
    src, ty = ground_arg(t, stub.typevars, stub, ref, depth)
    if t is not None and t[0] == "n" and t[1] in stub.typevars:
      if t[1] in binding and binding[t[1]] != ty:
        raise Skip("TypeVar bound twice")
      binding[t[1]] = ty
    args.append(src if kind != "kwonly" else f"{name}={src}")
  return ", ".join(args), binding


def result_type(stub, fn, binding, self_type=None, self_tv=None):
  """Expected type of a call result, or Skip."""
  sig = stub.signature(fn)
  if sig["async"]:
    raise Skip("async function")
  ret = sig["ret"]
  if ret is None:
    raise Skip("no return annotation")
  used = names_in(ret) & set(stub.typevars)
  if not used:
    return ret
  if ret[0] == "n":
    if self_tv is not None and ret[1] == self_tv:
      return self_type
    if ret[1] in binding:
      return binding[ret[1]]
  raise Skip("return type mentions a TypeVar that is not trivially bound")


def element_probe(t):
  """(subscript source, element type) for reading one element of a container-typed value."""
  if t is None or t[0] != "g":
    raise Skip("not a container")
  if "nothing" in names_in(t):
    raise Skip("empty container type")
  h, a = t[1], t[2]
  if h in ("list", "collections.deque") and len(a) == 1:
    return "[0]", a[0]
  if h in ("dict", "collections.defaultdict", "collections.OrderedDict") and len(a) == 2 and a[0] in (("n", "str"), ("n", "int")):
    return ("['k']" if a[0] == ("n", "str") else "[0]"), a[1]
  if h == "tuple" and a and all(x != ("e",) for x in a):
    return f"[{len(a) - 1}]", a[-1]
  raise Skip("container shape not probed")
