"""C05 oracle: a stub pytype emits is valid and a fixed point of parse∘print.

check_text(text, emitted=True, unit=None) judges one stub text:

  parse        parser.parse_string(text) must not raise (called exactly like
               parser.canonical_pyi calls it: no module name, PyiOptions of the run)
  verify       visitors.VerifyVisitor accepts the re-read AST
  fixpoint0    t1 = Print(parse(text)) must equal text            (emitted dialect)
  fixpoint1    Print(parse(t1)) == t1                              (always)
  asteq        ASTeq(parse(text), parse(t1)) and ASTeq(parse(t1), parse(Print(parse(t1))))
  canonical    canonical_pyi(canonical_pyi(text)) == canonical_pyi(text)
  structure    when the printed AST `unit` is known: an independent structural
               summary (own renderer, no pytype printer involved) of `unit` equals
               the summary of parse(text) -- catches information both directions
               drop consistently (a default, a `*`, bytes printed as str ...)

Every violation gets a MECHANISM key (never a seed): dedicated classifiers for
the mechanisms met so far, else a masked token diff of the first differing line.

install_monitor() wraps pytd_utils.Print: whenever any driver prints a
TypeDeclUnit, the text is judged as above (re-entrancy guarded, record-and-return,
never raises into pytype).  Records go to VIOLATIONS / COUNTERS.
"""
from __future__ import annotations

import ast as pyast
import collections
import difflib
import re
import threading

VIOLATIONS: list[dict] = []          # filled by the monitor
COUNTERS = collections.Counter()     # monitor counters
_state = threading.local()
_installed = {}

PYVER = (3, 12)


def pyi_options(pyver=PYVER):
  from pytype.pyi import parser
  return parser.PyiOptions(python_version=tuple(pyver))


# ---------------------------------------------------------------------------
# mechanism keys

_KEEP = {
    "def", "class", "import", "from", "as", "Optional", "Union", "Callable", "Literal", "Any",
    "tuple", "list", "dict", "set", "frozenset", "type", "Never", "Generic", "Protocol", "TypeVar",
    "NamedTuple", "TypedDict", "Annotated", "Final", "ClassVar", "overload", "property",
    "staticmethod", "classmethod", "abstractmethod", "final", "nothing", "None", "True", "False",
    "typing", "builtins", "self", "cls", "bound", "metaclass", "total", "ParamSpec", "Concatenate",
    "Required", "NotRequired", "raise", "__slots__", "coroutine", "object", "int", "str", "float",
    "bytes", "bool", "complex", "enum", "collections", "abc"}
_TOK = re.compile(r"""\s+|[bBrRuU]{0,2}'(?:\\.|[^'\\])*'|[bBrRuU]{0,2}"(?:\\.|[^"\\])*"|\d+|\w+|->|\.\.\.|.""",
                  re.S)


def _mask(line: str) -> list[str]:
  out = []
  for m in _TOK.finditer(line):
    t = m.group(0)
    if t.isspace():
      continue
    if t[0] in "'\"" or (len(t) > 1 and t[-1] in "'\"" and not t[0].isdigit()):
      out.append("b'S'" if t.lstrip("rRuU")[:1] in "bB" else "'S'")
    elif t.isdigit():
      out.append("0")
    elif re.fullmatch(r"\w+", t):
      out.append(t if t in _KEEP else "N")
    else:
      out.append(t)
  return out


def token_diff(a: str, b: str) -> str:
  """Masked minimal differing region of two lines, with one token of context."""
  ta, tb = _mask(a), _mask(b)
  i = 0
  while i < len(ta) and i < len(tb) and ta[i] == tb[i]:
    i += 1
  j = 0
  while j < len(ta) - i and j < len(tb) - i and ta[-1 - j] == tb[-1 - j]:
    j += 1
  left = ta[max(0, i - 2):i]
  right = ta[len(ta) - j:len(ta) - j + 2] if j else []
  mid_a = ta[i:len(ta) - j]
  mid_b = tb[i:len(tb) - j]
  if not mid_a and not mid_b:
    # identical after masking: a string/bytes literal or a masked name changed
    ra = [m.group(0) for m in _TOK.finditer(a) if not m.group(0).isspace()]
    rb = [m.group(0) for m in _TOK.finditer(b) if not m.group(0).isspace()]
    for x, y in zip(ra, rb):
      if x != y:
        if x[:1] in "'\"bBrRuU" and (x[-1:] in "'\"") and y[-1:] in "'\"":
          return ("string literal spelled differently (prefix/quotes/escapes/content): " +
                  ("bytes" if x.lstrip("rRuU")[:1] in "bB" else "str") + " => " +
                  ("bytes" if y.lstrip("rRuU")[:1] in "bB" else "str"))
        return "a name or number changes, shape is the same"
    return "same tokens"

  def sq(ts):
    out = []
    for t in ts:        # collapse N , N , N
      if len(out) >= 2 and out[-1] == "," and out[-2] == t:
        continue
      out.append(t)
    return " ".join(out[:14])

  del right   # right-hand context only multiplies keys for one mechanism
  return f"{sq(left)} «{sq(mid_a)}» => «{sq(mid_b)}»".strip()


def first_line_diff(t: str, t1: str):
  a, b = t.splitlines(), t1.splitlines()
  sm = difflib.SequenceMatcher(a=a, b=b, autojunk=False)
  for tag, i1, i2, j1, j2 in sm.get_opcodes():
    if tag != "equal":
      return tag, a[i1:i2], b[j1:j2]
  return None, [], []


def classify_nonfixpoint(t: str, t1: str) -> str:
  """Mechanism key for Print(parse(t)) != t."""
  a, b = t.splitlines(), t1.splitlines()
  removed = [l for l in difflib.ndiff(a, b) if l.startswith("- ")]
  added = [l for l in difflib.ndiff(a, b) if l.startswith("+ ")]
  rem = "\n".join(l[2:] for l in removed)
  add = "\n".join(l[2:] for l in added)
  if re.search(r"^import (\w+) as _\1$", add, re.M):
    return ("module alias prefix: 'import X as Y' + reference 'Y.name' is re-printed as "
            "'import Y as _Y' + '_Y.name'")
  if "= TypedDict('" in rem and "typeddict_" in add:
    return ("functional TypedDict (non-identifier key) is re-read under the generated name "
            "typeddict_<name>_0")
  if "Callable[[nothing" in rem or re.search(r"Callable\[\[[^\]]*\bnothing\b", rem):
    if "nothing" not in add or add.count("nothing") < rem.count("nothing"):
      return "Callable[[nothing], R]: a 'nothing' argument is dropped on re-read"
  # Literal[True, 1] -> Literal[True]
  for la, lb in zip(removed, added):
    la, lb = la[2:], lb[2:]
    ma = re.findall(r"Literal\[([^\[\]]*)\]", la)
    mb = re.findall(r"Literal\[([^\[\]]*)\]", lb)
    for xa, xb in zip(ma, mb):
      sa, sb = [x.strip() for x in xa.split(",")], [x.strip() for x in xb.split(",")]
      lost = [x for x in sa if x not in sb]
      if lost and set(lost) <= {"0", "1", "True", "False"} and (
          {"True", "1"} <= set(sa) or {"False", "0"} <= set(sa)):
        return "Literal[True, 1] / Literal[False, 0]: bool and int literals of equal value collapse on re-read"
  # prefix switched between two aliases of the same module
  mods = collections.defaultdict(set)
  for m in re.finditer(r"^import ([\w.]+)(?: as (\w+))?$", t, re.M):
    mods[m.group(1)].add(m.group(2) or m.group(1))
  if any(len(v) > 1 for v in mods.values()) and removed and added:
    for la, lb in zip(removed, added):
      for names in mods.values():
        if len(names) > 1:
          pat = r"\b(" + "|".join(map(re.escape, sorted(names))) + r")\."
          if re.sub(pat, "M.", la[2:]) == re.sub(pat, "M.", lb[2:]):
            return ("two import aliases of one module: the reference prefix switches to the "
                    "other alias on re-read")
  changed = [l[2:] for l in removed + added]
  if changed and all(re.fullmatch(r"from typing import .*|import typing", l) for l in changed):
    typing_names = ("Any|Optional|Union|Callable|Literal|Generic|Type|List|Dict|Tuple|Final|"
                    "ClassVar|Annotated|Never|Protocol|TypeVar|NamedTuple|overload|final")
    if re.search(rf"^[ ]+(?:(?:{typing_names})\s*:|def (?:{typing_names})\()", t, re.M):
      return ("typing import bookkeeping: a class member named like a typing member (e.g. "
              "'Any') makes the 'from typing import' list / 'import typing' line change on re-read")
    return "typing import lines differ on re-read: " + token_diff(
        (removed or ["- "])[0][2:], (added or ["+ "])[0][2:])
  _, xa, xb = first_line_diff(t, t1)
  if xa and xb:
    return "line re-printed differently: " + token_diff(xa[0], xb[0])
  if xa:
    return "line lost on re-read: " + " ".join(_mask(xa[0])[:16])
  if xb:
    return "line appears on re-read: " + " ".join(_mask(xb[0])[:16])
  return "texts differ only in line ends"


def duplicate_members(text: str):
  """(kind, name, 'class'|'module') of the first name declared twice in one block, else None.
  Purely textual: `def n(` lines not decorated with @overload, and `n: T` lines."""
  stack = [(-1, "module", {})]            # (indent of the header, kind, {(kind, name)})
  decorators = []
  for line in text.splitlines():
    if not line.strip():
      decorators = []
      continue
    ind = len(line) - len(line.lstrip(" "))
    body = line.strip()
    while len(stack) > 1 and ind <= stack[-1][0]:
      stack.pop()
    if body.startswith("@"):
      decorators.append(body)
      continue
    m = re.match(r"class\s+([\w.]+)", body)
    if m:
      stack.append((ind, "class", {}))
      decorators = []
      continue
    seen = stack[-1][2]
    m = re.match(r"def\s+(\w+)\s*\(", body)
    if m:
      if not any(d.lstrip("@").split(".")[-1] == "overload" for d in decorators):
        key = ("method" if stack[-1][1] == "class" else "function", m.group(1))
        if key in seen:
          return key[0], key[1], stack[-1][1]
        seen[key] = True
      decorators = []
      # a function body (mutations / raises) is deeper; skip it by treating it as a block
      if not body.endswith("..."):
        stack.append((ind, "def", {}))
      continue
    decorators = []
    if stack[-1][1] == "def":
      continue
    m = re.match(r"(\w+)\s*:\s*\S", body)
    if m:
      key = ("attribute" if stack[-1][1] == "class" else "constant", m.group(1))
      if key in seen:
        return key[0], key[1], stack[-1][1]
      seen[key] = True
  return None


def classify_exception(stage: str, e: BaseException) -> str:
  msg = str(e)
  m = re.search(r"(Duplicate attribute name\(s\) in module): (\w+)", msg)
  if m and m.group(2) in ("typing", "builtins", "collections", "enum", "abc"):
    return (f"{stage}: a module-level name equal to a module the printer imports "
            f"('import M' next to 'M: T') -> Duplicate attribute name(s) in module")
  last = [l for l in msg.strip().splitlines() if l.strip()][-1:] or [""]
  core = last[0]
  core = re.sub(r"^\w*Error: ", "", core)
  core = re.sub(r"\(.*\)", "(...)", core)      # drop ast dumps / argument lists
  masked = " ".join(_mask(core))[:120]
  return f"{stage}: {type(e).__name__}: {masked}"


# ---------------------------------------------------------------------------
# independent structural summary


class NotJudged(Exception):
  pass


def _lit_value(v):
  from pytype.pytd import pytd
  if isinstance(v, pytd.Constant):
    n = v.name
    return "c:" + n.removeprefix("builtins.")
  if isinstance(v, bool):
    return "c:" + str(v)
  if isinstance(v, int):
    return "i:" + repr(v)
  if isinstance(v, str):
    try:
      pv = pyast.literal_eval(v)
    except (ValueError, SyntaxError):
      return "r:" + v
    if isinstance(pv, bytes):
      return "b:" + repr(pv)
    if isinstance(pv, str):
      return "s:" + repr(pv)
    if isinstance(pv, bool):
      return "c:" + str(pv)
    if isinstance(pv, int):
      return "i:" + repr(pv)   # output.py LITERAL mode stores repr(int)
    return "r:" + v
  if isinstance(v, pytd.Type):
    return "t:" + "?"
  return "r:" + repr(v)


class Summarizer:
  """Renders a TypeDeclUnit to plain data, normalising only what print/parse are
  documented to normalise (builtins. prefix, module prefix, self/cls abbreviation,
  union order, PEP 484 numeric-tower shortening in parameters, `__new__` kind,
  `object` as sole base)."""

  def __init__(self, unit):
    self.prefix = unit.name + "." if unit.name else ""
    self.unit = unit

  def nm(self, n: str) -> str:
    if self.prefix and n.startswith(self.prefix):
      n = n[len(self.prefix):]
    if n.startswith("builtins."):
      n = n[len("builtins."):]
    if n == "NoneType":
      n = "None"
    if n in ("typing.Never", "typing.NoReturn"):
      n = "<nothing>"        # printer: "a prettier alias for nothing"
    return n

  def t(self, t, in_param=False) -> str:
    from pytype.pytd import pytd
    if t is None:
      return "<none>"
    if isinstance(t, pytd.AnythingType):
      return "<Any>"         # not "Any": an unresolved NamedType('Any') must not look the same
    if isinstance(t, pytd.NothingType):
      return "<nothing>"
    if isinstance(t, (pytd.NamedType, pytd.ClassType, pytd.LateType)):
      return self.nm(t.name)
    if isinstance(t, pytd.TypeParameter):
      return "~" + t.name
    if isinstance(t, (pytd.ParamSpecArgs, pytd.ParamSpecKwargs)):
      return "~" + t.name + "." + type(t).__name__
    if isinstance(t, pytd.Literal):
      return "Literal[" + _lit_value(t.value) + "]"
    if isinstance(t, pytd.Annotated):
      return ("Annotated[" + self.t(t.base_type, in_param) + "," + ",".join(t.annotations) +
              "]")
    if isinstance(t, pytd.UnionType):
      ms = {self.t(m, in_param) for m in t.type_list}
      if in_param:
        for small, big in (("int", "float"), ("int", "complex"), ("float", "complex"),
                           ("bytearray", "bytes"), ("memoryview", "bytes")):
          if small in ms and big in ms:
            ms.discard(small)
      return "|".join(sorted(ms)) if len(ms) > 1 else next(iter(ms))
    if isinstance(t, pytd.IntersectionType):
      return "&".join(sorted(self.t(m) for m in t.type_list))
    if isinstance(t, pytd.CallableType):
      return ("Callable[[" + ",".join(self.t(a, in_param) for a in t.args) + "]," +
              self.t(t.ret, in_param) + "]")
    if isinstance(t, pytd.TupleType):
      return "tuple{" + ",".join(self.t(a, in_param) for a in t.parameters) + "}"
    if isinstance(t, pytd.Concatenate):
      return "Concatenate[" + ",".join(self.t(a, in_param) for a in t.parameters) + "]"
    if isinstance(t, pytd.GenericType):
      base = self.nm(t.base_type.name)
      ps = [self.t(a, in_param) for a in t.parameters]
      if base == "tuple":
        return "tuple[" + ",".join(ps) + ",...]"
      if base == "typing.Callable" and isinstance(t.parameters[0], pytd.AnythingType):
        return "Callable[...," + ",".join(ps[1:]) + "]"
      return base + "[" + ",".join(ps) + "]"
    if isinstance(t, pytd.Module):
      return "module:" + t.module_name
    if isinstance(t, pytd.Constant):
      return "const:" + self.nm(t.name) + ":" + self.t(t.type)
    if isinstance(t, pytd.Function):
      return "function:" + self.nm(t.name)
    raise NotJudged(f"type node {type(t).__name__}")

  def star(self, p, container):
    from pytype.pytd import pytd
    if p is None:
      return None
    t = p.type
    if isinstance(t, pytd.GenericType) and self.nm(t.base_type.name) == container:
      return [p.name, self.t(t.parameters[-1], in_param=True)]
    if isinstance(t, (pytd.NamedType, pytd.ClassType)) and self.nm(t.name) == container:
      return [p.name, "<Any>"]
    if isinstance(t, pytd.AnythingType):
      return [p.name, "<Any>"]
    return [p.name, "other:" + self.t(t, in_param=True)]

  def sig(self, s, cls_names, fname, kind):
    from pytype.pytd import pytd
    params = []
    for i, p in enumerate(s.params):
      ts = self.t(p.type, in_param=True)
      if i == 0 and cls_names and kind != "staticmethod":
        bare = ts.split("[", 1)[0]
        if p.name == "self" and (ts == "<Any>" or bare in cls_names):
          ts = "SELF"
        elif p.name == "cls" and (ts == "<Any>" or (
            ts.startswith("type[") and ts[5:-1].split("[", 1)[0] in cls_names)):
          ts = "CLS"
      mt = self.t(p.mutated_type) if p.mutated_type is not None else None
      params.append([p.name, p.kind.value, bool(p.optional), ts, mt])
    ret = self.t(s.return_type)
    return {"params": params, "star": self.star(s.starargs, "tuple"),
            "starstar": self.star(s.starstarargs, "dict"), "ret": ret,
            "exc": [self.t(e) for e in s.exceptions]}

  def func(self, f, cls_names=()):
    kind = f.kind.value
    name = self.nm(f.name)
    if name == "__new__" and kind in ("method", "staticmethod"):
      kind = "staticmethod"      # the parser makes __new__ static, the printer never says so
    if name in ("__init_subclass__", "__class_getitem__") and kind in ("method", "classmethod"):
      kind = "classmethod"
    sk = "method" if name == "__new__" else kind
    return {"name": name, "kind": kind, "abstract": f.is_abstract, "final": f.is_final,
            "coroutine": f.is_coroutine,
            "decorators": [self.dec(d) for d in f.decorators],
            "sigs": [self.sig(s, cls_names, name, sk) for s in f.signatures]}

  def dec(self, d):
    return self.nm(d.type.name) if hasattr(d.type, "name") else self.t(d.type)

  def const(self, c):
    from pytype.pytd import pytd
    v = c.value
    hv = v is not None
    return [self.nm(c.name), self.t(c.type), hv]

  def klass(self, c, outer=()):
    full = self.nm(c.name)
    short = full.rsplit(".", 1)[-1]
    qual = ".".join(outer + (short,))
    names = {full, short, qual}
    bases = [self.t(b) for b in c.bases]
    if bases == ["object"]:
      bases = []
    return {"name": short, "bases": bases,
            "keywords": [[k, self.t(v)] for k, v in c.keywords],
            "decorators": [self.dec(d) for d in c.decorators],
            "slots": list(c.slots) if c.slots is not None else None,
            "constants": [self.const(x) for x in c.constants],
            "methods": [self.func(m, names) for m in c.methods],
            "classes": [self.klass(x, outer + (short,)) for x in c.classes]}

  def alias(self, a):
    return [self.nm(a.name), self.t(a.type)]

  def plain_import(self, a):
    from pytype.pytd import pytd
    # `import m`, or `import m as _m` which the printer writes when `m` is shadowed locally
    return (isinstance(a.type, pytd.Module) and
            self.nm(a.name).lstrip("_") == a.type.module_name.lstrip("_"))

  def tparam(self, tp):
    d = tp.default
    if isinstance(d, tuple):
      d = "[" + ",".join(self.t(x) for x in d) + "]"
    elif d is not None:
      d = self.t(d)
    return [type(tp).__name__, tp.name, [self.t(c) for c in tp.constraints],
            self.t(tp.bound) if tp.bound is not None else None, d]

  def summary(self):
    u = self.unit
    return {
        "constants": sorted(self.const(c) for c in u.constants),
        "type_params": sorted(self.tparam(t) for t in u.type_params),
        "aliases": sorted(self.alias(a) for a in u.aliases if not self.plain_import(a)),
        "plain_imports": sorted(a.type.module_name for a in u.aliases if self.plain_import(a)),
        "classes": sorted((self.klass(c) for c in u.classes), key=lambda d: d["name"]),
        "functions": sorted((self.func(f) for f in u.functions), key=lambda d: d["name"]),
    }


def summarize(unit):
  return Summarizer(unit).summary()


def first_struct_diff(a, b, path=""):
  """(path-without-indices, a-leaf, b-leaf) of the first difference, else None."""
  if type(a) is not type(b):
    return path, a, b
  if isinstance(a, dict):
    for k in a:
      if k not in b:
        return path + "." + k, a[k], "<missing>"
      d = first_struct_diff(a[k], b[k], path + "." + k)
      if d:
        return d
    for k in b:
      if k not in a:
        return path + "." + k, "<missing>", b[k]
    return None
  if isinstance(a, list):
    if len(a) != len(b):
      return path + ".len", len(a), len(b)
    for x, y in zip(a, b):
      d = first_struct_diff(x, y, path + "[]")
      if d:
        return d
    return None
  if a != b:
    return path, a, b
  return None


def _norm_path(path):
  """'.classes[].classes[].methods[].sigs[].params[][]' -> 'function.sigs.params'."""
  p = path.replace("[]", "")
  p = re.sub(r"^(\.classes)+\.methods", ".function", p)
  p = re.sub(r"^\.functions", ".function", p)
  p = re.sub(r"^(\.classes)+", ".class", p)
  return p.lstrip(".")


def struct_key(path, x, y, text):
  """Mechanism key of a structural difference (printed AST vs re-read AST)."""
  path = _norm_path(path)
  if isinstance(x, str) and isinstance(y, str):
    if x != y and "builtins.tuple[" in text and _same_modulo_tuple(x, y):
      return ("homogeneous tuple printed as 'builtins.tuple[X]' (no ', ...') when the name "
              "'tuple' is shadowed locally; re-read as a fixed-length tuple")
    return f"re-read declarations differ from what was printed at {path}: " + token_diff(x, y)
  return (f"re-read declarations differ from what was printed at {path}: "
          f"«{_leaf_shape(x)}» => «{_leaf_shape(y)}»")


def _same_modulo_tuple(x, y):
  strip = lambda s: s.replace(",...]", "]").replace("tuple{", "tuple[").replace("}", "]")
  return strip(x) == strip(y)


def _leaf_shape(x):
  if isinstance(x, str):
    return " ".join(_mask(x))[:80]
  return repr(x)[:80]


# ---------------------------------------------------------------------------
# the judgement


def check_text(text: str, emitted: bool = True, unit=None, pyver=PYVER, counters=None):
  """Judge one stub text.  Returns a list of violation dicts (empty = held).

  emitted=True: `text` is pytype output (io._output_ast's trailing newline and the
  '--quick' header are accepted), so text itself must be the fixed point.
  """
  prev = getattr(_state, "busy", False)
  _state.busy = True      # our own prints must not re-enter the monitor
  try:
    return _check_text(text, emitted, unit, pyver, counters)
  finally:
    _state.busy = prev


def _check_text(text, emitted, unit, pyver, counters):
  from pytype.pyi import parser
  from pytype.pytd import pytd_utils
  from pytype.pytd import visitors

  c = counters if counters is not None else collections.Counter()
  out = []
  opts = pyi_options(pyver)
  c["texts"] += 1
  t = text
  if emitted:
    if t.startswith("# (generated with --quick)\n\n"):
      t = t[len("# (generated with --quick)\n\n"):]
    if t.endswith("\n"):
      t = t[:-1]             # io._output_ast: result += "\n"

  mechanisms = set()
  tainted = []

  def v(key, stage, **kw):
    # one mechanism is reported once per text: a non-fixed-point usually shows again
    # in the second print and in canonical_pyi; those are consequences, not new facts
    mech = key.split(": ", 1)[-1] if stage in ("fixpoint0", "fixpoint1", "canonical") else key
    if mech in mechanisms:
      c["consequence_of_reported_mechanism"] += 1
      return
    if emitted and tainted and stage in ("fixpoint1", "parse1", "asteq", "canonical"):
      # the emitted text already failed to be a fixed point (reported); what happens to the
      # DERIVED text t1 afterwards is a consequence, pytype never emitted t1
      c["later_stage_after_reported_nonfixpoint"] += 1
      return
    mechanisms.add(mech)
    d = {"key": key, "stage": stage, "text": text}
    d.update(kw)
    out.append(d)

  # a declaration block must not declare one name twice (VerifyVisitor compares name SETS
  # per category and does not see it; the parser silently merges / keeps the last one)
  c["duplicate_member_scan"] += 1
  dup = duplicate_members(t)
  if dup:
    kind, name, where = dup
    v(f"emitted stub declares one {kind} name twice in a {where} body (no @overload)", "dupmember",
      member=name)
  # parse
  try:
    a0 = parser.parse_string(t, options=opts)
  except Exception as e:  # pylint: disable=broad-except
    c["parse_failed"] += 1
    v(classify_exception("emitted stub does not parse", e), "parse", error=str(e)[-800:])
    return out
  c["parsed"] += 1
  # verify
  try:
    a0.Visit(visitors.VerifyVisitor())
    c["verified"] += 1
  except Exception as e:  # pylint: disable=broad-except
    v(classify_exception("VerifyVisitor rejects the re-read stub", e), "verify", error=str(e)[-800:])
  # first print
  try:
    t1 = pytd_utils.Print(a0)
  except Exception as e:  # pylint: disable=broad-except
    v(classify_exception("printer fails on the re-read stub", e), "print", error=str(e)[-800:])
    return out
  fix0 = t1 == t
  c["fixpoint0_checked"] += 1
  if not fix0:
    c["fixpoint0_failed"] += 1
    if emitted:
      v("not a fixed point of parse-print: " + classify_nonfixpoint(t, t1), "fixpoint0",
        reprinted=t1)
      tainted.append(True)
  # second round
  # NOTE: printing an AST fills the `_name2item` lookup caches of its classes and
  # msgspec's generated __eq__ compares that field, so an AST that has been printed
  # is != a fresh parse of the same text.  ASTeq is therefore always applied to
  # ASTs that were parsed and never printed or looked up.
  try:
    t2 = pytd_utils.Print(parser.parse_string(t1, options=opts))
    c["fixpoint1_checked"] += 1
    if t2 != t1:
      c["fixpoint1_failed"] += 1
      v("not a fixed point of parse-print: " + classify_nonfixpoint(t1, t2), "fixpoint1",
        reprinted=t1, reprinted2=t2)
    a1 = parser.parse_string(t1, options=opts)
    a2 = parser.parse_string(t2, options=opts)
    c["asteq_checked"] += 1
    if t2 == t1 and not pytd_utils.ASTeq(a1, a2):
      v("ASTeq(parse(t1), parse(Print(parse(t1)))) is false", "asteq", reprinted=t1)
    if fix0 and not pytd_utils.ASTeq(parser.parse_string(t, options=opts), a1):
      v("parse is not a function of the text (two parses of one text differ)", "asteq")
  except Exception as e:  # pylint: disable=broad-except
    v(classify_exception("re-printed stub does not parse", e), "parse1", reprinted=t1,
      error=str(e)[-800:])
  # canonical_pyi idempotent
  try:
    c1 = parser.canonical_pyi(t, options=opts)
    c2 = parser.canonical_pyi(c1, options=opts)
    c["canonical_checked"] += 1
    if c1 != c2:
      c["canonical_failed"] += 1
      v("not a fixed point of parse-print: " + classify_nonfixpoint(c1, c2), "canonical",
        canonical1=c1, canonical2=c2)
  except Exception as e:  # pylint: disable=broad-except
    v(classify_exception("canonical_pyi raises", e), "canonical", error=str(e)[-800:])
  # structure
  if unit is not None and fix0:
    try:
      su = summarize(unit)
      sp = summarize(a0)
      # `import m` lines the printer adds for referenced modules come back as
      # Alias(m, Module(m)): the re-read set may only grow, by plain imports.
      pu, pp = su.pop("plain_imports"), sp.pop("plain_imports")
      if not set(pu) <= set(pp):
        su["plain_imports_lost"] = sorted(set(pu) - set(pp))
      c["structure_checked"] += 1
      d = first_struct_diff(su, sp)
      if d:
        c["structure_failed"] += 1
        path, x, y = d
        v(struct_key(path, x, y, t), "structure", path=path, printed=x, reread=y)
    except NotJudged as e:
      c["structure_not_judged"] += 1
      c["structure_not_judged:" + str(e)] += 1
  elif unit is not None:
    c["structure_skipped_nonfixpoint"] += 1
  return out


# ---------------------------------------------------------------------------
# Layer A monitor


def install_monitor(pyver=PYVER):
  """Wraps pytd_utils.Print; safe to call more than once."""
  from pytype.pytd import pytd
  from pytype.pytd import pytd_utils
  if _installed.get("print"):
    return
  real = pytd_utils.Print

  def Print(ast, multiline_args=False):  # pylint: disable=invalid-name
    text = real(ast, multiline_args)
    try:
      if (isinstance(ast, pytd.TypeDeclUnit) and not multiline_args and
          not getattr(_state, "busy", False)):
        _state.busy = True
        try:
          COUNTERS["print_calls_on_units"] += 1
          if "~" in text or "`" in text:
            COUNTERS["not_judged_partial_ast"] += 1   # solver-internal ASTs (~unknown)
          else:
            vs = check_text(text, emitted=True, unit=ast, pyver=pyver, counters=COUNTERS)
            COUNTERS["evaluations"] += 1
            for w in vs:
              w["via"] = "monitor"
              VIOLATIONS.append(w)
        finally:
          _state.busy = False
    except BaseException as e:  # pylint: disable=broad-except
      COUNTERS["monitor_errors"] += 1
      COUNTERS["monitor_error:" + type(e).__name__] += 1
      _state.busy = False
    return text

  Print.__wrapped__ = real
  pytd_utils.Print = Print
  _installed["print"] = real


def uninstall_monitor():
  from pytype.pytd import pytd_utils
  real = _installed.pop("print", None)
  if real:
    pytd_utils.Print = real


def drain():
  """Returns and clears the monitor's records."""
  vs = list(VIOLATIONS)
  del VIOLATIONS[:]
  return vs
