"""Three-valued structural membership oracle over REAL run-time values.

    member(value, annotation) -> True | False | None

`annotation` is a real `typing` object (the generated annotation text eval'd
with the generated classes in scope).  PEP 484 rules: nominal subclassing,
int -> float -> complex promotion, Optional/Union, homogeneous and fixed-length
tuples, read-only views are covariant, protocols are structural on the *type*
of the value, Type[C], Any/object accept everything.

None ("undecided") is returned whenever the answer depends on something a
value inspection cannot settle: callable signatures, the element type of an
iterator (it would have to be consumed), `str` against `Sequence[str]`-like
types (PEP 484 says yes, many checkers deliberately say no), bytearray against
`bytes` (PEP 484 promotion, withdrawn by PEP 688), numeric promotion under
Type[...].  Undecided never becomes a verdict.

`why(value, annotation)` returns the innermost (annotation, value) sub-pair
that makes a non-member a non-member; C02 uses it to key a disagreement by its
cause rather than by the constructors wrapped around it.

Independent of pytype: only `typing`, `collections.abc` and the value.
"""
from __future__ import annotations

import collections.abc as cabc
import types
import typing

TOP = (typing.Any, object)


def and3(vals):
  """Three-valued conjunction."""
  res = True
  for v in vals:
    if v is False:
      return False
    if v is None:
      res = None
  return res


def or3(vals):
  res = False
  for v in vals:
    if v is True:
      return True
    if v is None:
      res = None
  return res


def _is_top(t):
  return t is typing.Any or t is object


def _elements(value):
  """Elements of a re-iterable builtin container, else None (cannot inspect)."""
  if isinstance(value, (list, tuple, set, frozenset, range, bytes, bytearray, str)):
    return list(value)
  if isinstance(value, dict):
    return list(value.keys())
  return None


def _all_members(elems, t):
  if _is_top(t):
    return True
  if elems is None:
    return None
  return and3(member(e, t) for e in elems)


def _str_like(value):
  return isinstance(value, str)


def member(value, ann):
  # ---- leaves ------------------------------------------------------------
  if ann is typing.Any or ann is object:
    return True
  if ann is None or ann is type(None):
    return value is None
  if ann is bool:
    return isinstance(value, bool)
  if ann is int:
    return isinstance(value, int)
  if ann is float:
    return isinstance(value, (float, int))
  if ann is complex:
    return isinstance(value, (complex, float, int))
  if ann is str:
    return isinstance(value, str)
  if ann is bytes:
    if isinstance(value, bytes):
      return True
    if isinstance(value, (bytearray, memoryview)):
      return None          # PEP 484 promotion vs PEP 688
    return False
  if ann in (list, dict, tuple, set, frozenset, type):
    return isinstance(value, ann)
  origin = typing.get_origin(ann)
  args = typing.get_args(ann)
  # ---- protocols without parameters --------------------------------------
  if ann is typing.Hashable or ann is cabc.Hashable:
    return getattr(type(value), "__hash__", None) is not None
  if ann is typing.Sized or ann is cabc.Sized:
    return hasattr(type(value), "__len__")
  if ann is typing.SupportsInt:
    return hasattr(type(value), "__int__")
  if ann is typing.SupportsAbs or origin is typing.SupportsAbs:
    if not hasattr(type(value), "__abs__"):
      return False
    if not args or _is_top(args[0]):
      return True
    return None            # would need the return type of __abs__
  # ---- unions -------------------------------------------------------------
  if origin is typing.Union or origin is getattr(types, "UnionType", ()):
    return or3(member(value, a) for a in args)
  # ---- nominal classes ----------------------------------------------------
  if isinstance(ann, type) and origin is None:
    return isinstance(value, ann)
  # ---- concrete generic containers ---------------------------------------
  if origin in (list, set, frozenset):
    if not isinstance(value, origin):
      return False
    return _all_members(list(value), args[0]) if args else True
  if origin is dict:
    if not isinstance(value, dict):
      return False
    if not args:
      return True
    return and3([_all_members(list(value.keys()), args[0]),
                 _all_members(list(value.values()), args[1])])
  if origin is tuple:
    if not isinstance(value, tuple):
      return False
    if args == ((),) or args == ():
      # Tuple[()] ; bare Tuple has no args *and* ann is typing.Tuple (handled below)
      if ann is typing.Tuple:
        return True
      return len(value) == 0
    if len(args) == 2 and args[1] is Ellipsis:
      return _all_members(list(value), args[0])
    if len(value) != len(args):
      return False
    return and3(member(v, a) for v, a in zip(value, args))
  if origin is type:
    if not isinstance(value, type):
      return False
    if not args:
      return True
    return _member_type(value, args[0])
  # ---- abstract containers -------------------------------------------------
  if origin in (cabc.Sequence, cabc.Iterable, cabc.Collection, cabc.Iterator):
    if not isinstance(value, origin):
      return False
    if not args or _is_top(args[0]):
      return True
    if _str_like(value):
      # str is a Sequence[str]; its elements are str, so it is certainly not a
      # Sequence[int].  Against a parameter that admits str: undecided.
      em = member("a", args[0])
      return False if em is False else None
    if origin is cabc.Iterator or _elements(value) is None:
      return None          # consuming an iterator is not an inspection
    return _all_members(_elements(value), args[0])
  if origin is cabc.Mapping:
    if not isinstance(value, cabc.Mapping):
      return False
    if not args:
      return True
    if not isinstance(value, dict):
      return None
    return and3([_all_members(list(value.keys()), args[0]),
                 _all_members(list(value.values()), args[1])])
  if origin is cabc.Callable:
    if not callable(value):
      return False
    if not args:
      return True
    params, ret = args[0], args[-1]
    if params is Ellipsis and _is_top(ret):
      return True
    return None            # signatures are not decided structurally
  return None              # unknown form: never judged


def _member_type(cls, t):
  """cls (a class object) against the parameter of Type[t]."""
  if _is_top(t):
    return True
  if typing.get_origin(t) is typing.Union:
    return or3(_member_type(cls, a) for a in typing.get_args(t))
  if t is None or t is type(None):
    return cls is type(None)
  if isinstance(t, type) and typing.get_origin(t) is None:
    if issubclass(cls, t):
      return True
    if t in (float, complex) and issubclass(cls, (int, float)):
      return None          # does promotion apply under Type[...]?  unspecified
    return False
  return None


# ---------------------------------------------------------------------------


def parts(value, ann):
  """One-level decomposition of (value, ann) into [(sub_value, sub_annotation)].

  Only when the value has the outer shape the constructor asks for (right
  container class, right tuple length) and its elements can be inspected
  without consuming anything; otherwise [].  member(value, ann) is the
  conjunction of the parts (disjunction for a Union).
  """
  origin = typing.get_origin(ann)
  args = typing.get_args(ann)
  if origin is typing.Union:
    return [(value, a) for a in args]
  if not args:
    return []
  if origin in (list, set, frozenset) and isinstance(value, origin):
    return [(e, args[0]) for e in value]
  if origin is dict and isinstance(value, dict):
    return [(k, args[0]) for k in value.keys()] + [(v, args[1]) for v in value.values()]
  if origin is tuple and isinstance(value, tuple) and args != ((),):
    if len(args) == 2 and args[1] is Ellipsis:
      return [(e, args[0]) for e in value]
    if len(args) == len(value):
      return list(zip(value, args))
    return []
  if origin in (cabc.Sequence, cabc.Iterable, cabc.Collection) and isinstance(value, origin) \
      and not isinstance(value, str) and _elements(value) is not None:
    return [(e, args[0]) for e in _elements(value)]
  if origin is cabc.Mapping and isinstance(value, dict):
    return [(k, args[0]) for k in value.keys()] + [(v, args[1]) for v in value.values()]
  return []


def why(value, ann):
  """Innermost sub-pairs explaining member(value, ann) is False.

  Returns a list of (path, sub_annotation, sub_value) with `path` a tuple of
  constructor names walked through.  Only descends through constructors whose
  own shape test passed (right container type, right length).  For a union
  every branch is a cause.  An empty path means "the pair itself".
  """
  out = []
  _why(value, ann, (), out)
  return out


def _why(value, ann, path, out):
  if member(value, ann) is not False:
    return
  origin = typing.get_origin(ann)
  args = typing.get_args(ann)

  def into(name, pairs):
    n = len(out)
    for v, a in pairs:
      _why(v, a, path + (name,), out)
    if len(out) == n:       # no failing sub-pair found: blame this level
      out.append((path, ann, value))

  if origin is typing.Union:
    into("Union", [(value, a) for a in args])
    return
  if origin in (list, set, frozenset) and isinstance(value, origin) and args:
    into(origin.__name__, [(e, args[0]) for e in value])
    return
  if origin is dict and isinstance(value, dict) and args:
    into("dict", [(k, args[0]) for k in value.keys()] + [(v, args[1]) for v in value.values()])
    return
  if origin is tuple and isinstance(value, tuple) and args and args != ((),):
    if len(args) == 2 and args[1] is Ellipsis:
      into("tuple*", [(e, args[0]) for e in value])
      return
    if len(args) == len(value):
      into("tuple", list(zip(value, args)))
      return
  if origin in (cabc.Sequence, cabc.Iterable, cabc.Collection) and isinstance(value, origin) \
      and args and not isinstance(value, str) and _elements(value) is not None:
    into(origin.__name__, [(e, args[0]) for e in _elements(value)])
    return
  if origin is cabc.Mapping and isinstance(value, dict) and args:
    into("Mapping", [(k, args[0]) for k in value.keys()] + [(v, args[1]) for v in value.values()])
    return
  out.append((path, ann, value))
