"""C18 oracle: truth tables for rewrite/flow conditions and a shadow denotational
model of Variable / BlockState.

Independent of the code under test: the evaluator only reads data attributes of
real condition objects (`_Not.condition`, `_Composite.conditions`), the model
only uses int bitmasks.  A valuation of the three atoms P, Q, R is a number
k in 0..7 (bit i = truth of atom i); a truth table is an 8-bit mask.
"""
from __future__ import annotations

import dataclasses

from pytype.rewrite.flow import conditions as C

NATOMS = 3
NVAL = 1 << NATOMS
FULL = (1 << NVAL) - 1
ATOM_MASK = [sum(1 << k for k in range(NVAL) if k >> i & 1) for i in range(NATOMS)]
ATOM_NAMES = "PQR"


@dataclasses.dataclass(frozen=True)
class Atom(C.Condition):
  """An opaque atomic condition (like the tests' FakeCondition)."""
  index: int

  def __repr__(self):
    return ATOM_NAMES[self.index]


ATOMS = [Atom(i) for i in range(NATOMS)]


# -- expressions: ["A", i] | ["T"] | ["F"] | ["Not", e] | ["And", [e..]] | ["Or", [e..]]


def expr_tt(e):
  """Truth table of an expression by the plain connectives."""
  k = e[0]
  if k == "A":
    return ATOM_MASK[e[1]]
  if k == "T":
    return FULL
  if k == "F":
    return 0
  if k == "Not":
    return FULL & ~expr_tt(e[1])
  if k == "And":
    m = FULL
    for x in e[1]:
      m &= expr_tt(x)
    return m
  if k == "Or":
    m = 0
    for x in e[1]:
      m |= expr_tt(x)
    return m
  raise ValueError(e)


def build(e):
  """Builds the real condition through the PUBLIC constructors only."""
  k = e[0]
  if k == "A":
    return ATOMS[e[1]]
  if k == "T":
    return C.TRUE
  if k == "F":
    return C.FALSE
  if k == "Not":
    return C.Not(build(e[1]))
  if k == "And":
    return C.And(*[build(x) for x in e[1]])
  if k == "Or":
    return C.Or(*[build(x) for x in e[1]])
  raise ValueError(e)


def show(e):
  k = e[0]
  if k == "A":
    return ATOM_NAMES[e[1]]
  if k in ("T", "F"):
    return "TRUE" if k == "T" else "FALSE"
  if k == "Not":
    return f"Not({show(e[1])})"
  return f"{k}(" + ", ".join(show(x) for x in e[1]) + ")"


# -- reading real condition objects


def tt(c, memo=None):
  """Truth table of a real condition object."""
  if memo is not None:
    g = memo.get(id(c))
    if g is not None and g[0] is c:
      return g[1]
  t = type(c)
  if t is Atom:
    m = ATOM_MASK[c.index]
  elif t is C._True:  # pylint: disable=protected-access
    m = FULL
  elif t is C._False:  # pylint: disable=protected-access
    m = 0
  elif t is C._Not:  # pylint: disable=protected-access
    m = FULL & ~tt(c.condition, memo)
  elif t is C._And:  # pylint: disable=protected-access
    m = FULL
    for x in c.conditions:
      m &= tt(x, memo)
  elif t is C._Or:  # pylint: disable=protected-access
    m = 0
    for x in c.conditions:
      m |= tt(x, memo)
  else:
    raise TypeError(f"not a condition: {c!r}")
  if memo is not None:
    memo[id(c)] = (c, m)
  return m


def key(c):
  """Canonical (hash-seed independent) structure of a real condition."""
  t = type(c)
  if t is Atom:
    return ("A", c.index)
  if t is C._True:  # pylint: disable=protected-access
    return ("T",)
  if t is C._False:  # pylint: disable=protected-access
    return ("F",)
  if t is C._Not:  # pylint: disable=protected-access
    return ("!", key(c.condition))
  if t is C._And or t is C._Or:  # pylint: disable=protected-access
    return ("&" if t is C._And else "|",) + tuple(sorted((key(x) for x in c.conditions), key=repr))  # pylint: disable=protected-access
  raise TypeError(f"not a condition: {c!r}")


def malformed(c):
  """Design's structural promise: no TRUE/FALSE as a member of a composite."""
  t = type(c)
  if t is C._And or t is C._Or:  # pylint: disable=protected-access
    for x in c.conditions:
      if type(x) is C._True or type(x) is C._False:  # pylint: disable=protected-access,unidiomatic-typecheck
        return f"{t.__name__} has {x!r} as a member"
      r = malformed(x)
      if r:
        return r
  elif t is C._Not:  # pylint: disable=protected-access
    return malformed(c.condition)
  return None


# -- denotations of real variables / states


def den_variable(var, memo=None):
  """{value: mask of valuations under which some binding with that value applies}."""
  out = {}
  for b in var.bindings:
    out[b.value] = out.get(b.value, 0) | tt(b.condition, memo)
  return out


def den_state(s, memo=None):
  """den(S)(sigma)(n) = {b.value | sigma |= b.condition and (n in
  S._locals_with_block_condition => sigma |= S._condition)}, as {n: {value: mask}}.
  Entries with an empty mask are dropped (a name that can have no value under any
  valuation is the same as an absent name)."""
  # pylint: disable=protected-access
  cond = tt(s._condition, memo)
  out = {}
  for n, var in s._locals.items():
    guard = cond if n in s._locals_with_block_condition else FULL
    d = {}
    for b in var.bindings:
      m = tt(b.condition, memo) & guard
      if m:
        d[b.value] = d.get(b.value, 0) | m
    if d:
      out[n] = d
  return out


def state_key(s):
  """Complete canonical structure of a real state (its future behaviour depends
  on nothing else): locals with binding order and names, condition, block-condition set."""
  # pylint: disable=protected-access
  locs = tuple(sorted(
      (n, var.name, tuple((b.value, key(b.condition)) for b in var.bindings))
      for n, var in s._locals.items()))
  return (locs, key(s._condition), tuple(sorted(s._locals_with_block_condition)))


# -- the model


class Model:
  """cond: mask of valuations under which the block runs; vals: {name: {value: mask}}."""

  __slots__ = ("cond", "vals")

  def __init__(self, cond, vals):
    self.cond = cond
    self.vals = vals

  @classmethod
  def new(cls, init):
    return cls(FULL, {n: {v: FULL} for n, v in init.items()})

  def copy(self):
    return Model(self.cond, {n: dict(d) for n, d in self.vals.items()})

  def store_value(self, n, v):
    m = self.copy()
    m.vals[n] = {v: self.cond}
    return m

  def store_copy(self, n, src):
    m = self.copy()
    m.vals[n] = dict(self.vals.get(src, {}))
    return m

  def with_condition(self, cmask):
    return Model(self.cond & cmask,
                 {n: {v: x & cmask for v, x in d.items()} for n, d in self.vals.items()})

  def merge(self, other):
    vals = {n: dict(d) for n, d in self.vals.items()}
    for n, d in other.vals.items():
      t = vals.setdefault(n, {})
      for v, x in d.items():
        t[v] = t.get(v, 0) | x
    return Model(self.cond | other.cond, vals)

  def den(self):
    out = {}
    for n, d in self.vals.items():
      dd = {v: x for v, x in d.items() if x}
      if dd:
        out[n] = dd
    return out

  def differs_on(self, other):
    return self.den() != other.den()


def valuation(k):
  return {ATOM_NAMES[i]: bool(k >> i & 1) for i in range(NATOMS)}


def first_difference(d1, d2):
  """(name, value, valuation) where two denotations differ."""
  for n in sorted(set(d1) | set(d2)):
    a, b = d1.get(n, {}), d2.get(n, {})
    for v in sorted(set(a) | set(b), key=repr):
      x = a.get(v, 0) ^ b.get(v, 0)
      if x:
        k = (x & -x).bit_length() - 1
        return {"name": n, "value": v, "valuation": valuation(k),
                "real_has_value": bool(a.get(v, 0) >> k & 1), "model_has_value": bool(b.get(v, 0) >> k & 1)}
  return None
