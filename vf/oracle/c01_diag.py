"""Diagnosis of a C01 violation by observing pytype's own state and CPython's heap.

Two mechanism signatures are recognised (both observable facts, not syntax):

K_ALIAS  (CPython side)  the object that holds the unadmitted element is aliased:
         the same object (id) is reachable through another global / path whose
         declared type DOES admit the element.  pytype snapshots the type of a
         container when it is stored inside another container, so a later
         mutation through the alias is not reflected at the other path.

K_VIEW   (pytype side)   the lost value exists in the final typegraph as a binding
         of the item's variable but is invisible at the exit node, and its
         explanation chain contains a source binding that is invisible at exit
         while a sibling binding of the same variable with the same class is
         visible: the call result was attributed to one representative argument
         binding only (view de-duplication in function calls).
"""
from __future__ import annotations

K_ALIAS = ("container aliased and mutated after it was stored inside another container: "
           "the stored element type is a snapshot (same object admitted through its other name)")
K_VIEW = ("call result attributed to one representative argument binding (view de-duplication): its source set is "
          "unexplainable at its own node, but would be explained by an equivalent sibling binding of the same variable")

K_REUSE = ("value created in a sibling branch is named as a source (memoised call result / cached argument reused "
           "across call sites): a source binding has no origin backward-reachable from its dependent's origin node")
K_SITE = ("two distinct run-time objects are represented by one abstract instance (allocation-site abstraction): "
          "an attribute update through one is overwritten by the (re)initialisation of the other")

K_NOTRUN = ("value attributed to code that did not run: the lost binding's explanation depends on a source that "
            "originates only at source lines CPython never executed (view de-duplication / memoised call result / "
            "cached value from a branch not taken)")

K_OUTSIDE_ATTR = ("method/function signature is inferred independently of call sites: an attribute stored on the "
                  "instance from module level after construction is not reflected in the return type of a method that reads it")
K_PARAM_REBOUND = ("container type parameter re-bound at a later node by a direct merge (dict.update fast path): the "
                   "parameter bindings made at earlier nodes become invisible")
K_INPLACE = ("augmented assignment on a name whose possible values differ in having the in-place dunder: only the "
             "__iop__ alternative is evaluated (documented TODO in vm_utils.call_inplace_operator)")

K_COND = ("value only explainable through contradictory branch conditions: the lost binding becomes visible at exit "
          "when node conditions are ignored (its sources were attributed to bindings that are infeasible on the "
          "path that runs)")
K_REBOUND = ("variable re-bound at a later node on the way to the exit (strong update on a merged abstract object or "
             "type-parameter merge): the lost binding is overwritten according to the CFG although the value survives at run time")
K_BRANCH_ATTR = ("instance attribute assigned only in a branch that did not run shadows the class attribute on every path")
K_SELFCONFLICT = "self-conflicting source set: two bindings of one variable are required together"

K_CLOSURE = ("narrowed parameter read through a closure: a nested function/lambda reads a parameter of the enclosing "
             "function that is tested by isinstance/is None on the path; the closure sees only the narrowed binding")
K_NOTRUN_CALLEE = ("callee (or a function it calls) is also called on a source line that never executed: its body was "
                   "analysed under that call site and the memoised result is re-used (return type lacks the value)")

K_AMBIG_STORE = ("attribute store through a name that may denote several objects is applied as a strong update to all "
                 "of them: the object that was not the run-time target loses its own attribute value")

K_SUPER_RECEIVER = ("method signature is inferred with the defining class as receiver: super() in its body resolves along "
                    "the defining class's MRO, not along the MRO of the subclass instance the method is called on "
                    "(cooperative multiple inheritance)")

CAPTURE = {}
_installed = False


def install():
  """Record-and-return wrapper capturing the module-level definitions pytype computed types from."""
  global _installed
  if _installed:
    return
  from pytype import tracer_vm
  orig = tracer_vm.CallTracer.compute_types

  def compute_types(self, defs):
    CAPTURE["defs"] = defs
    CAPTURE["n"] = CAPTURE.get("n", 0) + 1
    return orig(self, defs)

  tracer_vm.CallTracer.compute_types = compute_types
  _installed = True


# ---------------------------------------------------------------------------
# CPython side: aliasing


def walk_ids(sh, path, out):
  if "id" in sh:
    out.setdefault(sh["id"], []).append(path)
  for i, e in enumerate(sh.get("e", ())):
    walk_ids(e, path + (f"[{i}]",), out)
  for i, (a, b) in enumerate(sh.get("kv", ())):
    walk_ids(a, path + (f"key{i}",), out)
    walk_ids(b, path + (f"val{i}",), out)


def alias_signature(trace, adm, consts, parent_shape, leaf_shape, min_paths=2):
  """True iff the container holding the unadmitted leaf is also reachable by another
  path from a module global whose declared type admits that container's content."""
  if not parent_shape or "id" not in parent_shape:
    return None
  ids = {}
  for name, sh in trace["globals"].items():
    walk_ids(sh, (name,), ids)
  paths = ids.get(parent_shape["id"], [])
  if len(paths) < min_paths:
    return None
  # some top-level alias whose declared type admits the whole aliased object
  for p in paths:
    if len(p) == 1 and p[0] in consts:
      if adm.admits(consts[p[0]].type, trace["globals"][p[0]]):
        return {"aliased_paths": ["".join(x) for x in paths][:6], "admitted_through": p[0]}
  return None


# ---------------------------------------------------------------------------
# pytype side: invisible binding with a feasible equivalent sibling


def _cls_name(data):
  c = getattr(data, "cls", None)
  n = getattr(c, "name", None)
  if n is None:
    n = type(data).__name__
  return str(n).split(".")[-1]


def _matches(data, shape):
  if shape.get("k") == "callable":
    n = type(data).__name__
    return "Function" in n or "Method" in n or n in ("NativeFunction", "BoundFunction", "StaticMethod", "ClassMethod")
  if shape.get("k") == "class":
    return getattr(data, "name", None) == shape.get("name") or str(getattr(data, "name", "")).endswith(
        "." + str(shape.get("name")))
  n = _cls_name(data)
  if n in shape.get("mro", ()):
    return True
  if shape.get("cls") == "NoneType" and n in ("NoneType", "None"):
    return True
  return False


def _descend(var, path_item):
  """Type-parameter variable(s) of the visible container bindings in var."""
  from pytype.abstract import abstract_utils
  out = []
  for b in var.bindings:
    d = b.data
    try:
      if path_item == "elem":
        if hasattr(d, "get_instance_type_parameter"):
          out.append(d.get_instance_type_parameter(abstract_utils.T))
      elif path_item == "key":
        out.append(d.get_instance_type_parameter(abstract_utils.K))
      elif path_item == "value":
        out.append(d.get_instance_type_parameter(abstract_utils.V))
      elif path_item.startswith("tuple["):
        i = int(path_item[6:-1])
        pv = getattr(d, "pyval", None)
        if isinstance(pv, tuple) and i < len(pv):
          out.append(pv[i])
        elif hasattr(d, "get_instance_type_parameter"):
          out.append(d.get_instance_type_parameter(abstract_utils.T))
    except Exception:  # pylint: disable=broad-except
      continue
  return out


def _node_line(node):
  parts = node.name.rsplit(":", 1)
  if len(parts) == 2 and parts[1].isdigit():
    return int(parts[1])
  return None


def _node_lines(node, depth=4):
  """Own line, or (for unlabelled nodes such as NewBlock) the lines of the first labelled descendants."""
  l = _node_line(node)
  if l is not None:
    return {l}
  out = set()
  frontier = [node]
  seen = {node.id}
  for _ in range(depth):
    nxt = []
    for x in frontier:
      for y in x.outgoing:
        if y.id in seen:
          continue
        seen.add(y.id)
        ly = _node_line(y)
        if ly is not None:
          out.add(ly)
        else:
          nxt.append(y)
    frontier = nxt
    if not frontier:
      break
  return out


def _call_site_lines(node, rng, limit=300):
  """Lines of the nodes from which the CFG enters the function body [a,b] that contains `node`."""
  a, b = rng
  seen = {node.id}
  todo = [node]
  out = set()
  while todo and len(seen) < limit:
    x = todo.pop()
    for p in x.incoming:
      if p.id in seen:
        continue
      seen.add(p.id)
      l = _node_line(p)
      if l is None or a <= l <= b:
        todo.append(p)
      else:
        out.add(l)
  return out


def notrun_signature(invisible, executed_lines, max_nodes=600, def_ranges=()):
  """A source in the explanation chain all of whose origins lie at known, never-executed lines, or
  inside a function body that the VM entered only from call sites on never-executed lines."""
  executed = set(executed_lines)

  def enclosing(line):
    best = None
    for a, b in def_ranges:
      if a <= line <= b and (best is None or (b - a) < (best[1] - best[0])):
        best = (a, b)
    return best

  seen = set()
  todo = list(invisible)
  steps = 0
  while todo and steps < max_nodes:
    b = todo.pop()
    if b.id in seen:
      continue
    seen.add(b.id)
    steps += 1
    origins = list(b.origins)
    if origins:
      lsets = [_node_lines(o.where) for o in origins]
      if all(ls and not (ls & executed) for ls in lsets):
        return {"binding": f"{b.id} {str(b.data)[:40]}", "origin_nodes": [o.where.name for o in origins][:4],
                "lines_not_executed": sorted(set().union(*lsets))}
      lines = [_node_line(o.where) for o in origins]
      if all(l is not None and enclosing(l) for l in lines):
        sites = set()
        for o, l in zip(origins, lines):
          sites |= _call_site_lines(o.where, enclosing(l))
        if sites and not (sites & executed):
          return {"binding": f"{b.id} {str(b.data)[:40]}", "origin_nodes": [o.where.name for o in origins][:4],
                  "callee_entered_only_from_unexecuted_call_sites": sorted(sites)}
    for o in origins:
      for ss in o.source_sets:
        todo.extend(ss)
  return None


def selfconflict_signature(invisible, max_nodes=600):
  seen = set()
  todo = list(invisible)
  steps = 0
  while todo and steps < max_nodes:
    b = todo.pop()
    if b.id in seen:
      continue
    seen.add(b.id)
    steps += 1
    for o in b.origins:
      for ss in o.source_sets:
        vs = [x.variable.id for x in ss]
        if len(set(vs)) != len(vs):
          return {"binding": b.id, "node": o.where.name, "source_set": sorted(x.id for x in ss)}
        todo.extend(ss)
  return None


def branch_attr_signature(tree, executed_lines):
  """An attribute store on a line that did not run, for a name that is also a class-level attribute."""
  import ast
  class_attrs = set()
  for cls in [n for n in ast.walk(tree) if isinstance(n, ast.ClassDef)]:
    for st in cls.body:
      if isinstance(st, ast.Assign):
        for t in st.targets:
          if isinstance(t, ast.Name):
            class_attrs.add(t.id)
  for n in ast.walk(tree):
    if isinstance(n, ast.Attribute) and isinstance(n.ctx, ast.Store) and n.attr in class_attrs \
        and n.lineno not in executed_lines:
      return {"attr": n.attr, "store_line_not_executed": n.lineno}
  return None


def view_signature(ctx, var, path, leaf_shape, max_nodes=400, executed_lines=None, def_ranges=()):
  """Looks for the lost value among the bindings reachable along `path`."""
  exitn = ctx.exitpoint
  # Walk the path keeping, for every variable reached, whether the chain of container bindings
  # leading to it is visible at exit; the first invisible link of a chain that leads to the lost
  # value is the binding to diagnose.
  frontier = [(var, None)]            # (variable, first invisible container binding on the way or None)
  for item in path:
    nxt = []
    for v, broken in frontier:
      for b in v.bindings:
        link = broken
        if link is None and not b.IsVisible(exitn):
          link = b
        one = type("V", (), {"bindings": [b]})()
        for sub in _descend(one, item):
          nxt.append((sub, link))
    frontier = nxt
    if not frontier:
      return {"found": False, "why": f"no variable along path at {item}"}
  cands_visible, invisible = [], []
  for v, broken in frontier:
    for b in v.bindings:
      if _matches(b.data, leaf_shape):
        if broken is not None:
          invisible.append(broken)
        elif b.IsVisible(exitn):
          cands_visible.append(b)
        else:
          invisible.append(b)
  if not cands_visible and not invisible:
    return {"found": False, "why": "no binding of the lost class exists in the item's variable"}
  if cands_visible and not invisible:
    return {"found": True, "invisible": False,
            "why": "a binding of the lost class is visible at exit (lost later, in output/optimisation)"}
  if cands_visible:
    # some alternative is visible, yet the stub lacks the class: still a loss after the solver
    pass
  seen_ids = set()
  invisible = [b for b in invisible if not (b.id in seen_ids or seen_ids.add(b.id))]
  sc = selfconflict_signature(invisible)
  if sc:
    return {"found": True, "invisible": True, "selfconflict": sc}
  if executed_lines is not None:
    nr = notrun_signature(invisible, executed_lines, def_ranges=def_ranges)
    if nr:
      return {"found": True, "invisible": True, "notrun": nr}
  # search the explanation chain: an origin whose source set cannot be explained at its own node,
  # but could be if one source were replaced by an equivalent sibling (same variable, same class)
  seen = set()
  todo = list(invisible)
  steps = 0
  while todo and steps < max_nodes:
    b = todo.pop()
    if b.id in seen:
      continue
    seen.add(b.id)
    steps += 1
    for o in b.origins:
      for ss in o.source_sets:
        ss = list(ss)
        todo.extend(ss)
        for src in ss:
          if src.origins and not any(ctx.program.is_reachable(so.where, o.where) for so in src.origins):
            return {"found": True, "invisible": True, "reuse": True,
                    "dependent": f"binding {b.id} at node {o.where.id} {o.where.name}",
                    "unreachable_source": f"binding {src.id} {str(src.data)[:40]} originating at "
                                          f"{[so.where.name for so in src.origins][:3]}"}
        if not ss or o.where.HasCombination(ss):
          continue
        for src in ss:
          for alt in _alternatives(src):
            trial = [x for x in ss if x.id != src.id] + [alt]
            if o.where.HasCombination(trial):
              return {"found": True, "invisible": True, "sibling": True,
                      "unexplainable_source_set_at_node": o.where.id,
                      "representative_used": f"binding {src.id} {str(src.data)[:40]}",
                      "equivalent_sibling_that_explains": f"binding {alt.id} {str(alt.data)[:40]}"}
  # R4: visible once node conditions are ignored?
  program = ctx.program
  conds = [(n, n.condition) for n in program.cfg_nodes if n.condition is not None]
  try:
    for n, _ in conds:
      n.condition = None
    vis_nocond = any(b.IsVisible(exitn) for b in invisible)
  finally:
    for n, c in conds:
      n.condition = c
  if vis_nocond:
    return {"found": True, "invisible": True, "cond": True, "conditional_nodes": len(conds)}
  # R5: overwritten on the way to the exit
  for b in invisible:
    for o in b.origins:
      for other in b.variable.bindings:
        if other.id == b.id:
          continue
        for oo in other.origins:
          if oo.where.id != o.where.id and program.is_reachable(o.where, oo.where) and \
              program.is_reachable(oo.where, exitn) and not any(x.where.id == oo.where.id for x in b.origins):
            return {"found": True, "invisible": True, "rebound": True,
                    "lost": f"binding {b.id} at {o.where.name}", "rebound_at": oo.where.name}
  return {"found": True, "invisible": True, "sibling": False,
          "why": "lost binding is invisible at exit; none of the recognised reasons applies"}


def _alternatives(src, depth=0):
  """Same-class sibling bindings of src, or of the binding src was copied from (single-source chains)."""
  out = []
  for sib in src.variable.bindings:
    if sib.id != src.id and _cls_name(sib.data) == _cls_name(src.data):
      out.append(sib)
  if depth < 6:
    for o in src.origins:
      for ss in o.source_sets:
        if len(ss) == 1:
          (only,) = tuple(ss)
          if _cls_name(only.data) == _cls_name(src.data):
            out.extend(_alternatives(only, depth + 1))
  return out


def site_signature(ctx, defs, trace, gname):
  """K_SITE: the abstract instance behind global `gname` is also the data of another global whose
  run-time value is a different object."""
  exitn = ctx.exitpoint
  gshape = trace["globals"].get(gname, {})
  if "id" not in gshape or gname not in defs:
    return None
  insts = [b.data for b in defs[gname].bindings if b.IsVisible(exitn)]
  for other, osh in trace["globals"].items():
    if other == gname or other not in defs or "id" not in osh or osh["id"] == gshape["id"]:
      continue
    for bb in defs[other].bindings:
      if any(bb.data is i for i in insts):
        return {"shares_abstract_instance_with": other, "distinct_runtime_objects": True}
  return None


# ---------------------------------------------------------------------------
# syntactic + run-time signatures for the remaining by-design mechanisms


def def_ranges(tree):
  import ast
  return [(n.lineno, n.end_lineno) for n in ast.walk(tree)
          if isinstance(n, (ast.FunctionDef, ast.Lambda, ast.AsyncFunctionDef))]


def outside_attr_signature(tree, executed_lines):
  """Module-level `x.attr = ...` statements that ran, for an attr that some method reads as self.attr."""
  import ast
  read = set()
  for cls in [n for n in ast.walk(tree) if isinstance(n, ast.ClassDef)]:
    for n in ast.walk(cls):
      if isinstance(n, ast.Attribute) and isinstance(n.ctx, ast.Load) and isinstance(n.value, ast.Name) \
          and n.value.id == "self":
        read.add(n.attr)
  hits = []
  for st in tree.body:
    for n in ast.walk(st) if not isinstance(st, (ast.FunctionDef, ast.ClassDef)) else ():
      if isinstance(n, ast.Attribute) and isinstance(n.ctx, ast.Store) and n.attr in read \
          and n.lineno in executed_lines:
        hits.append((n.attr, n.lineno))
  return hits


def param_rebound_signature(tree, name, executed_lines):
  """`name.update(<single positional arg>)` executed at module level (Dict.update_slot fast path)."""
  import ast
  for n in ast.walk(tree):
    if isinstance(n, ast.Call) and isinstance(n.func, ast.Attribute) and n.func.attr == "update" \
        and len(n.args) == 1 and n.lineno in executed_lines:
      return {"update_call_line": n.lineno}
  return None


def inplace_signature(tree, name, executed_lines):
  """The last executed module-level store to `name` is an augmented assignment, or a plain
  assignment whose right-hand side reads a name whose own last executed store is one (one hop)."""
  import ast

  def last_store(nm):
    last = (0, None)
    for st in ast.walk(tree):
      targets = []
      if isinstance(st, ast.Assign):
        targets = st.targets
      elif isinstance(st, (ast.AugAssign, ast.AnnAssign)):
        targets = [st.target]
      for t in targets:
        for n in ast.walk(t):
          if isinstance(n, ast.Name) and n.id == nm and st.lineno in executed_lines and st.lineno >= last[0]:
            last = (st.lineno, st)
    return last

  seen = set()
  todo = [(name, 0)]
  while todo:
    nm, depth = todo.pop()
    if nm in seen or depth > 6:
      continue
    seen.add(nm)
    line, st = last_store(nm)
    if isinstance(st, ast.AugAssign):
      return {"augassign_line": line} if nm == name else {"augassign_line": line, "through": nm}
    if isinstance(st, ast.Assign):
      for n in ast.walk(st.value):
        if isinstance(n, ast.Name):
          todo.append((n.id, depth + 1))
  return None

def closure_signature(tree, func_names):
  """Some function among `func_names` (or any, if empty) contains a nested def/lambda reading a
  parameter of the enclosing function that the enclosing function tests by isinstance / is None."""
  import ast
  for fn in ast.walk(tree):
    if not isinstance(fn, ast.FunctionDef):
      continue
    if func_names and fn.name not in func_names:
      continue
    params = {a.arg for a in fn.args.args + fn.args.kwonlyargs + fn.args.posonlyargs}
    tested = set()
    for n in ast.walk(fn):
      if isinstance(n, ast.Call) and isinstance(n.func, ast.Name) and n.func.id == "isinstance" and n.args \
          and isinstance(n.args[0], ast.Name):
        tested.add(n.args[0].id)
      if isinstance(n, ast.Compare) and isinstance(n.left, ast.Name) and any(
          isinstance(o, (ast.Is, ast.IsNot)) for o in n.ops):
        tested.add(n.left.id)
      if isinstance(n, (ast.If, ast.IfExp, ast.While)):
        # any narrowing test, including plain truthiness (`if p:` / `if not p:` / `p and ...`)
        for m in ast.walk(n.test):
          if isinstance(m, ast.Name):
            tested.add(m.id)
    for n in ast.walk(fn):
      if n is fn or not isinstance(n, (ast.Lambda, ast.FunctionDef)):
        continue
      inner = {a.arg for a in n.args.args}
      body = n.body if isinstance(n, ast.Lambda) else n
      for m in ast.walk(body):
        if isinstance(m, ast.Name) and m.id in (params & tested) and m.id not in inner:
          return {"function": fn.name, "parameter": m.id}
  return None


def called_functions(tree, name):
  """Names of module-level functions called in the (last) assignment to `name`."""
  import ast
  out = set()
  for st in tree.body:
    targets = st.targets if isinstance(st, ast.Assign) else []
    if any(isinstance(t, ast.Name) and t.id == name for t in targets):
      for c in ast.walk(st.value):
        if isinstance(c, ast.Call) and isinstance(c.func, ast.Name):
          out.add(c.func.id)
  return out


def notrun_callee_signature(tree, callee, executed_lines, called_sites=None):
  """The callee, or a module-level function it (transitively) calls, is also called at a call site that did
  not run (line never executed, or - for module-level sites - no call event observed from that line)."""
  import ast
  in_def = set()
  for d in ast.walk(tree):
    if isinstance(d, (ast.FunctionDef, ast.Lambda)):
      for x in ast.walk(d):
        if isinstance(x, ast.Call):
          in_def.add(id(x))
  funcs = {n.name: n for n in tree.body if isinstance(n, ast.FunctionDef)}
  for cls in [n for n in tree.body if isinstance(n, ast.ClassDef)]:
    for n in cls.body:
      if isinstance(n, ast.FunctionDef):
        funcs.setdefault(n.name, n)
  start = callee.split(".")[-1]
  group, todo = set(), [start]
  while todo:
    f = todo.pop()
    if f in group or f not in funcs:
      continue
    group.add(f)
    for c in ast.walk(funcs[f]):
      if isinstance(c, ast.Call):
        nm = c.func.id if isinstance(c.func, ast.Name) else (c.func.attr if isinstance(c.func, ast.Attribute) else None)
        if nm:
          todo.append(nm)
  for c in ast.walk(tree):
    if isinstance(c, ast.Call):
      nm = c.func.id if isinstance(c.func, ast.Name) else (c.func.attr if isinstance(c.func, ast.Attribute) else None)
      if nm in group and c.lineno not in executed_lines:
        return {"function": nm, "call_line_not_executed": c.lineno}
      if nm in group and called_sites is not None and id(c) not in in_def and (nm, c.lineno) not in called_sites:
        return {"function": nm, "module_level_call_never_made_at_line": c.lineno}
  return None


def attr_store_callees(tree, attr, executed_lines):
  """Names of functions/methods called on the right-hand side of executed `X.attr = ...` statements."""
  import ast
  out = set()
  for st in ast.walk(tree):
    if isinstance(st, ast.Assign) and st.lineno in executed_lines and any(
        isinstance(t, ast.Attribute) and t.attr == attr for t in st.targets):
      for c in ast.walk(st.value):
        if isinstance(c, ast.Call):
          nm = c.func.id if isinstance(c.func, ast.Name) else (c.func.attr if isinstance(c.func, ast.Attribute) else None)
          if nm:
            out.add(nm)
  return out


def ambiguous_store_signature(ctx, defs, trace, tree, gname, attr, executed_lines):
  """An executed `N.attr = ...` where the run-time object behind N is NOT the object of global `gname`,
  while pytype's variable for N can denote gname's abstract instance."""
  import ast
  exitn = ctx.exitpoint
  gshape = trace["globals"].get(gname, {})
  if "id" not in gshape or gname not in defs:
    return None
  insts = [b.data for b in defs[gname].bindings if b.IsVisible(exitn)]
  for st in ast.walk(tree):
    if not (isinstance(st, ast.Assign) and st.lineno in executed_lines):
      continue
    for t in st.targets:
      if isinstance(t, ast.Attribute) and t.attr == attr and isinstance(t.value, ast.Name):
        n = t.value.id
        if n == gname or n not in defs or n not in trace["globals"]:
          continue
        nshape = trace["globals"][n]
        same_runtime_object = nshape.get("id") is not None and nshape.get("id") == gshape["id"]
        if same_runtime_object:
          continue
        if any(any(bb.data is i for i in insts) for bb in defs[n].bindings):
          return {"store_through": n, "line": st.lineno, "runtime_target_is_another_object": True}
  return None


def super_receiver_signature(tree, cls_name, meth_name, receiver_cls):
  """Method `cls_name.meth_name` calls super() and ran on an instance of another (sub)class."""
  import ast
  for c in tree.body:
    if isinstance(c, ast.ClassDef) and c.name == cls_name:
      for f in c.body:
        if isinstance(f, ast.FunctionDef) and f.name == meth_name:
          for n in ast.walk(f):
            if isinstance(n, ast.Call) and isinstance(n.func, ast.Name) and n.func.id == "super":
              return {"method": f"{cls_name}.{meth_name}", "receiver_class_at_run_time": receiver_cls}
  return None
