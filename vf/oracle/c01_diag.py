"""Diagnosis of a C01 violation by observing pytype's own state and CPython's heap.

Two mechanism signatures are recognised (both observable facts, not syntax):

K_ALIAS  (CPython side)  the object that holds the unadmitted element is aliased:
         the same object (id) is reachable through another global / path whose
         declared type DOES admit the element.  pytype snapshots the type of a
         container when it is stored inside another container, so a later
         mutation through the alias is not reflected at the other path.

K_VIEW   (pytype side)   the lost value exists in the final typegraph as a binding
         of the item's variable but is invisible at the exit node, and its
         explanation chain contains a source binding that is invisible at exit
         while a sibling binding of the same variable with the same class is
         visible: the call result was attributed to one representative argument
         binding only (view de-duplication in function calls).
"""
from __future__ import annotations

K_ALIAS = ("container aliased and mutated after it was stored inside another container: "
           "the stored element type is a snapshot (same object admitted through its other name)")
K_VIEW = ("call result attributed to one representative argument binding (view de-duplication): its source set is "
          "unexplainable at its own node, but would be explained by an equivalent sibling binding of the same variable")

K_REUSE = ("value created in a sibling branch is named as a source (memoised call result / cached argument reused "
           "across call sites): a source binding has no origin backward-reachable from its dependent's origin node")
K_SITE = ("two distinct run-time objects are represented by one abstract instance (allocation-site abstraction): "
          "an attribute update through one is overwritten by the (re)initialisation of the other")

CAPTURE = {}
_installed = False


def install():
  """Record-and-return wrapper capturing the module-level definitions pytype computed types from."""
  global _installed
  if _installed:
    return
  from pytype import tracer_vm
  orig = tracer_vm.CallTracer.compute_types

  def compute_types(self, defs):
    CAPTURE["defs"] = defs
    CAPTURE["n"] = CAPTURE.get("n", 0) + 1
    return orig(self, defs)

  tracer_vm.CallTracer.compute_types = compute_types
  _installed = True


# ---------------------------------------------------------------------------
# CPython side: aliasing


def walk_ids(sh, path, out):
  if "id" in sh:
    out.setdefault(sh["id"], []).append(path)
  for i, e in enumerate(sh.get("e", ())):
    walk_ids(e, path + (f"[{i}]",), out)
  for i, (a, b) in enumerate(sh.get("kv", ())):
    walk_ids(a, path + (f"key{i}",), out)
    walk_ids(b, path + (f"val{i}",), out)


def alias_signature(trace, adm, consts, parent_shape, leaf_shape):
  """True iff the container holding the unadmitted leaf is also reachable by another
  path from a module global whose declared type admits that container's content."""
  if not parent_shape or "id" not in parent_shape:
    return None
  ids = {}
  for name, sh in trace["globals"].items():
    walk_ids(sh, (name,), ids)
  paths = ids.get(parent_shape["id"], [])
  if len(paths) < 2:
    return None
  # some top-level alias whose declared type admits the whole aliased object
  for p in paths:
    if len(p) == 1 and p[0] in consts:
      if adm.admits(consts[p[0]].type, trace["globals"][p[0]]):
        return {"aliased_paths": ["".join(x) for x in paths][:6], "admitted_through": p[0]}
  return None


# ---------------------------------------------------------------------------
# pytype side: invisible binding with a feasible equivalent sibling


def _cls_name(data):
  c = getattr(data, "cls", None)
  n = getattr(c, "name", None)
  if n is None:
    n = type(data).__name__
  return str(n).split(".")[-1]


def _matches(data, shape):
  n = _cls_name(data)
  if n in shape.get("mro", ()):
    return True
  if shape.get("cls") == "NoneType" and n in ("NoneType", "None"):
    return True
  return False


def _descend(var, path_item):
  """Type-parameter variable(s) of the visible container bindings in var."""
  from pytype.abstract import abstract_utils
  out = []
  for b in var.bindings:
    d = b.data
    try:
      if path_item == "elem":
        if hasattr(d, "get_instance_type_parameter"):
          out.append(d.get_instance_type_parameter(abstract_utils.T))
      elif path_item == "key":
        out.append(d.get_instance_type_parameter(abstract_utils.K))
      elif path_item == "value":
        out.append(d.get_instance_type_parameter(abstract_utils.V))
      elif path_item.startswith("tuple["):
        i = int(path_item[6:-1])
        pv = getattr(d, "pyval", None)
        if isinstance(pv, tuple) and i < len(pv):
          out.append(pv[i])
        elif hasattr(d, "get_instance_type_parameter"):
          out.append(d.get_instance_type_parameter(abstract_utils.T))
    except Exception:  # pylint: disable=broad-except
      continue
  return out


def view_signature(ctx, var, path, leaf_shape, max_nodes=400):
  """Looks for the lost value among the bindings reachable along `path`."""
  exitn = ctx.exitpoint
  vars_ = [var]
  for item in path:
    nxt = []
    for v in vars_:
      nxt.extend(_descend(v, item))
    vars_ = nxt
    if not vars_:
      return {"found": False, "why": f"no variable along path at {item}"}
  cands = []
  for v in vars_:
    for b in v.bindings:
      if _matches(b.data, leaf_shape):
        cands.append(b)
  if not cands:
    return {"found": False, "why": "no binding of the lost class exists in the item's variable"}
  invisible = [b for b in cands if not b.IsVisible(exitn)]
  if not invisible:
    return {"found": True, "invisible": False,
            "why": "a binding of the lost class is visible at exit (lost later, in output/optimisation)"}
  # search the explanation chain: an origin whose source set cannot be explained at its own node,
  # but could be if one source were replaced by an equivalent sibling (same variable, same class)
  seen = set()
  todo = list(invisible)
  steps = 0
  while todo and steps < max_nodes:
    b = todo.pop()
    if b.id in seen:
      continue
    seen.add(b.id)
    steps += 1
    for o in b.origins:
      for ss in o.source_sets:
        ss = list(ss)
        todo.extend(ss)
        for src in ss:
          if src.origins and not any(ctx.program.is_reachable(so.where, o.where) for so in src.origins):
            return {"found": True, "invisible": True, "reuse": True,
                    "dependent": f"binding {b.id} at node {o.where.id} {o.where.name}",
                    "unreachable_source": f"binding {src.id} {str(src.data)[:40]} originating at "
                                          f"{[so.where.name for so in src.origins][:3]}"}
        if not ss or o.where.HasCombination(ss):
          continue
        for src in ss:
          for alt in _alternatives(src):
            trial = [x for x in ss if x.id != src.id] + [alt]
            if o.where.HasCombination(trial):
              return {"found": True, "invisible": True, "sibling": True,
                      "unexplainable_source_set_at_node": o.where.id,
                      "representative_used": f"binding {src.id} {str(src.data)[:40]}",
                      "equivalent_sibling_that_explains": f"binding {alt.id} {str(alt.data)[:40]}"}
  return {"found": True, "invisible": True, "sibling": False,
          "why": "lost binding is invisible at exit; no source set that an equivalent sibling binding would explain"}


def _alternatives(src, depth=0):
  """Same-class sibling bindings of src, or of the binding src was copied from (single-source chains)."""
  out = []
  for sib in src.variable.bindings:
    if sib.id != src.id and _cls_name(sib.data) == _cls_name(src.data):
      out.append(sib)
  if depth < 6:
    for o in src.origins:
      for ss in o.source_sets:
        if len(ss) == 1:
          (only,) = tuple(ss)
          if _cls_name(only.data) == _cls_name(src.data):
            out.extend(_alternatives(only, depth + 1))
  return out


def site_signature(ctx, defs, trace, gname):
  """K_SITE: the abstract instance behind global `gname` is also the data of another global whose
  run-time value is a different object."""
  exitn = ctx.exitpoint
  gshape = trace["globals"].get(gname, {})
  if "id" not in gshape or gname not in defs:
    return None
  insts = [b.data for b in defs[gname].bindings if b.IsVisible(exitn)]
  for other, osh in trace["globals"].items():
    if other == gname or other not in defs or "id" not in osh or osh["id"] == gshape["id"]:
      continue
    for bb in defs[other].bindings:
      if any(bb.data is i for i in insts):
        return {"shares_abstract_instance_with": other, "distinct_runtime_objects": True}
  return None
