"""C03 oracle: what a directive comment is allowed to change, plus the Layer-A
monitors on directors._LineSet / Director.filter_error.

Everything here is independent of pytype's directive machinery: source edits are
validated with CPython's tokenizer, statement geometry comes from CPython's
`ast`, the expected report is computed from the *original* report by the rule the
property states, and the _LineSet model replays the documented semantics
("a per-line entry overrides; otherwise the most recent start_range at or before
the line decides") by brute force.
"""
from __future__ import annotations

import ast
import collections
import io
import re
import tokenize

SPELL_DISABLE = "pytype: disable"
SPELL_IGNORE = "type: ignore"

# The error classes directors.py documents as line-adjusted.  Copied here (not
# imported) so that the known-by-design deviation is recognised only for the
# documented classes; an extra removal of any other class gets its own key.
DOC_CALL_ERRORS = frozenset((
    "attribute-error", "duplicate-keyword", "invalid-annotation", "missing-parameter", "not-instantiable",
    "wrong-arg-count", "wrong-arg-types", "wrong-keyword-args", "unsupported-operands"))
DOC_ADJUSTABLE = DOC_CALL_ERRORS | frozenset((
    "annotation-type-mismatch", "bad-return-type", "bad-yield-annotation", "container-type-mismatch",
    "not-supported-yet", "signature-mismatch"))


# ---------------------------------------------------------------------------
# source edits


def _tokens(src):
  try:
    return [(t.type, t.string, t.start[0]) for t in tokenize.generate_tokens(io.StringIO(src).readline)]
  except (tokenize.TokenError, SyntaxError, IndentationError):
    return None


def _significant(toks, shift=None):
  """Token stream without comments / NL, with (optionally remapped) line numbers."""
  out = []
  for ty, s, ln in toks:
    if ty in (tokenize.COMMENT, tokenize.NL):
      continue
    out.append((ty, s, shift(ln) if shift else ln))
  return out


def append_comment(src: str, line: int, comment: str):
  """P' = P with `  # comment` appended to physical line `line`, or None when that
  is not a pure comment insertion (line inside a string, backslash continuation...)."""
  lines = src.split("\n")
  if not 1 <= line <= len(lines):
    return None
  if lines[line - 1].rstrip().endswith("\\"):
    return None
  if lines[line - 1].lstrip().startswith("#"):
    # a comment-only line (e.g. a `# type: (...) -> ...` function type comment): a directive
    # appended there is a *stand-alone* directive by pytype's definition, not a trailing one
    return None
  lines[line - 1] = lines[line - 1] + "  # " + comment
  new = "\n".join(lines)
  a, b = _tokens(src), _tokens(new)
  if a is None or b is None:
    return None
  if _significant(a) != _significant(b):
    return None
  ca = [(s, ln) for ty, s, ln in a if ty == tokenize.COMMENT]
  cb = [(s, ln) for ty, s, ln in b if ty == tokenize.COMMENT]
  extra = [c for c in cb if c not in ca]
  gone = [c for c in ca if c not in cb]
  if len(extra) != 1 or extra[0][1] != line or len(gone) > 1:
    return None
  if gone and gone[0][1] != line:
    return None
  try:
    ast.parse(new)
  except SyntaxError:
    return None
  return new


def append_comment_tokens_only(src: str, line: int, comment: str):
  """Like append_comment but for sources CPython tokenizes yet refuses to compile."""
  lines = src.split("\n")
  if not 1 <= line <= len(lines) or lines[line - 1].rstrip().endswith("\\"):
    return None
  lines[line - 1] += "  # " + comment
  new = "\n".join(lines)
  a, b = _tokens(src), _tokens(new)
  if a is None or b is None or _significant(a) != _significant(b):
    return None
  return new


COMPILE_ERROR_PROGRAMS = [
    "x = 1\nreturn 1\ny = 2\n",
    "x = 1\nbreak\n",
    "for i in [1]:\n  pass\ncontinue\n",
    "def f():\n  x = 1\n  nonlocal q\n  return x\n",
    "def f(a, a):\n  return a\n",
    "x = 1\nyield x\n",
    "def f(k):\n  return k\nf(a=1, a=2)\n",
    "x = 2\n1 = x\n",
    "def g():\n  v = 1\n  global v\n",
    "async def h():\n  pass\nawait h()\n",
    "x = [1]\ndel x()\n",
    "class C:\n  def m(self):\n    return 1\n  return 2\n",
]


def insert_lines(src: str, inserts):
  """inserts: [(before_line, comment)] in ORIGINAL numbering (before_line may be
  nlines+1 = append).  Returns (new_src, mapping fn orig_line -> new_line, positions
  of the inserted lines in new numbering) or None if it is not a pure comment-line insertion."""
  lines = src.split("\n")
  if lines and lines[-1] == "":
    body = lines[:-1]
  else:
    body = lines
  n = len(body)
  inserts = sorted(inserts, key=lambda t: t[0])
  out = []
  pos = []
  k = 0
  for i in range(1, n + 2):
    while k < len(inserts) and inserts[k][0] == i:
      ref = body[i - 1] if i <= n else ""
      indent = ref[:len(ref) - len(ref.lstrip())]
      out.append(indent + "# " + inserts[k][1])
      pos.append(len(out))
      k += 1
    if i <= n:
      out.append(body[i - 1])
  if k != len(inserts):
    return None
  new = "\n".join(out) + "\n"
  befores = [b for b, _ in inserts]

  def shift(ln):
    return ln + sum(1 for b in befores if b <= ln)

  a, b = _tokens(src), _tokens(new)
  if a is None or b is None:
    return None
  sa = [(ty, s, shift(ln)) for ty, s, ln in _significant(a) if ty not in (tokenize.ENDMARKER, tokenize.NEWLINE, tokenize.INDENT, tokenize.DEDENT)]
  sb = [(ty, s, ln) for ty, s, ln in _significant(b) if ty not in (tokenize.ENDMARKER, tokenize.NEWLINE, tokenize.INDENT, tokenize.DEDENT)]
  if sa != sb:
    return None
  cb = [ln for ty, s, ln in b if ty == tokenize.COMMENT]
  if any(p not in cb for p in pos):
    return None
  # each inserted line must be a comment-only physical line
  for p in pos:
    if not out[p - 1].lstrip().startswith("#"):
      return None
  try:
    ast.parse(new)
  except SyntaxError:
    return None
  return new, shift, pos


# ---------------------------------------------------------------------------
# statement geometry (CPython ast only)


class Geometry:
  """Per-line facts about a program."""

  def __init__(self, src):
    self.src = src
    self.tree = ast.parse(src)
    self.stmts = []     # (start, end, kind, node) "header" range for compound statements
    self.exprs = []     # (start, end, kind) for Call / Compare / Subscript nodes
    self.funcs = []     # (first line incl. decorators, end, node)
    self.return_lines = set()
    self.decorator_lines = {}
    for node in ast.walk(self.tree):
      if isinstance(node, ast.stmt):
        start, end = node.lineno, node.end_lineno
        body = getattr(node, "body", None)
        if isinstance(body, list) and body:
          end = max(start, body[0].lineno - 1) if body[0].lineno > start else start
        self.stmts.append((start, end, type(node).__name__, node))
        if isinstance(node, ast.Return):
          self.return_lines.add(node.lineno)
        if isinstance(node, (ast.FunctionDef, ast.AsyncFunctionDef, ast.ClassDef)):
          for d in node.decorator_list:
            self.stmts.append((d.lineno, d.end_lineno, "Decorator", d))
            for ln in range(d.lineno, d.end_lineno + 1):
              self.decorator_lines[ln] = node.lineno
          if not isinstance(node, ast.ClassDef):
            first = min([node.lineno] + [d.lineno for d in node.decorator_list])
            self.funcs.append((first, node.end_lineno, node))
      elif isinstance(node, (ast.Call, ast.Compare, ast.Subscript)):
        self.exprs.append((node.lineno, node.end_lineno, type(node).__name__))
      elif isinstance(node, ast.ExceptHandler):
        end = max(node.lineno, node.body[0].lineno - 1)
        self.stmts.append((node.lineno, end, "ExceptHandler", node))
      elif isinstance(node, ast.match_case):
        end = max(node.pattern.lineno, node.body[0].lineno - 1)
        self.stmts.append((node.pattern.lineno, end, "match_case", node))

  def statement_of(self, line):
    """Innermost statement (header) range containing line: (start, end, kind) or None."""
    best = None
    for s, e, k, _ in self.stmts:
      if s <= line <= e and (best is None or (e - s) < (best[1] - best[0])):
        best = (s, e, k)
    return best

  def statement_text(self, line):
    st = self.statement_of(line)
    if not st:
      return None
    ls = self.src.split("\n")
    return "\n".join(x.strip() for x in ls[st[0] - 1:st[1]])

  def enclosing_expr_starts(self, line):
    """Start lines (< line) of multi-line call/compare/subscript nodes spanning line."""
    return sorted({s for s, e, _ in self.exprs if s < line <= e})

  def function_ends(self):
    return {e for _, e, _ in self.funcs}

  def is_implicit_return_line(self, line):
    return line in self.function_ends() and line not in self.return_lines


# ---------------------------------------------------------------------------
# expected reports


_LINE_RE = re.compile(r"\bline (\d+)\b")


def shift_message(msg, shift):
  return _LINE_RE.sub(lambda m: "line %d" % shift(int(m.group(1))), msg)


def expected_trailing(R, E, L, spelling):
  """R minus the E-errors on L (type: ignore: minus all errors on L)."""
  if spelling == SPELL_IGNORE:
    return [e for e in R if e[1] != L]
  return [e for e in R if not (e[1] == L and e[0] == E)]


def expected_standalone(R, E, a, b, shift):
  """R minus the E-errors with a <= line < b (b None = end of file), renumbered."""
  out = []
  for name, line, msg in R:
    if name == E and line is not None and line >= a and (b is None or line < b):
      continue
    out.append((name, shift(line) if line else line, shift_message(msg, shift)))
  return out


def diff_reports(expected, actual):
  """(missing, added): multiset differences of (name, line, message) tuples."""
  ce = collections.Counter(map(tuple, expected))
  ca = collections.Counter(map(tuple, actual))
  missing = sorted((ce - ca).elements(), key=lambda t: (t[1] or 0, t[0], t[2]))
  added = sorted((ca - ce).elements(), key=lambda t: (t[1] or 0, t[0], t[2]))
  return missing, added


# ---------------------------------------------------------------------------
# classification of a disagreement into mechanism keys

K_CONT_STMT = ("trailing directive on a continuation line also silences a named-class error on the first line of "
               "the statement containing it")
K_CONT_EXPR = ("trailing directive on a continuation line also silences a named-class error on the first line of "
               "an enclosing call/compare/subscript expression (not the statement's first line)")
K_IMPORT = ("`type: ignore` on an import line stops the import: every name imported on that line becomes Any and "
            "the stub changes")
K_IMPLICIT_MOVE = ("a directive comment inside a function's final multi-line statement moves the implicit-return "
                   "bad-return-type error from the function's last line to that statement's first line")
K_IMPLICIT_GONE = ("trailing directive inside a function's final multi-line statement also silences the "
                   "implicit-return bad-return-type error reported on the function's last line")
K_DIRECTOR_TIME = ("errors logged while directive comments are parsed (invalid-directive, ignored-type-comment, "
                   "late-directive) bypass the directive filter and cannot be silenced on their line")
K_COMPILE = "python-compiler-error is never subject to directives (no Director exists when compilation fails)"
DIRECTOR_TIME_ERRORS = frozenset(("invalid-directive", "ignored-type-comment", "late-directive"))


def classify_trailing(geo: Geometry, E, L, spelling, survivors, missing, added, stub_changed):
  """Returns a list of (key, detail) for one trailing-directive case.

  survivors: errors the directive had to remove but did not;
  missing: errors it removed although it should not; added: errors that are new.
  """
  keys = []
  st = geo.statement_of(L)
  kind = st[2] if st else "?"
  where = "first line" if st and st[0] == L else "continuation line"
  named = (lambda n: True) if spelling == SPELL_IGNORE else (lambda n: n == E)
  # moved errors: same (name, message) missing at one line and added at another
  moved = []
  added_left = list(added)
  missing_left = []
  for m in missing:
    twin = next((a for a in added_left if a[0] == m[0] and a[2] == m[2]), None)
    if twin is not None:
      added_left.remove(twin)
      moved.append((m, twin))
    else:
      missing_left.append(m)
  for m, twin in moved:
    if (m[0] == "bad-return-type" and geo.is_implicit_return_line(m[1]) and st and m[1] == st[1]
        and twin[1] == st[0] and st[0] < st[1]):
      keys.append((K_IMPLICIT_MOVE, {"moved": [m, twin]}))
    else:
      keys.append((f"`{spelling}` on a {where} of a {kind} statement moves a {m[0]} error to another line",
                   {"moved": [m, twin], "delta": twin[1] - m[1]}))
  for s in [x for x in survivors if x[0] in DIRECTOR_TIME_ERRORS]:
    keys.append((K_DIRECTOR_TIME, {"survivor": s}))
  for s in [x for x in survivors if x[0] not in DIRECTOR_TIME_ERRORS]:
    adj = "implicit-return line" if (s[0] == "bad-return-type" and geo.is_implicit_return_line(L)) else where
    keys.append((f"`{spelling}` on the reported line does not silence {s[0]} ({adj} of a {kind} statement)",
                 {"survivor": s}))
  if spelling == SPELL_IGNORE:
    doc_stmt = doc_call = (lambda n: True)
  else:
    doc_stmt = lambda n: n == E and n in DOC_ADJUSTABLE
    doc_call = lambda n: n == E and n in DOC_CALL_ERRORS
  for m in missing_left:
    if st and m[1] == st[0] and st[0] < L <= st[1] and doc_stmt(m[0]):
      keys.append((K_CONT_STMT, {"extra_removed": m}))
    elif m[1] in geo.enclosing_expr_starts(L) and doc_call(m[0]):
      keys.append((K_CONT_EXPR, {"extra_removed": m}))
    elif (m[0] == "bad-return-type" and geo.is_implicit_return_line(m[1]) and st and st[0] < st[1]
          and m[1] == st[1] and st[0] <= L <= st[1] and doc_stmt(m[0])):
      keys.append((K_IMPLICIT_GONE, {"extra_removed": m}))
    else:
      rel = "same statement" if st and st[0] <= m[1] <= st[1] else "another statement"
      keys.append((f"`{spelling}` on a {where} of a {kind} statement removes a {m[0]} error on a different line "
                   f"({rel}, class {'named' if named(m[0]) else 'NOT named'})",
                   {"extra_removed": m, "delta": m[1] - L}))
  for a in added_left:
    keys.append((f"`{spelling}` on a {where} of a {kind} statement adds a new {a[0]} error", {"added": a}))
  if stub_changed:
    if spelling == SPELL_IGNORE and kind in ("Import", "ImportFrom"):
      keys.append((K_IMPORT, {}))
    else:
      keys.append((f"`{spelling}` on a {where} of a {kind} statement changes the stub", {}))
  return keys


def classify_standalone(geo: Geometry, E, a, b, missing, added, stub_changed, survivors, inside=(),
                        unshift=None):
  """All report tuples are in the numbering of the edited program; `unshift` maps an
  edited line back to the original line.  inside: errors the range had to remove."""
  unshift = unshift or {}
  keys = []
  added_left = list(added)
  missing_left = []

  def implicit_move(m, twin):
    """m (implicit-return error on the last line of a multi-line final statement) re-appears
    on that statement's first line."""
    if m[0] != "bad-return-type":
      return False
    o, t = unshift.get(m[1]), unshift.get(twin[1])
    st = geo.statement_of(o) if o else None
    return bool(st and geo.is_implicit_return_line(o) and st[0] < st[1] == o and t == st[0]
                and (st[0] < a <= st[1] or (b is not None and st[0] < b <= st[1])))

  for m in inside:   # an error that had to go but re-appears on another line, outside the range
    twin = next((x for x in added_left if x[0] == m[0] and shift_free(x[2]) == shift_free(m[2])
                 and x[1] != m[1]), None)
    if twin is not None and implicit_move(m, twin):
      added_left.remove(twin)
      keys.append((K_IMPLICIT_MOVE, {"moved": [m, twin], "note": "stand-alone; moved out of the disabled range"}))
  for m in missing:
    twin = next((x for x in added_left if x[0] == m[0] and shift_free(x[2]) == shift_free(m[2])), None)
    if twin is not None:
      added_left.remove(twin)
      if implicit_move(m, twin):
        keys.append((K_IMPLICIT_MOVE, {"moved": [m, twin], "note": "stand-alone"}))
      else:
        keys.append((f"stand-alone directive moves a {m[0]} error to another line",
                     {"moved": [m, twin], "delta_after_renumbering": twin[1] - m[1]}))
    else:
      missing_left.append(m)
  for s in survivors:
    if s[0] in DIRECTOR_TIME_ERRORS:
      keys.append((K_DIRECTOR_TIME, {"survivor": s, "note": "stand-alone"}))
    else:
      keys.append((f"stand-alone disable..enable range does not silence {s[0]} inside the range",
                   {"survivor": s}))
  for m in missing_left:
    o = unshift.get(m[1])
    st = geo.statement_of(o) if o else None
    if (m[0] == E == "bad-return-type" and st and geo.is_implicit_return_line(o) and st[0] < st[1] == o
        and b is not None and st[0] < b <= st[1] and a <= st[0]):
      # the comment sits inside the final statement: the error moves to the statement's first
      # line; if that line is inside the range it is silenced there
      keys.append((K_IMPLICIT_MOVE, {"extra_removed": m, "note": "stand-alone; moved into the disabled range"}))
    else:
      keys.append((f"stand-alone disable..enable range silences {m[0]} outside the range "
                   f"({'named class' if m[0] == E else 'class NOT named'})", {"extra_removed": m}))
  for x in added_left:
    keys.append((f"stand-alone directive adds a new {x[0]} error", {"added": x}))
  if stub_changed:
    keys.append(("stand-alone directive changes the stub", {}))
  return keys


def shift_free(msg):
  return _LINE_RE.sub("line N", msg)


# ---------------------------------------------------------------------------
# Layer A monitors (record and return; never raise into pytype)


class Monitor:
  def __init__(self):
    self.reset_counts()
    self.installed = False
    self.last_director = None
    self.filter_log = []

  def reset_counts(self):
    self.contains_evals = 0
    self.mutation_evals = 0
    self.sweep_evals = 0
    self.filter_evals = 0
    self.directors_seen = 0
    self.records = []        # disagreements

  def new_analysis(self):
    self.filter_log = []
    self.last_director = None


MON = Monitor()


def _model_contains(events, specific, line):
  """Brute-force documented semantics of _LineSet."""
  if line in specific and specific[line] is not None:
    return specific[line]
  state = False
  for ev_line, membership in events:      # call order == non-decreasing line order
    if ev_line <= line:
      state = membership
  return state


def _strictly_increasing(xs):
  return all(a < b for a, b in zip(xs, xs[1:]))


def install_monitors():
  """Wraps directors._LineSet and Director.filter_error in this process."""
  if MON.installed:
    return MON
  from pytype.directors import directors
  LS = directors._LineSet   # pylint: disable=protected-access
  orig_init, orig_set, orig_start, orig_contains = LS.__init__, LS.set_line, LS.start_range, LS.__contains__

  def init(self):
    orig_init(self)
    self._vf_events = []
    self._vf_specific = {}

  def _check_shape(self, what):
    MON.mutation_evals += 1
    tr = list(self._transitions)
    if not _strictly_increasing(tr):
      MON.records.append({"what": "_LineSet._transitions not strictly increasing", "after": what,
                          "transitions": tr})

  def set_line(self, line, membership):
    r = orig_set(self, line, membership)
    try:
      self._vf_specific[line] = membership
      _check_shape(self, ["set_line", line, membership])
    except Exception as e:  # pylint: disable=broad-except
      MON.records.append({"what": "monitor error", "error": repr(e)})
    return r

  def start_range(self, line, membership):
    r = orig_start(self, line, membership)   # a ValueError propagates unchanged
    try:
      self._vf_events.append((line, bool(membership)))
      _check_shape(self, ["start_range", line, membership])
    except Exception as e:  # pylint: disable=broad-except
      MON.records.append({"what": "monitor error", "error": repr(e)})
    return r

  def contains(self, line):
    got = orig_contains(self, line)
    try:
      ev, sp = getattr(self, "_vf_events", None), getattr(self, "_vf_specific", None)
      if ev is not None and isinstance(line, int):
        for probe in (line - 1, line, line + 1):
          real = got if probe == line else orig_contains(self, probe)
          want = _model_contains(ev, sp, probe)
          MON.contains_evals += 1
          if bool(real) != bool(want):
            MON.records.append({"what": "_LineSet.__contains__ disagrees with interval model", "line": probe,
                                "got": bool(real), "model": bool(want), "events": list(ev),
                                "specific": {str(k): v for k, v in sp.items()},
                                "transitions": list(self._transitions)})
    except Exception as e:  # pylint: disable=broad-except
      MON.records.append({"what": "monitor error", "error": repr(e)})
    return got

  LS.__init__, LS.set_line, LS.start_range, LS.__contains__ = init, set_line, start_range, contains

  D = directors.Director
  orig_dinit, orig_filter = D.__init__, D.filter_error

  def dinit(self, src_tree, *a, **kw):
    orig_dinit(self, src_tree, *a, **kw)
    try:
      MON.directors_seen += 1
      MON.last_director = self
      nlines = getattr(src_tree.ast, "end_lineno", None) or 0
      if not nlines:
        nlines = max([getattr(n, "end_lineno", 0) or 0 for n in ast.walk(src_tree.ast)] + [0])
      sets = [("ignore", self._ignore)] + [("disable=" + k, v) for k, v in list(self._disables.items())]
      for label, ls in sets:
        ev, sp = getattr(ls, "_vf_events", None), getattr(ls, "_vf_specific", None)
        if ev is None:
          continue
        for line in range(0, nlines + 3):
          MON.sweep_evals += 1
          real, want = orig_contains(ls, line), _model_contains(ev, sp, line)
          if bool(real) != bool(want):
            MON.records.append({"what": "_LineSet.__contains__ disagrees with interval model", "set": label,
                                "line": line, "got": bool(real), "model": bool(want), "events": list(ev),
                                "specific": {str(k): v for k, v in sp.items()},
                                "transitions": list(ls._transitions)})
            break
    except Exception as e:  # pylint: disable=broad-except
      MON.records.append({"what": "monitor error", "error": repr(e)})

  def filter_error(self, error):
    before = getattr(error, "line", None)
    kept = orig_filter(self, error)
    try:
      MON.filter_evals += 1
      MON.filter_log.append({"name": error.name, "line_before": before, "line_after": error.line,
                             "kept": bool(kept), "opcode": error.opcode_name})
    except Exception as e:  # pylint: disable=broad-except
      MON.records.append({"what": "monitor error", "error": repr(e)})
    return kept

  D.__init__, D.filter_error = dinit, filter_error
  MON.installed = True
  return MON


def director_state(names=()):
  """JSON-able dump of the last Director's line sets (witness enrichment)."""
  d = MON.last_director
  if d is None:
    return None
  out = {"ignore": {"lines": {str(k): v for k, v in d._ignore._lines.items()},
                    "transitions": list(d._ignore._transitions)}}
  for n in names:
    if n in d._disables:
      ls = d._disables[n]
      out["disable=" + n] = {"lines": {str(k): v for k, v in ls._lines.items()},
                             "transitions": list(ls._transitions)}
  return out
