"""Bootstrap shared by every check: builds the C++ extension from /repo's
working tree (content-hash cached under /verif/build), provides an empty
typeshed, installs the contract libraries, and makes pytype importable.

Nothing is ever written under /repo.
"""
from __future__ import annotations

import concurrent.futures
import glob
import hashlib
import os
import shutil
import subprocess
import sys
import sysconfig
import time

VERIF = os.path.dirname(os.path.dirname(os.path.abspath(__file__)))
REPO = os.environ.get("VERIF_REPO", "/repo")
BUILD = os.path.join(VERIF, "build")
PY = "/venv/bin/python"
GUARD = "PYTYPE_VERIF"
TG_SOURCES = ["cfg", "cfg_logging", "pylogging", "reachable", "solver", "typegraph"]
EXT_NAME = "cfg" + sysconfig.get_config_var("EXT_SUFFIX")


def _includes():
  import pybind11  # from /venv
  return [
      "-I" + sysconfig.get_paths()["include"],
      "-I" + pybind11.get_include(),
      "-I" + REPO,
      "-I" + os.path.join(REPO, "pytype", "typegraph"),
  ]


def _tg_hash(variant: str) -> str:
  h = hashlib.sha256(variant.encode())
  tg = os.path.join(REPO, "pytype", "typegraph")
  for f in sorted(glob.glob(os.path.join(tg, "*.cc")) + glob.glob(os.path.join(tg, "*.h"))):
    if f.endswith("_test.cc") or f.endswith("test_util.h"):
      continue
    h.update(os.path.basename(f).encode())
    with open(f, "rb") as fh:
      h.update(fh.read())
  return h.hexdigest()[:16]


def asan_runtime() -> str:
  out = subprocess.run(
      ["clang-14", "-print-file-name=libclang_rt.asan-x86_64.so"],
      capture_output=True, text=True, check=True).stdout.strip()
  return out


def build_ext(variant: str = "plain") -> str:
  """Builds (or reuses) the extension; returns the directory holding it."""
  assert variant in ("plain", "asan")
  sha = _tg_hash(variant)
  out_dir = os.path.join(BUILD, f"ext-{variant}-{sha}")
  target = os.path.join(out_dir, EXT_NAME)
  if os.path.exists(target):
    return out_dir
  os.makedirs(BUILD, exist_ok=True)
  import fcntl
  with open(os.path.join(BUILD, f".lock-{variant}"), "w") as lk:
    fcntl.flock(lk, fcntl.LOCK_EX)   # one builder at a time per variant
    if os.path.exists(target):
      return out_dir
    return _build_ext_locked(variant, out_dir)


def _build_ext_locked(variant, out_dir):
  tmp = out_dir + f".tmp{os.getpid()}"
  shutil.rmtree(tmp, ignore_errors=True)
  os.makedirs(tmp)
  if variant == "plain":
    cxx = ["g++", "-O1", "-g0"]
    link = ["g++", "-shared"]
  else:
    cxx = ["clang++-14", "-O1", "-g", "-fsanitize=address,undefined",
           "-fno-sanitize-recover=undefined", "-fno-omit-frame-pointer",
           "-shared-libasan"]
    link = ["clang++-14", "-shared", "-fsanitize=address,undefined",
            "-shared-libasan"]
  common = ["-std=c++20", "-fPIC", "-fvisibility=hidden"] + _includes()

  def comp(name):
    src = os.path.join(REPO, "pytype", "typegraph", name + ".cc")
    obj = os.path.join(tmp, name + ".o")
    r = subprocess.run(cxx + common + ["-c", src, "-o", obj],
                       capture_output=True, text=True)
    if r.returncode:
      raise RuntimeError(f"compile {name} failed:\n{r.stderr[-4000:]}")
    return obj

  with concurrent.futures.ThreadPoolExecutor(len(TG_SOURCES)) as ex:
    objs = list(ex.map(comp, TG_SOURCES))
  r = subprocess.run(link + objs + ["-o", os.path.join(tmp, EXT_NAME)],
                     capture_output=True, text=True)
  if r.returncode:
    raise RuntimeError(f"link failed:\n{r.stderr[-4000:]}")
  for o in objs:
    os.unlink(o)
  # prune older builds of this variant (disk)
  for old in glob.glob(os.path.join(BUILD, f"ext-{variant}-*")):
    try:
      stale = time.time() - os.path.getmtime(old) > 6 * 3600
    except OSError:
      stale = False
    if old != out_dir and not old.startswith(tmp) and stale:
      shutil.rmtree(old, ignore_errors=True)   # concurrent checks may still use recent ones
  try:
    os.rename(tmp, out_dir)
  except OSError:
    shutil.rmtree(tmp, ignore_errors=True)  # somebody else won the race
  return out_dir


def empty_typeshed() -> str:
  d = os.path.join(BUILD, "typeshed-empty")
  os.makedirs(os.path.join(d, "stdlib"), exist_ok=True)
  os.makedirs(os.path.join(d, "stubs"), exist_ok=True)
  v = os.path.join(d, "stdlib", "VERSIONS")
  if not os.path.exists(v):
    open(v, "w").close()
  return d


def ensure_deps() -> str:
  d = os.path.join(VERIF, ".deps")
  if not os.path.exists(os.path.join(d, "icontract")):
    r = subprocess.run(
        [PY, "-m", "pip", "install", "-q", "--no-index", "--find-links",
         "/opt/veriftools/wheels", "--no-deps", "--target", d,
         "icontract", "asttokens", "six", "deal"],
        capture_output=True, text=True)
    if r.returncode:
      raise RuntimeError("pip install of contract libs failed: " + r.stderr[-2000:])
  return d


def child_env(variant: str = "plain", hashseed: str | None = "0") -> dict:
  """Environment for a child python that will `import vf.boot; boot.activate()`."""
  env = dict(os.environ)
  env["PYTHONPATH"] = VERIF + os.pathsep + REPO
  env["PYTHONPYCACHEPREFIX"] = os.path.join(BUILD, "pycache")
  env[GUARD] = "1"
  env["VERIF_EXT_VARIANT"] = variant
  env["TYPESHED_HOME"] = empty_typeshed()
  if hashseed is not None:
    env["PYTHONHASHSEED"] = str(hashseed)
  env.pop("PYTHONSTARTUP", None)
  if variant == "asan":
    env["LD_PRELOAD"] = asan_runtime()
    env["ASAN_OPTIONS"] = ("detect_leaks=0:halt_on_error=1:abort_on_error=0:"
                           "exitcode=99:allocator_may_return_null=1")
    env["UBSAN_OPTIONS"] = "print_stacktrace=1:halt_on_error=1:exitcode=99"
  return env


_active = False


def activate(variant: str | None = None):
  """Makes `import pytype...` work in this process (builds if needed)."""
  global _active
  if _active:
    return
  variant = variant or os.environ.get("VERIF_EXT_VARIANT", "plain")
  ext_dir = build_ext(variant)
  os.environ["TYPESHED_HOME"] = empty_typeshed()
  if REPO not in sys.path:
    sys.path.insert(0, REPO)
  deps = ensure_deps()
  if deps not in sys.path:
    sys.path.append(deps)
  import pytype.typegraph  # pylint: disable=g-import-not-at-top
  if ext_dir not in pytype.typegraph.__path__:
    pytype.typegraph.__path__.append(ext_dir)
  from pytype.typegraph import cfg  # noqa: F401
  assert cfg.__file__.startswith(ext_dir), cfg.__file__
  _active = True


def setup_all():
  ensure_deps()
  empty_typeshed()
  with concurrent.futures.ThreadPoolExecutor(2) as ex:
    list(ex.map(build_ext, ["plain", "asan"]))


if __name__ == "__main__":
  setup_all()
  print("setup ok")
