"""Verdict discipline, evidence and known-findings handling shared by checks."""
from __future__ import annotations

import collections
import hashlib
import json
import os
import random
import time

from vf import boot

EVID = os.path.join(boot.VERIF, "evidence")
REPLAY = os.path.join(EVID, "replay")
KNOWN = os.path.join(boot.VERIF, "known_findings.json")


def fp(obj) -> str:
  return hashlib.sha1(json.dumps(obj, sort_keys=True, default=repr).encode()).hexdigest()[:16]


def load_known(pid: str):
  try:
    with open(KNOWN) as f:
      data = json.load(f)
  except FileNotFoundError:
    return {}
  out = {}
  for e in data.get("findings", []):
    if e.get("property") == pid and e.get("status") == "known":
      out[e["key"]] = e
  return out


class Check:
  """Collects what one run of one property check observed."""

  def __init__(self, pid: str, tier: str, seed: int, rule: str, level="exploration"):
    self.pid, self.tier, self.seed, self.rule, self.level = pid, tier, seed, rule, level
    self.t0 = time.time()
    self.evaluations = 0
    self.distinct = set()
    self.samples = []
    self.counters = collections.Counter()
    self.extra = {}
    self.violations = []        # (key, witness)
    self.known_hits = collections.Counter()
    self.known = load_known(pid)
    self.inconclusive_reasons = []
    self.assumptions = []
    self.exhaustive = None
    self.rng = random.Random(f"{pid}-{seed}-samples")
    self._nsample_seen = 0

  # -- observation ------------------------------------------------------
  def case(self, fingerprint, nontrivial: bool, n: int = 1):
    self.evaluations += n
    if nontrivial:
      self.distinct.add(fingerprint if isinstance(fingerprint, str) else fp(fingerprint))

  def merge_cases(self, evaluations: int, fingerprints):
    self.evaluations += evaluations
    self.distinct.update(fingerprints)

  def sample(self, obj, cap: int = 6):
    """Reservoir sample of actual cases."""
    self._nsample_seen += 1
    if len(self.samples) < cap:
      self.samples.append(obj)
    else:
      j = self.rng.randrange(self._nsample_seen)
      if j < cap:
        self.samples[j] = obj

  def count(self, name, n=1):
    self.counters[name] += n

  # -- verdicts ---------------------------------------------------------
  def violation(self, key: str, witness: dict):
    """`key` names the mechanism; listed known findings are not violations."""
    if key in self.known:
      self.known_hits[key] += 1
      return False
    self.violations.append((key, witness))
    return True

  def inconclusive(self, reason: str):
    self.inconclusive_reasons.append(reason)

  def child_failed(self, res: dict, what: str):
    """A worker that died / timed out: sanitizer report => violation, else inconclusive."""
    from vf import pool
    rep = pool.sanitizer_report(res)
    if rep:
      self.violation("sanitizer-report", {"what": what, "report": rep[-6000:]})
    elif res.get("timeout"):
      self.inconclusive(f"{what}: watchdog fired ({res.get('error')})")
    else:
      self.inconclusive(f"{what}: worker failed: {res.get('error')} :: "
                        f"{(res.get('traceback') or res.get('stderr') or '')[-1500:]}")

  # -- output -----------------------------------------------------------
  def finish(self) -> int:
    os.makedirs(REPLAY, exist_ok=True)
    for key, n in sorted(self.known_hits.items()):
      print(f"KNOWN-FINDING: property={self.pid} {key} [{n} case(s) this run]")
    replay_paths = []
    seen_keys = collections.Counter()
    for key, witness in self.violations:
      seen_keys[key] += 1
      if seen_keys[key] > 5:   # keep the output readable; all are counted
        continue
      k = len(replay_paths)
      path = os.path.join(REPLAY, f"{self.pid}-{k}.json")
      with open(path, "w") as f:
        json.dump({"property": self.pid, "key": key, "seed": self.seed,
                   "tier": self.tier, "witness": witness}, f, indent=1, default=repr)
      replay_paths.append(path)
      print(f"VIOLATION property={self.pid} replay={path}")
      print(f"  mechanism: {key}")
    cov = {
        "evaluations": self.evaluations,
        "distinct_nontrivial": len(self.distinct),
        "rule": self.rule,
        "samples": self.samples or ["<none>"],
        "counters": dict(self.counters),
        "known_findings_hit": dict(self.known_hits),
        "violation_mechanisms": dict(seen_keys),
        "inconclusive": self.inconclusive_reasons[:10],
    }
    if self.exhaustive is not None:
      cov["exhaustive"] = self.exhaustive
    cov.update(self.extra)
    ev = {
        "property_id": self.pid, "tier": self.tier, "seed": self.seed,
        "level": self.level, "coverage": cov, "assumptions": self.assumptions,
        "wall_s": round(time.time() - self.t0, 2), "violations": len(self.violations),
    }
    os.makedirs(EVID, exist_ok=True)
    with open(os.path.join(EVID, f"{self.pid}.json"), "w") as f:
      json.dump(ev, f, indent=1, default=repr)
    print(f"[{self.pid} {self.tier} seed={self.seed}] evaluations={self.evaluations} "
          f"distinct_nontrivial={len(self.distinct)} violations={len(self.violations)} "
          f"known={sum(self.known_hits.values())} wall={ev['wall_s']}s")
    for k, v in sorted(self.counters.items()):
      print(f"    {k}: {v}")
    if self.violations:
      return 1
    if self.inconclusive_reasons:
      for r in self.inconclusive_reasons[:5]:
        print(f"INCONCLUSIVE property={self.pid} reason={r[:1500]}")
      return 2
    if self.evaluations == 0 or len(self.distinct) < 2:
      print(f"INCONCLUSIVE property={self.pid} reason=too few observations")
      return 2
    return 0
