"""C02 - annotations are enforced exactly: error iff value is not in the type.

Workload: cross product (annotation grammar x ground value expressions) at the
three enforcement sites; every case has its own def/call/return/assignment
line, so the error line identifies the case.  Oracle: the three-valued
structural `member(eval(value), eval(annotation))` of vf/oracle/member.py,
evaluated on the real run-time value in the worker.  Undecided cases and cases
whose annotation pytype itself rejects are counted and not judged.
"""
from __future__ import annotations

import collections
import random

from vf import common, pool
from vf.gen import ground

PID = "C02"
SITES = ("arg", "return", "assign")
SITE_ERROR = {"arg": "wrong-arg-types", "return": "bad-return-type",
              "assign": "annotation-type-mismatch"}
# errors that mean "pytype did not accept the annotation itself"
ANNOTATION_ERRORS = {"invalid-annotation", "not-supported-yet", "import-error", "name-error",
                     "unsupported-operands", "not-indexable", "pyi-error", "module-attr",
                     "attribute-error", "bad-concrete-type", "invalid-typevar"}


# ---------------------------------------------------------------------------
# child


def build_module(pairs):
  """Returns (source, layout) with layout[i] = {site: (def_line, use_line)}."""
  lines = (ground.C02_TYPING_IMPORT + ground.C02_CLASSES).rstrip("\n").split("\n")
  layout = []
  for i, (ann, val) in enumerate(pairs):
    lay = {}
    lines.append(f"def g_{i}(x: {ann}): pass")
    d = len(lines)
    lines.append(f"g_{i}({val})")
    lay["arg"] = (d, d + 1)
    lines.append(f"def r_{i}() -> {ann}:")
    d = len(lines)
    lines.append(f"  return {val}")
    lay["return"] = (d, d + 1)
    lines.append(f"v_{i}: {ann} = {val}")
    lay["assign"] = (len(lines), len(lines))
    layout.append(lay)
  return "\n".join(lines) + "\n", layout


def runtime_namespace():
  ns = {}
  exec(ground.C02_TYPING_IMPORT + ground.C02_CLASSES, ns)  # pylint: disable=exec-used
  return ns


def oracle(ns, ann_text, val_text):
  """-> (verdict True/False/None, reason string)"""
  from vf.oracle import member as M
  try:
    ann = eval(ann_text, ns)  # pylint: disable=eval-used
    val = eval(val_text, ns)  # pylint: disable=eval-used
  except Exception as e:  # pylint: disable=broad-except
    return None, f"eval failed: {type(e).__name__}: {e}", None
  m = M.member(val, ann)
  causes = None
  if m is False:
    causes = []
    for path, sub_ann, sub_val in M.why(val, ann):
      causes.append({"path": list(path), "ann": ann_repr(sub_ann), "val": val_leaf(sub_val)})
  return m, "", causes


def ann_repr(a):
  import typing
  if a is None or a is type(None):
    return "None"
  if isinstance(a, type) and typing.get_origin(a) is None:
    return a.__name__
  return repr(a).replace("typing.", "").replace("__main__.", "").replace("NoneType", "None")


def val_leaf(v):
  """Short structural description of a value (class names; containers list the set of element descriptions)."""
  import types
  if v is None:
    return "None"
  if isinstance(v, type):
    return f"class:{v.__name__}"
  if isinstance(v, (types.FunctionType, types.BuiltinFunctionType, types.MethodType)):
    return "function"
  if isinstance(v, (list, set, frozenset)):
    inner = sorted({val_leaf(e) for e in v})
    return f"{type(v).__name__}[{'|'.join(inner)}]"
  if isinstance(v, tuple):
    return f"tuple[{', '.join(val_leaf(e) for e in v)}]"
  if isinstance(v, dict):
    ks = sorted({val_leaf(e) for e in v.keys()})
    vs = sorted({val_leaf(e) for e in v.values()})
    return f"dict[{'|'.join(ks)}, {'|'.join(vs)}]"
  return type(v).__name__


def judge_module(pairs, ns):
  from vf import pt
  src, layout = build_module(pairs)
  res = pt.analyze(src)
  by_line = collections.defaultdict(list)
  for name, line, msg in res.errors:
    by_line[line].append((name, msg))
  out = []
  for i, (ann, val) in enumerate(pairs):
    m, note, causes = oracle(ns, ann, val)
    for site in SITES:
      dline, uline = layout[i][site]
      here = by_line.get(uline, [])
      defs = by_line.get(dline, []) if dline != uline else []
      expected_name = SITE_ERROR[site]
      flagged = any(n == expected_name for n, _ in here)
      others = sorted({n for n, _ in here if n != expected_name} | {n for n, _ in defs})
      rec = {"ann": ann, "val": val, "site": site, "member": m, "flagged": flagged,
             "others": others}
      if causes:
        rec["causes"] = causes
      if flagged:
        rec["msg"] = [msg for n, msg in here if n == expected_name][0][:400]
      if note:
        rec["note"] = note
      out.append(rec)
  return out


def child(arg):
  ns = runtime_namespace()
  pairs = [tuple(p) for p in arg["pairs"]]
  size = arg["module_pairs"]
  records = []
  for k in range(0, len(pairs), size):
    records.extend(judge_module(pairs[k:k + size], ns))
  return {"records": records}


# ---------------------------------------------------------------------------
# parent


def grid(tier):
  values = [v for v, _ in ground.C02_VALUES]
  anns = ground.c02_annotations(1 if tier == "quick" else 2)
  return anns, values


def run(tier, seed):
  ck = common.Check(PID, tier, seed, rule="TODO")
  anns, values = grid(tier)
  pairs = [(a, v) for a in anns for v in values]
  rng = random.Random(f"{PID}-{seed}-order")
  rng.shuffle(pairs)
  nb = 64 if tier == "quick" else 512
  per = (len(pairs) + nb - 1) // nb
  tasks = []
  for b in range(nb):
    chunk = pairs[b * per:(b + 1) * per]
    if chunk:
      tasks.append({"fn": "vf.checks.c02:child", "id": f"b{b}", "timeout": 1500,
                    "arg": {"pairs": chunk, "module_pairs": 100}})
  allrecs = []
  for res in pool.run_tasks(tasks):
    if not res.get("ok"):
      ck.child_failed(res, f"batch {res.get('task')}")
      continue
    allrecs.extend(res["result"]["records"])
  import json, os
  with open(os.environ.get("C02_DUMP", "/tmp/c02-dump.json"), "w") as f:
    json.dump(allrecs, f)
  print(len(allrecs))
  return 2


def replay(rec):
  return 0
