"""C02 - annotations are enforced exactly: error iff value is not in the type.

Workload: cross product (annotation grammar x ground value expressions) at the
three enforcement sites

    def g_i(x: T): pass          v_i: T = e          def r_i() -> T:
    g_i(e)                                             return e

Every case has its own def / call / return / assignment line, so the error
line identifies the case.  Oracle: the three-valued structural
`member(eval(e), eval(T))` of vf/oracle/member.py, evaluated on the real
run-time value in the worker.  Undecided cases and cases whose annotation
pytype itself rejects (any error on the def line, any error of another class
on the use line) are counted and not judged.

Mechanism keys.  A disagreement on a composite pair is first *localised*: if a
one-level part of it (an element against the element type, a union branch, a
tuple position) is itself a disagreement of the same direction at the same
site, the composite case takes the key of that part (same mechanism, wrapped).
Otherwise the key is built from skeletons:

  missed, value has the outer shape T asks for but some element is not in the
  element type:   K[.]|mixed  or  K[.]|no-member   (K = outer constructor;
                  mixed = every position has some member, some non-member)
  missed, other:  <annotation skeleton>|<value head>
  spurious:       <annotation skeleton>|<value skeleton>

where a skeleton keeps every constructor, keeps the name of a top-level
builtin leaf (bool, Hashable, ...) and replaces nested leaves by their kind
(scalar, None, top, user).  `v: T = None` is keyed `any|None` (pytype allows a
None initial value for every T).  If the same key fires at all three sites of a
pair it is reported once with site `all-sites`.

Every disagreement is confirmed by posing the pair again in a module of its
own (phase 2).  One that does not reproduce alone is a context-dependent
disagreement (pytype's verdict depends on the cases that precede it in the
module): reported as `context-dependent|<direction>|<value head>` (in the
fixed-order "twin constant" modules, whose composition does not depend on the
seed: `context-dependent|<direction>|<annotation skeleton>|<value head>`).
"""
from __future__ import annotations

import zlib
import collections
import random

from vf import common, pool
from vf.gen import ground

PID = "C02"
SITES = ("arg", "return", "assign")
SITE_ERROR = {"arg": "wrong-arg-types", "return": "bad-return-type",
              "assign": "annotation-type-mismatch"}
MODULE_PAIRS = 100


# ---------------------------------------------------------------------------
# child side: build, analyse, evaluate the oracle


def build_module(pairs):
  """Returns (source, layout) with layout[i] = {site: (def_line, use_line)}."""
  lines = (ground.C02_TYPING_IMPORT + ground.C02_CLASSES).rstrip("\n").split("\n")
  layout = []
  for i, (ann, val) in enumerate(pairs):
    lay = {}
    # the argument site rotates through four binding forms, chosen by the pair's text (so the same pair gets the
    # same form in a shared module and alone): positional, by keyword, keyword-only, keyword-only after *args
    form = zlib.crc32(f"{ann}|{val}".encode()) % 4
    sig, call = [("x: {a}", "{v}"), ("x: {a}", "x={v}"), ("*, x: {a}", "x={v}"), ("*rest, x: {a}", "x={v}")][form]
    lines.append(f"def g_{i}({sig.format(a=ann)}): pass")
    d = len(lines)
    lines.append(f"g_{i}({call.format(v=val)})")
    lay["arg"] = (d, d + 1)
    lines.append(f"def r_{i}() -> {ann}:")
    d = len(lines)
    lines.append(f"  return {val}")
    lay["return"] = (d, d + 1)
    lines.append(f"v_{i}: {ann} = {val}")
    lay["assign"] = (len(lines), len(lines))
    layout.append(lay)
  return "\n".join(lines) + "\n", layout


def runtime_namespace():
  ns = {}
  exec(ground.C02_TYPING_IMPORT + ground.C02_CLASSES, ns)  # pylint: disable=exec-used
  return ns


USER = ("A", "B", "C", "D", "S", "U")
SCALARS = (int, float, complex, str, bytes, bool, bytearray)


def canon(a):
  """Canonical text of an annotation object (grid texts and sub-annotations agree on it)."""
  import typing
  if a is None or a is type(None):
    return "None"
  if a is Ellipsis:
    return "..."
  if isinstance(a, list):
    return "[" + ", ".join(canon(x) for x in a) + "]"
  if isinstance(a, type) and typing.get_origin(a) is None:
    return a.__name__
  if a is typing.Any:
    return "Any"
  origin, args = typing.get_origin(a), typing.get_args(a)
  if origin is None:
    return repr(a).replace("typing.", "")
  name = getattr(a, "_name", None) or getattr(origin, "__name__", repr(origin))
  if origin is typing.Union:
    if len(args) == 2 and type(None) in args:
      other = args[0] if args[1] is type(None) else args[1]
      return f"Optional[{canon(other)}]"
    name = "Union"
  if origin is tuple and not args:
    return "Tuple[()]" if a is not typing.Tuple else "Tuple"
  if not args:
    return str(name)
  return f"{name}[{', '.join(canon(x) for x in args)}]"


def _leaf_kind(a):
  import typing
  if a is None or a is type(None):
    return "None"
  if a is typing.Any or a is object:
    return "top"
  if isinstance(a, type):
    if a.__name__ in USER:
      return "user"
    if a in SCALARS:
      return "scalar"
    return a.__name__
  return canon(a)


def ann_skeleton(a, top=True):
  """Keeps every constructor; top-level builtin leaf keeps its name; nested leaves -> kind."""
  import typing
  if isinstance(a, list):
    return "[" + ", ".join(ann_skeleton(x, False) for x in a) + "]"
  if a is Ellipsis:
    return "..."
  origin, args = typing.get_origin(a), typing.get_args(a)
  if origin is None or not args:
    if top:
      if isinstance(a, type) and a.__name__ in USER:
        return "user"
      return canon(a)
    if origin is not None:       # bare Hashable / Sized / Tuple[()] nested
      return canon(a)
    return _leaf_kind(a)
  c = canon(a)
  name = c[:c.index("[")]
  if name == "Optional":
    args = [x for x in args if x is not type(None)]
  return f"{name}[{', '.join(ann_skeleton(x, False) for x in args)}]"


def ann_head(a):
  c = canon(a)
  return c[:c.index("[")] if "[" in c and not c.startswith("Tuple[()]") else c


def vdesc(v):
  """Class-level description of a value; equal descriptions are interchangeable for pytype and the oracle."""
  import types
  if v is None:
    return "None"
  if isinstance(v, type):
    return f"class:{v.__name__}"
  if isinstance(v, (types.FunctionType, types.BuiltinFunctionType, types.MethodType)):
    return "function:" + getattr(v, "__name__", "?")
  if isinstance(v, (list, set, frozenset)):
    inner = sorted({vdesc(e) for e in v})
    return f"{type(v).__name__}[{'|'.join(inner)}]"
  if isinstance(v, tuple):
    return f"tuple[{', '.join(vdesc(e) for e in v)}]"
  if isinstance(v, dict):
    ks = sorted({vdesc(e) for e in v.keys()})
    vs = sorted({vdesc(e) for e in v.values()})
    return f"dict[{'|'.join(ks)}: {'|'.join(vs)}]"
  return type(v).__name__


def _vkind(v):
  import types
  if v is None:
    return "None"
  if isinstance(v, type):
    return "class"
  if isinstance(v, (types.FunctionType, types.BuiltinFunctionType, types.MethodType)):
    return "function"
  if type(v).__name__ in USER:
    return "user"
  if type(v) in SCALARS:
    return "scalar"
  return None


def value_head(v, ann=None):
  """Top-level class of a value (builtin names kept; user instance with its relation to a user-class annotation)."""
  k = _vkind(v)
  if k in ("None", "class", "function"):
    return k
  if k == "user":
    rel = ""
    if isinstance(ann, type) and ann.__name__ in USER:
      t = type(v)
      rel = ("=same" if t is ann else "=sub" if issubclass(t, ann) else
             "=super" if issubclass(ann, t) else "=unrelated")
    return "user-inst" + rel
  if isinstance(v, tuple):
    return f"tuple/{len(v)}"
  return type(v).__name__


def value_skeleton(v, top=True):
  k = _vkind(v)
  if k is not None:
    if top and k in ("scalar",):
      return type(v).__name__
    return k if k != "user" else "user-inst"
  if isinstance(v, (list, set, frozenset)):
    return f"{type(v).__name__}[{'|'.join(sorted({value_skeleton(e, False) for e in v}))}]"
  if isinstance(v, tuple):
    return f"tuple[{', '.join(value_skeleton(e, False) for e in v)}]"
  if isinstance(v, dict):
    ks = "|".join(sorted({value_skeleton(e, False) for e in v.keys()}))
    vs = "|".join(sorted({value_skeleton(e, False) for e in v.values()}))
    return f"dict[{ks}: {vs}]"
  return type(v).__name__


def describe(ns, ann_text, val_text):
  """Everything the parent needs about one (annotation, value) pair; no pytype involved."""
  from vf.oracle import member as M
  try:
    ann = eval(ann_text, ns)  # pylint: disable=eval-used
    val = eval(val_text, ns)  # pylint: disable=eval-used
  except Exception as e:  # pylint: disable=broad-except
    return {"member": None, "note": f"eval failed: {type(e).__name__}: {e}"}
  m = M.member(val, ann)
  d = {"member": m, "canon": canon(ann), "vdesc": vdesc(val), "vhead": value_head(val),
       "ask": ann_skeleton(ann)}
  if m is None:
    return d
  # pieces for localisation and keys
  ps = M.parts(val, ann)
  pm = [(M.member(sv, sa), canon(sa), vdesc(sv)) for sv, sa in ps]
  import typing
  if m is False:
    d["parts"] = [[c, vd] for mm, c, vd in pm if mm is False]
    if ps and typing.get_origin(ann) is not typing.Union:
      # per position of the constructor: does it hold a member at all?
      by_pos = collections.defaultdict(list)
      for (sv, sa), (mm, c, vd) in zip(ps, pm):
        by_pos[c].append(mm)
      shape = "mixed"
      for c, ms in by_pos.items():
        if False in ms and True not in ms:
          shape = "no-member"
      d["own"] = f"{ann_head(ann)}[.]|{shape}"
    elif ps:
      d["own"] = f"{ann_skeleton(ann)}|no-branch|{value_head(val)}"
    else:
      d["own"] = f"{ann_skeleton(ann)}|{value_head(val, ann)}"
    d["why"] = [{"path": list(p), "ann": canon(sa), "val": vdesc(sv)}
                for p, sa, sv in M.why(val, ann)][:4]
  else:
    d["parts"] = [[c, vd] for mm, c, vd in pm if mm is True]
    d["own"] = f"{ann_skeleton(ann)}|{value_skeleton(val)}"
  return d


def judge_module(pairs, ns):
  """-> list of per-pair dicts {ann, val, member, canon, vdesc, sites:{site: {flagged, others, msg}} ...}"""
  from vf import pt
  src, layout = build_module(pairs)
  res = pt.analyze(src)
  by_line = collections.defaultdict(list)
  for name, line, msg in res.errors:
    by_line[line].append((name, msg))
  out = []
  for i, (ann, val) in enumerate(pairs):
    d = describe(ns, ann, val)
    d["ann"], d["val"] = ann, val
    sites = {}
    for site in SITES:
      dline, uline = layout[i][site]
      here = by_line.get(uline, [])
      defs = by_line.get(dline, []) if dline != uline else []
      want = SITE_ERROR[site]
      flagged = any(n == want for n, _ in here)
      others = sorted({n for n, _ in here if n != want} | {"def:" + n for n, _ in defs})
      s = {"flagged": flagged}
      if others:
        s["others"] = others
      if flagged and d.get("member") is True:
        s["msg"] = [msg for n, msg in here if n == want][0][:300]
      sites[site] = s
    d["sites"] = sites
    out.append(d)
  return out


def child(arg):
  ns = runtime_namespace()
  if "modules" in arg:
    modules = [[tuple(p) for p in m] for m in arg["modules"]]
  else:
    pairs = [tuple(p) for p in arg["pairs"]]
    size = arg.get("module_pairs", MODULE_PAIRS)
    modules = [pairs[k:k + size] for k in range(0, len(pairs), size)]
  out = []
  for k, module in enumerate(modules):
    for d in judge_module(module, ns):
      d["mod"] = k
      # compact: drop oracle detail of agreeing / undecided pairs
      dis = False
      if d.get("member") is not None:
        for s in d["sites"].values():
          if not s.get("others") and s["flagged"] == d["member"]:
            dis = True
      if not dis:
        for k2 in ("parts", "own", "why"):
          d.pop(k2, None)
      out.append(d)
  return {"pairs": out}


def child_isolated(arg):
  """Every pair in a module of its own: the canonical posing of a case."""
  ns = runtime_namespace()
  out = []
  for p in arg["pairs"]:
    d = judge_module([tuple(p)], ns)[0]
    out.append({"ann": d["ann"], "val": d["val"], "member": d.get("member"), "sites": d["sites"]})
  return {"pairs": out}


# ---------------------------------------------------------------------------
# parent side


def verdict(d, site):
  """'agree' | 'missed' | 'spurious' | 'undecided' | 'unjudged'"""
  s = d["sites"][site]
  if s.get("others"):
    return "unjudged"
  if d.get("member") is None:
    return "undecided"
  if d["member"] and s["flagged"]:
    return "spurious"
  if not d["member"] and not s["flagged"]:
    return "missed"
  return "agree"


class Keyer:
  """Localises disagreements through the table of all verdicts of this run."""

  def __init__(self, recs):
    self.table = {}
    for d in recs:
      if "canon" in d:
        self.table.setdefault((d["canon"], d["vdesc"]), d)
    self.lookups = self.lookup_missing = self.localised = 0

  def sitefree(self, d, site, direction, depth=0):
    if direction == "missed" and site == "assign" and d["vdesc"] == "None" and depth == 0:
      return "any|None"
    # the None-initial-value rule of the assignment site only concerns the whole
    # value; for a part the assignment site checks like the return site
    psite = "return" if site == "assign" else site
    if depth < 4:
      for c, vd in d.get("parts") or []:
        self.lookups += 1
        sub = self.table.get((c, vd))
        if sub is None:
          self.lookup_missing += 1
          continue
        if verdict(sub, psite) == direction and "own" in sub:
          if depth == 0:
            self.localised += 1
          return self.sitefree(sub, psite, direction, depth + 1)
    return d["own"]


def grid(tier):
  return ground.c02_annotations(tier), ground.c02_values(tier)


RULE = ("cross product of the annotation grammar (quick: depth<=1 over a leaf subset, thorough: "
        "depth<=2) and the ground value list at the three sites, plus a targeted depth-2 slice "
        "(homogeneous views over parameterised element types x 2-3 element containers in every "
        "order of conforming / non-conforming-inner elements); evaluations = judged (pair, site) "
        "cases, i.e. the oracle decided and pytype accepted the annotation; non-trivial = judged case "
        "where an error is expected or the annotation has at least one type constructor; distinct by "
        "(annotation, value, site)")


def run(tier, seed):
  ck = common.Check(PID, tier, seed, rule=RULE)
  anns, values = grid(tier)
  pairs = [(a, v) for a in anns for v in values]
  have = set(pairs)
  nested = [p for p in ground.c02_nested_slice() if p not in have]
  pairs += nested
  have.update(nested)
  wrapped = [p for p in ground.c02_union_container_slice() if p not in have]
  pairs += wrapped
  rng = random.Random(f"{PID}-{seed}-order")
  rng.shuffle(pairs)            # which cases share a module depends on the seed; verdicts must not
  nchild = 32 if tier == "quick" else 128     # whole rounds of the 16-worker pool
  per = (len(pairs) + nchild - 1) // nchild
  tasks = []
  for b, k in enumerate(range(0, len(pairs), per)):
    chunk = pairs[k:k + per]
    tasks.append({"fn": "vf.checks.c02:child", "id": f"b{b}", "timeout": 7200,
                  "arg": {"modules": [chunk[j:j + MODULE_PAIRS]
                                      for j in range(0, len(chunk), MODULE_PAIRS)]}})
  # fixed-order modules of ==-equal, differently typed constants (not shuffled)
  twins = ground.c02_twin_modules()
  tasks.insert(0, {"fn": "vf.checks.c02:child", "id": "twins", "timeout": 7200,
                   "arg": {"modules": twins}})
  recs = []
  batches = {t["id"]: t["arg"]["modules"] for t in tasks}
  for res in pool.run_tasks(tasks):
    if not res.get("ok"):
      ck.child_failed(res, f"batch {res.get('task')}")
      continue
    for d in res["result"]["pairs"]:
      d["batch"] = res.get("task")
      recs.append(d)
  # phase 2: every disagreeing pair is posed again in a module of its own
  cands = sorted({(d["ann"], d["val"]) for d in recs
                  if any(verdict(d, s) in ("missed", "spurious") for s in SITES)})
  iso = {}
  if cands:
    n2 = min(16, len(cands))
    per2 = (len(cands) + n2 - 1) // n2
    tasks2 = [{"fn": "vf.checks.c02:child_isolated", "id": f"iso{b}", "timeout": 7200,
               "arg": {"pairs": cands[k:k + per2]}}
              for b, k in enumerate(range(0, len(cands), per2))]
    for res in pool.run_tasks(tasks2):
      if not res.get("ok"):
        ck.child_failed(res, f"isolation batch {res.get('task')}")
        continue
      for d in res["result"]["pairs"]:
        iso[(d["ann"], d["val"])] = d
  import os, json
  if os.environ.get("C02_DUMP"):
    with open(os.environ["C02_DUMP"], "w") as f:
      json.dump({"recs": recs, "iso": list(iso.values())}, f)
  evaluate(ck, recs, iso, batches)
  ck.count("pairs_generated", len(pairs))
  ck.count("pairs_of_targeted_nested_slice", len(nested))
  ck.count("pairs_of_union_over_container_slice", len(wrapped))
  ck.count("pairs_in_twin_constant_modules", sum(len(m) for m in twins))
  ck.extra["grid"] = {"annotations": len(anns), "values": len(values), "sites": 3}
  ck.exhaustive = False
  ck.extra["exhaustive_slice"] = ("the whole annotation x value x site grid of this tier is "
                                  "enumerated (no sampling); the seed only permutes module membership")
  ck.assumptions = [
      "member() implements PEP 484 membership on run-time values; undecided is never a verdict",
      "a list whose elements all inhabit T inhabits List[T] (value-level reading of invariance)",
      "an error of another class on the use line or any error on the def line means pytype did "
      "not accept the case as posed: not judged",
  ]
  if ck.evaluations == 0:
    ck.inconclusive("no case was judged")
  return ck.finish()


def evaluate(ck, recs, iso=None, batches=None):
  """iso: (ann, val) -> the same pair analysed in a module of its own (None: skip confirmation)."""
  recs = sorted(recs, key=lambda d: (d["ann"], d["val"]))
  keyer = Keyer(recs)
  fps = set()
  n_eval = 0
  err_names = collections.Counter()
  for d in recs:
    per_site = {}
    for site in SITES:
      v = verdict(d, site)
      ck.count("verdict_" + v)
      if v == "unjudged":
        for o in d["sites"][site]["others"]:
          err_names[o] += 1
        continue
      if v == "undecided":
        continue
      n_eval += 1
      expect_error = not d["member"]
      ck.count("expected_error" if expect_error else "expected_clean")
      if expect_error or "[" in d["ann"]:
        fps.add(common.fp([d["ann"], d["val"], site]))
      if v in ("missed", "spurious"):
        if iso is not None:
          alone = iso.get((d["ann"], d["val"]))
          if alone is None:
            ck.count("disagreements_without_isolated_rerun")
            ck.inconclusive(f"no isolated re-run for {d['ann']} <- {d['val']}")
            continue
          if verdict(alone, site) != v:
            # pytype's verdict on this case depends on the other cases of the module
            ck.count("context_dependent_" + v)
            ckey = f"context-dependent|{v}|{d['vhead']}"
            if d.get("batch") == "twins":
              # fixed-order module: its composition does not depend on the seed,
              # so the key can name the annotation shape as well
              ckey = f"context-dependent|{v}|{d.get('ask', '?')}|{d['vhead']}"
            ck.violation(ckey, {
                "annotation": d["ann"], "value": d["val"], "site": site, "direction": v,
                "oracle_member": d["member"], "flagged_in_shared_module": d["sites"][site]["flagged"],
                "flagged_alone": alone["sites"][site]["flagged"],
                "module_pairs": (((batches or {}).get(d.get("batch")) or [[]])
                                 + [[]] * (d.get("mod", 0) + 1))[d.get("mod", 0)],
                "note": "the disagreement only appears when the other cases of module_pairs share "
                        "the module"})
            continue
        f1 = v == "missed" and site == "assign" and d["vdesc"] == "None"
        per_site[site] = (v, keyer.sitefree(d, site, v), "any|None" if f1 else d["own"])
    if not per_site:
      continue
    groups = collections.defaultdict(list)
    locs = {k for _, k, _ in per_site.values()}
    if len(per_site) == 3 and len(locs) > 1 and len({o for _, _, o in per_site.values()}) == 1:
      # all three sites disagree but localisation differs between them: the
      # un-localised skeleton of the pair is the common mechanism
      per_site = {s: (v, o, o) for s, (v, _, o) in per_site.items()}
    for site, (v, k, _) in per_site.items():
      groups[(v, k)].append(site)
    for (v, k), sites in sorted(groups.items()):
      if len(sites) == 3:
        labels = [("all-sites", sites)]
      else:
        labels = [(s, [s]) for s in sites]
      for label, ss in labels:
        key = f"{v}|{label}|{k}"
        ck.count("disagreements_" + v)
        ck.violation(key, {
            "annotation": d["ann"], "value": d["val"], "sites": ss, "direction": v,
            "oracle_member": d["member"], "pytype_flagged": {s: d["sites"][s]["flagged"] for s in ss},
            "why_not_member": d.get("why"), "own_skeleton_key": d.get("own"),
            "pytype_message": next((d["sites"][s].get("msg") for s in ss if d["sites"][s].get("msg")), None),
            "program": build_module([(d["ann"], d["val"])])[0]})
  ck.merge_cases(n_eval, fps)
  ck.count("localised_to_a_part", keyer.localised)
  ck.count("part_lookups", keyer.lookups)
  ck.count("part_lookups_outside_grid", keyer.lookup_missing)
  if err_names:
    ck.extra["unjudged_error_classes"] = dict(err_names)
  sample_rng = random.Random(f"{PID}-{ck.seed}-s")
  for d in sample_rng.sample(recs, min(6, len(recs))):
    ck.sample({"annotation": d["ann"], "value": d["val"], "oracle_member": d.get("member"),
               "flagged": {s: d["sites"][s]["flagged"] for s in SITES}})


def replay(rec):
  w = rec["witness"]
  ns = runtime_namespace()
  if str(rec.get("key", "")).startswith("context-dependent"):
    mp = [tuple(p) for p in w.get("module_pairs") or []]
    target = (w["annotation"], w["value"])
    if target not in mp:
      print("witness without its module: re-run the check with the same seed")
      return 2
    dm = judge_module(mp, ns)[mp.index(target)]
    da = judge_module([target], ns)[0]
    vm, va = verdict(dm, w["site"]), verdict(da, w["site"])
    print({"annotation": target[0], "value": target[1], "site": w["site"],
           "oracle_member": dm.get("member"), "verdict_in_module": vm, "verdict_alone": va})
    if vm in ("missed", "spurious") and rec.get("key") not in common.load_known(PID):
      print(f"VIOLATION property={PID} replay=<replayed>")
      print(f"  mechanism: {rec.get('key')}")
      return 1
    print("replay: no (unlisted) disagreement")
    return 0
  d = judge_module([(w["annotation"], w["value"])], ns)[0]
  bad = [(s, verdict(d, s)) for s in w["sites"] if verdict(d, s) in ("missed", "spurious")]
  print({"annotation": w["annotation"], "value": w["value"], "oracle_member": d.get("member"),
         "flagged": {s: d["sites"][s]["flagged"] for s in SITES}})
  if bad and rec.get("key") not in common.load_known(PID):
    print(f"VIOLATION property={PID} replay=<replayed>")
    print(f"  mechanism: {rec.get('key')}  still disagrees at {bad}")
    return 1
  print("replay: no (unlisted) disagreement")
  return 0
