"""C06 - a module seen through its emitted stub keeps the inferred types.

For every generated upstream program A (>= 3 public names) the real pipeline is
run: A is analysed under a module name (`a` or `pkg.sub.a`), its stub text S_A
is written as a .pyi and its AST is written with io.write_pickle
(serialize_ast.PrepareForExport + pickle_utils).  A downstream module B

    import a                     (or `import pkg.sub.a` / `from pkg.sub import a`)
    x = a.x                      for every public constant / function
    zz_k_C = a.C                 for every public class (another local name, so that a bare `C`
                                 in the downstream stub can only be a missing module prefix)
    zz_c_C = a.C(<ground args>)  when the stub constructor can be satisfied
    zz_at_C_attr = zz_c_C.attr   for every attribute along the stub MRO
    zz_m_C_m = zz_c_C.m(...)     for methods whose parameters are simple
    zz_r_f = a.f(<ground args>)  for functions whose parameters are simple

is analysed three times: S_A as a.pyi on --pythonpath, as an --imports_info
entry, and as the pickled AST (--imports_info + use_pickled_files).

Oracle (vf/oracle/c06_types.py, stdlib `ast` on the stub *texts* only): the type
of every such name in S_B equals what S_A declares, order-insensitively after
normalisation; no [import-error]/[pyi-error]/[attribute-error]/[module-attr] in
B's log; S_B and B's error log identical across the three transports.  What the
oracle cannot compute is skipped and counted.
"""
from __future__ import annotations

import os
import random
import shutil

from vf import boot, common, pool

PID = "C06"
BAD_ERRORS = ("import-error", "pyi-error", "attribute-error", "module-attr")
# a call the oracle built to satisfy the *upstream stub's* signature must be accepted downstream
CALL_ERRORS = ("missing-parameter", "wrong-arg-count", "wrong-keyword-args", "wrong-arg-types",
               "not-callable", "duplicate-keyword-argument")
CALL_KINDS = ("call", "mcall", "vmcall", "instance")
TRANSPORTS = ("pythonpath", "imports_info", "pickled")


# ---------------------------------------------------------------------------
# building the downstream module


def build_downstream(stub, modname, rng, import_style, pairs=()):
  """Returns (source, probes).  probe = dict(kind, bname, line, expect | skip, what)."""
  from vf.oracle import c06_types as T
  if import_style == "from" and "." in modname:
    pkg, leaf = modname.rsplit(".", 1)
    lines = [f"from {pkg} import {leaf}"]
    ref = leaf
  else:
    lines = [f"import {modname}"]
    ref = modname
  probes = []
  typed_values = []          # (variable of B, class of the stub it is declared to hold)

  def add(src, probe):
    lines.append(src)
    probe["line"] = len(lines)
    probe["src"] = src
    probes.append(probe)
    e = probe.get("expect")
    if e is not None and e[0] == "n" and e[1] in stub.classes and probe["kind"] not in ("class",):
      typed_values.append((probe["bname"], e[1], probe["kind"]))

  def skipped(probe, reason):
    probe["skip"] = str(reason)
    probe["line"] = None
    probes.append(probe)

  public = lambda n: not any(part.startswith("_") for part in n.split("."))
  ident = lambda n: n.replace(".", "_")

  def member_probes(var, cname, tag, akind, mkind):
    """Attribute reads and method calls on `var`, declared to be an instance of stub class cname."""
    try:
      members = sorted(stub.all_members(cname).items())
    except T.Skip as e:
      skipped({"kind": akind, "bname": f"{tag}_*", "what": f"{cname} members"}, e)
      return
    for member, _ in members:
      if member.startswith("__"):
        continue
      kind, owner, payload = stub.lookup_member(cname, member)
      if kind == "attr":
        p = {"kind": akind, "bname": f"{tag}_{member}", "what": f"<{cname}>.{member}"}
        try:
          t = stub.N.t(payload)
          if t[0] == "g" and t[1] == "Annotated" and len(t[2]) == 2 and \
             t[2][1] in (("c", "'property'"), ("n", "property")):
            t = t[2][0]
            p["property"] = True
          if T.names_in(t) & set(stub.typevars):
            raise T.Skip("attribute type mentions a TypeVar")
          p["expect"] = t
        except T.Skip as e:
          p["skip"] = str(e)
        add(f"{tag}_{member} = {var}.{member}", p)
      elif kind == "method":
        p = {"kind": mkind, "bname": f"{tag}_{member}", "what": f"<{cname}>.{member}(...)"}
        try:
          if len(payload) != 1:
            raise T.Skip("overloaded method")
          fn = payload[0]
          sig = stub.signature(fn)
          decos = set(sig["decorators"])
          if decos - {"staticmethod", "classmethod"}:
            raise T.Skip("decorated method: " + ",".join(sorted(decos)))
          drop = "staticmethod" not in decos
          args, binding = T.call_args(stub, fn, drop_first=drop, ref=ref)
          self_tv = None
          if drop and sig["params"] and sig["params"][0][2] is not None:
            st = sig["params"][0][2]
            if st[0] == "n" and st[1] in stub.typevars and "classmethod" not in decos:
              self_tv = st[1]
            else:
              raise T.Skip("annotated self/cls of another form")
          p["expect"] = T.result_type(stub, fn, binding, self_type=("n", cname), self_tv=self_tv)
          add(f"{tag}_{member} = {var}.{member}({args})", p)
        except T.Skip as e:
          skipped(p, e)

  # -- constants (+ one element of container-typed ones)
  for name in sorted(stub.consts):
    if public(name):
      p = {"kind": "const", "bname": name, "what": name}
      t = None
      try:
        t = p["expect"] = stub.const_type(name)
      except T.Skip as e:
        p["skip"] = str(e)
      add(f"{name} = {ref}.{name}", p)
      if t is not None:
        try:
          sub, et = T.element_probe(t)
          add(f"zz_e_{name} = {ref}.{name}{sub}",
              {"kind": "elem", "bname": f"zz_e_{name}", "what": f"{name}{sub}", "expect": et})
        except T.Skip:
          pass
  # -- expressions the upstream module evaluated itself (`n = rec.get_key()`), recomputed by B
  #    through the stub: B must get the type A's analysis inferred for n
  for a_name, expr in pairs:
    p = {"kind": "pair", "bname": f"zz_p_{a_name}", "what": expr.replace("{M}.", "")}
    if a_name not in stub.consts:
      skipped(p, "the upstream stub does not declare the paired name as a constant")
      continue
    try:
      p["expect"] = stub.const_type(a_name)
    except T.Skip as e:
      skipped(p, e)
      continue
    add(f"zz_p_{a_name} = " + expr.replace("{M}", ref), p)
  # -- functions: re-export + call
  for name in sorted(stub.funcs):
    if not public(name):
      continue
    defs = stub.funcs[name]
    p = {"kind": "func", "bname": name, "what": name}
    if len(defs) != 1:
      p["skip"] = "overloaded / redefined in the stub"
    else:
      try:
        p["expect_sig"] = stub.signature(defs[0])
      except T.Skip as e:
        p["skip"] = str(e)
    add(f"{name} = {ref}.{name}", p)
    if len(defs) == 1:
      p = {"kind": "call", "bname": f"zz_r_{name}", "what": f"{name}(...)"}
      try:
        args, binding = T.call_args(stub, defs[0], drop_first=False, ref=ref)
        p["expect"] = T.result_type(stub, defs[0], binding)
        add(f"zz_r_{name} = {ref}.{name}({args})", p)
      except T.Skip as e:
        skipped(p, e)
  # -- classes (nested ones by dotted name): re-export, construct, read members
  for qual in sorted(stub.classes):
    if not public(qual):
      continue
    add(f"zz_k_{ident(qual)} = {ref}.{qual}", {"kind": "class", "bname": f"zz_k_{ident(qual)}", "what": qual,
                                               "expect": ("g", "type", (("n", qual),))})
    inst = f"zz_c_{ident(qual)}"
    p = {"kind": "instance", "bname": inst, "what": f"{qual}(...)"}
    try:
      src = T.construct(stub, qual, ref)
      p["expect"] = ("n", qual)
      add(f"{inst} = {src}", p)
    except T.Skip as e:
      skipped(p, e)
      continue
    member_probes(inst, qual, f"zz_m_{ident(qual)}", "attr", "mcall")
  # -- values B only *reads* from A (declared types): members of what they are declared to hold.
  #    (nested classes first; capped to keep B small)
  first_round = [tv for tv in typed_values if tv[2] != "instance"]
  first_round.sort(key=lambda tv: (0 if "." in tv[1] else 1, tv[0]))
  budget = 14
  seen_cls_kind = set()
  for var, cname, kind in first_round:
    key = (cname, kind)
    if key in seen_cls_kind:
      continue
    seen_cls_kind.add(key)
    if budget <= 0:
      break
    budget -= 1
    member_probes(var, cname, f"zz_v_{var}", "vattr", "vmcall")
  return "\n".join(lines) + "\n", probes


# ---------------------------------------------------------------------------
# the pipeline for one upstream program


def _write(path, text, mode="w"):
  os.makedirs(os.path.dirname(path), exist_ok=True)
  with open(path, mode) as f:
    f.write(text)


def upstream(a_src, modname, root):
  """Analyses A like `pytype-single --pickle-output`; returns (stub text, errors)."""
  from pytype import config, io
  from vf import pt
  rel = modname.replace(".", "/")
  src_path = os.path.join(root, "src", rel + ".py")
  _write(src_path, a_src)
  pk_path = os.path.join(root, "pk", rel + ".pickled")
  os.makedirs(os.path.dirname(pk_path), exist_ok=True)
  opts = config.Options.create(src_path, output=pk_path, pickle_output=True,
                               module_name=modname, python_version=(3, 12))
  ret = io.check_or_generate_pyi(opts)
  errs = pt.errors_of(ret.context.errorlog)
  io.write_pickle(ret.ast, opts, ret.context.loader)
  ret.context.program = None
  txt_path = os.path.join(root, "txt", rel + ".pyi")
  _write(txt_path, ret.pyi)
  # package markers for the text transports
  parts = modname.split(".")[:-1]
  for i in range(1, len(parts) + 1):
    _write(os.path.join(root, "txt", *parts[:i], "__init__.pyi"), "")
  # --imports_info files
  lines = [f"{rel}.pyi {txt_path}"]
  for i in range(1, len(parts) + 1):
    d = "/".join(parts[:i])
    lines.append(f"{d}/__init__.pyi {os.path.join(root, 'txt', d, '__init__.pyi')}")
  _write(os.path.join(root, "imports_text"), "\n".join(lines) + "\n")
  # pickled: intermediate packages are left to imports_map_loader (os.devnull entries)
  _write(os.path.join(root, "imports_pickled"), f"{rel}.pickled {pk_path}\n")
  return ret.pyi, errs


def downstream(b_src, root, transport):
  from vf import pt
  if transport == "pythonpath":
    r = pt.analyze(b_src, pythonpath=os.path.join(root, "txt"), module_name="b")
  elif transport == "imports_info":
    r = pt.analyze(b_src, imports_map=os.path.join(root, "imports_text"), module_name="b")
  else:
    r = pt.analyze(b_src, imports_map=os.path.join(root, "imports_pickled"),
                   use_pickled_files=True, module_name="b")
  return r.pyi, [list(e) for e in r.errors]


def skeleton(t, classes, depth=0):
  """Mechanism-level shape of a type: upstream class names abstracted, depth-capped."""
  if t is None:
    return "<none>"
  k = t[0]
  if k == "n":
    return "<A-class>" if t[1] in classes else t[1]
  if depth >= 2:
    return "..." if k != "e" else "..."
  if k == "u":
    return "Union[" + ", ".join(sorted({skeleton(x, classes, depth + 1) for x in t[1]})) + "]"
  if k == "g":
    return t[1] + "[" + ", ".join(skeleton(x, classes, depth + 1) for x in t[2]) + "]"
  if k == "l":
    return "[" + ", ".join(skeleton(x, classes, depth + 1) for x in t[1]) + "]"
  if k == "c":
    return "<literal>"
  return "..."


def _head(t, classes):
  k = t[0]
  if k == "n":
    return "<A-class>" if t[1] in classes else t[1]
  return {"u": "Union", "g": t[1] if k == "g" else "", "l": "[...]", "c": "<literal>", "e": "..."}[k]


def diff_mechanism(e, g, classes):
  """Describes the smallest differing sub-term of two normalised types (path-free)."""
  if e is None or g is None:
    return f"{'<none>' if e is None else _head(e, classes)} became {'<none>' if g is None else _head(g, classes)}"
  if g == ("n", "Any"):
    return f"{_head(e, classes)} became Any"
  if e[0] == "u" or g[0] == "u":
    em = set(e[1]) if e[0] == "u" else {e}
    gm = set(g[1]) if g[0] == "u" else {g}
    lost, gained = em - gm, gm - em
    if len(lost) == 1 and len(gained) == 1:
      return "in a union: " + diff_mechanism(next(iter(lost)), next(iter(gained)), classes)
    hs = lambda xs: ", ".join(sorted({_head(x, classes) for x in xs}))
    return f"union lost {{{hs(lost)}}} gained {{{hs(gained)}}}"
  if e[0] == g[0] and e[0] in ("g", "l") and (e[0] == "l" or e[1] == g[1]):
    ea, ga = (e[2], g[2]) if e[0] == "g" else (e[1], g[1])
    h = _head(e, classes)
    if len(ea) != len(ga):
      return f"{h}[{len(ea)} parameter(s)] became {h}[{len(ga)} parameter(s)]"
    ds = [(a, b) for a, b in zip(ea, ga) if a != b]
    if len(ds) == 1:
      return diff_mechanism(ds[0][0], ds[0][1], classes)
    return f"{h}[...]: {len(ds)} parameters differ"
  he, hg = _head(e, classes), _head(g, classes)
  if he == hg and e[0] == "g" and g[0] == "n":
    return f"{he}[...] lost its type arguments"
  if he == hg and e[0] == "n" and g[0] == "g":
    return f"bare {he} gained type arguments"
  if he == hg:
    return f"{he}: different {'classes' if he == '<A-class>' else 'contents'}"
  return f"{he} became {hg}"


def judge(stub_a, probes, b_results, modname):
  """b_results: {transport: (pyi, errors)}.  Returns (violations, counts)."""
  from vf.oracle import c06_types as T
  vio = []
  counts = {}

  def cnt(k, n=1):
    counts[k] = counts.get(k, 0) + n

  classes = set(stub_a.classes)
  foreign = stub_a.toplevel_classes()
  ref_t = TRANSPORTS[0]
  # 1. transports agree
  base_pyi, base_err = b_results[ref_t]
  for tname in TRANSPORTS[1:]:
    pyi, err = b_results[tname]
    cnt("transport_comparisons")
    if pyi != base_pyi:
      diff = _first_diff(base_pyi, pyi)
      what = "pickled transport differs from text transport" if tname == "pickled" else \
             "imports_info transport differs from pythonpath transport"
      vio.append((f"{what}: {_diff_mechanism(diff)}", {"transport": tname, "diff": diff}))
    elif err != base_err:
      what = "pickled" if tname == "pickled" else "imports_info"
      vio.append((f"{what} transport: same stub but different error log",
                  {"transport": tname, "errors": err, "base_errors": base_err}))
  # 2. per transport: error log + types (types once per distinct S_B text)
  judged_texts = set()
  for tname in TRANSPORTS:
    pyi, err = b_results[tname]
    bad_lines = set()
    cnt("downstream_error_logs_checked")
    import_broken = False
    for name, line, msg in err:
      cnt("downstream_errors_seen:" + name)
      if name in BAD_ERRORS and line == 1:
        import_broken = True
      probe = next((p for p in probes if p.get("line") == line), None)
      if name in CALL_ERRORS and probe is not None and probe["kind"] in CALL_KINDS:
        cnt("bad_errors")
        vio.append((f"downstream [{name}] on a {probe['kind']} probe whose arguments satisfy the upstream stub",
                    {"transport": tname, "error": [name, line, msg], "probe": _pub(probe)}))
      if name in BAD_ERRORS:
        cnt("bad_errors")
        vio.append((f"downstream [{name}] on {probe['kind'] if probe else 'import'} probe: "
                    f"{_msg_skeleton(msg, classes, modname)}",
                    {"transport": tname, "error": [name, line, msg], "probe": _pub(probe)}))
      bad_lines.add(line)
    if pyi in judged_texts:
      continue
    judged_texts.add(pyi)
    if import_broken:
      cnt("not_judged:all probes of a transport whose import line failed (reported once as the import error)")
      continue
    try:
      sb = T.Stub(pyi, prefixes={modname, modname.rsplit(".", 1)[-1]}, foreign=foreign)
    except SyntaxError as e:
      cnt("not_judged:downstream stub not parseable by ast")
      continue
    for p in probes:
      k = p["kind"]
      if "skip" in p:
        cnt(f"not_judged:{k}:{p['skip'].split(' of type ')[0][:60]}")
        continue
      if p["line"] in bad_lines:
        cnt(f"not_judged:{k}:the probe line has an error in B's log")
        continue
      cnt(f"judged:{k}")
      bn = p["bname"]
      if k == "func":
        got = sb.funcs.get(bn)
        if not got:
          alias = sb.aliases.get(bn)
          if alias is not None and sb.N.name(alias) == bn:
            cnt("func_reexported_as_alias")
            continue
          vio.append((f"re-exported function missing from the downstream stub "
                      f"({'declared as a constant' if bn in sb.consts else 'absent'})",
                      {"transport": tname, "probe": _pub(p),
                       "got": T.show(sb.const_type(bn)) if bn in sb.consts else None}))
          continue
        if len(got) != 1:
          cnt("not_judged:func:several definitions downstream")
          continue
        try:
          gs = sb.signature(got[0])
        except T.Skip as e:
          cnt("not_judged:func:" + str(e)[:50])
          continue
        es = p["expect_sig"]
        if gs == es:
          cnt("agree:func")
          if sb.N.bare_foreign:
            bare = sorted(set(sb.N.bare_foreign) - set(sb.consts) - set(sb.classes))
            if bare:
              vio.append(("downstream stub names an upstream class without its module prefix",
                          {"transport": tname, "probe": _pub(p), "names": bare}))
          del sb.N.bare_foreign[:]
          # TypeVars used must be defined identically
          used = set()
          for _, _, t, _ in es["params"]:
            used |= T.names_in(t)
          used |= T.names_in(es["ret"])
          for tv in sorted(used & set(stub_a.typevars)):
            if sb.typevars.get(tv) != stub_a.typevars[tv]:
              vio.append(("re-exported function: TypeVar definition differs downstream",
                          {"transport": tname, "probe": _pub(p), "typevar": tv,
                           "upstream": stub_a.typevars[tv], "downstream": sb.typevars.get(tv)}))
          continue
        vio.append(("re-exported function signature differs: " + _sig_mechanism(es, gs, classes),
                    {"transport": tname, "probe": _pub(p), "expected": _sig_show(es), "got": _sig_show(gs)}))
        continue
      # everything else is a constant of S_B
      if bn not in sb.consts:
        if k == "class" and sb.aliases.get(bn) is not None and sb.N.name(sb.aliases[bn]) == bn:
          cnt("class_reexported_as_alias")
          continue
        where = "a def" if bn in sb.funcs else "a class" if bn in sb.classes else "absent"
        vio.append((f"{k} probe: name is {where} in the downstream stub instead of a typed constant",
                    {"transport": tname, "probe": _pub(p)}))
        continue
      try:
        got = sb.const_type(bn)
      except T.Skip as e:
        cnt(f"not_judged:{k}:" + str(e)[:50])
        continue
      if got == p["expect"]:
        cnt(f"agree:{k}")
        if sb.N.bare_foreign:
          bare = sorted(set(sb.N.bare_foreign) - set(sb.consts) - set(sb.classes))
          if bare:
            vio.append(("downstream stub names an upstream class without its module prefix",
                        {"transport": tname, "probe": _pub(p), "names": bare}))
        del sb.N.bare_foreign[:]
        continue
      vio.append((f"{_KIND_TEXT[k]}: {diff_mechanism(p['expect'], got, classes)}",
                  {"transport": tname, "probe": _pub(p), "expected": T.show(p["expect"]),
                   "got": T.show(got)}))
    if sb.N.absorbed:
      cnt("normalisation: G[...] absorbed by a bare G in a union (downstream stub)", sb.N.absorbed)
  if stub_a.N.absorbed:
    cnt("normalisation: G[...] absorbed by a bare G in a union (upstream stub)", stub_a.N.absorbed)
  return vio, counts


_KIND_TEXT = {"pair": "expression the upstream evaluated itself, recomputed downstream",
              "elem": "container element", "vattr": "attribute read on a value read from the stub",
              "vmcall": "method call on a value read from the stub",
              "const": "constant", "class": "re-exported class", "instance": "constructor call result",
              "attr": "attribute read", "mcall": "method call result", "call": "function call result"}


def _pub(p):
  if p is None:
    return None
  from vf.oracle import c06_types as T
  out = {k: v for k, v in p.items() if k in ("kind", "bname", "what", "src", "line", "skip")}
  if "expect" in p:
    out["expect"] = T.show(p["expect"])
  return out


def _sig_show(s):
  from vf.oracle import c06_types as T
  ps = ", ".join(f"{k}:{n}: {T.show(t)}" + (" = ..." if d else "") for k, n, t, d in s["params"])
  return f"{'async ' if s['async'] else ''}({ps}) -> {T.show(s['ret'])} @{list(s['decorators'])}"


def _sig_mechanism(es, gs, classes):
  if es["ret"] != gs["ret"]:
    return "return type: " + diff_mechanism(es["ret"], gs["ret"], classes)
  if len(es["params"]) != len(gs["params"]):
    return "number of parameters"
  for a, b in zip(es["params"], gs["params"]):
    if a != b:
      if a[0] != b[0]:
        return f"parameter kind {a[0]} became {b[0]}"
      if a[1] != b[1]:
        return "parameter name"
      if a[2] != b[2]:
        return "parameter type: " + diff_mechanism(a[2], b[2], classes)
      return "parameter default presence"
  if es["decorators"] != gs["decorators"]:
    return f"decorators {list(es['decorators'])} became {list(gs['decorators'])}"
  return "async flag"


def _first_diff(a, b):
  la, lb = a.split("\n"), b.split("\n")
  for i in range(max(len(la), len(lb))):
    x = la[i] if i < len(la) else "<eof>"
    y = lb[i] if i < len(lb) else "<eof>"
    if x != y:
      return {"line": i + 1, "base": x, "other": y}
  return {}


def _diff_mechanism(diff):
  import re
  base, other = diff.get("base", ""), diff.get("other", "")
  strip = lambda s: re.sub(r"\b[a-zA-Z_]+\d+\b", "<id>", s)
  return f"`{strip(base)[:80]}` vs `{strip(other)[:80]}`"


def _msg_skeleton(msg, classes, modname):
  import re
  m = msg.split("\n")[0]
  m = m.replace(modname + ".", "<M>.").replace("'" + modname + "'", "'<M>'")
  m = re.sub(r"\b[a-zA-Z_]+\d+\b", "<id>", m)
  return m[:100]


def one_case(seed, i, root_base):
  """Full pipeline for upstream #i.  Returns a result dict."""
  from vf.gen import programs, c06_features
  rng = random.Random(f"C06-{seed}-{i}")
  feature = i % 5 == 4       # every fifth upstream is a feature program (vf/gen/c06_features.py)
  pairs = []
  if feature:
    a_src, pairs = c06_features.generate_with_pairs(rng)
  else:
    a_src = programs.generate(rng)
  modname = "a" if i % 2 == 0 else "pkg.sub.a"
  import_style = "from" if (i // 2) % 2 else "import"
  r = run_case(a_src, modname, import_style, rng, os.path.join(root_base, str(i)), pairs)
  r["arm"] = "feature" if feature else "C01"
  return r


def run_case(a_src, modname, import_style, rng, root, pairs=()):
  from vf.oracle import c06_types as T
  out = {"skipped": None, "violations": [], "counts": {}, "nontrivial": False}
  shutil.rmtree(root, ignore_errors=True)
  try:
    try:
      s_a, errs_a = upstream(a_src, modname, root)
    except Exception as e:  # pylint: disable=broad-except
      out["skipped"] = "upstream analysis failed: " + type(e).__name__
      out["error"] = f"{type(e).__name__}: {e}"[:400]
      return out
    try:
      stub_a = T.Stub(s_a)
    except SyntaxError:
      out["skipped"] = "upstream stub not parseable by ast"
      return out
    public = [n for n in list(stub_a.consts) + list(stub_a.funcs) + list(stub_a.classes)
              if not n.startswith("_")]
    if len(public) < 3:
      out["skipped"] = "fewer than 3 public names"
      return out
    b_src, probes = build_downstream(stub_a, modname, rng, import_style, pairs)
    out["pairs"] = [list(x) for x in pairs]
    results = {}
    for tname in TRANSPORTS:
      try:
        results[tname] = downstream(b_src, root, tname)
      except Exception as e:  # pylint: disable=broad-except
        import traceback
        out["violations"].append((f"downstream analysis crashed with the {tname} transport: {type(e).__name__}",
                                  {"transport": tname, "error": f"{type(e).__name__}: {e}"[:600],
                                   "traceback": traceback.format_exc()[-1500:]}))
    if len(results) == len(TRANSPORTS):
      vio, counts = judge(stub_a, probes, results, modname)
      out["violations"] += vio
      out["counts"] = counts
    has_cls = any(ci.attrs for ci in stub_a.classes.values())
    has_gen = "[" in "".join(ast_unparse(v) for v in stub_a.consts.values())
    has_ret = any(len(d) == 1 and d[0].returns is not None and ast_unparse(d[0].returns) != "Any"
                  for d in stub_a.funcs.values())
    out["nontrivial"] = bool(has_cls and has_gen and has_ret)
    out["a_src"], out["s_a"], out["b_src"] = a_src, s_a, b_src
    out["modname"], out["import_style"] = modname, import_style
    out["s_b"] = results.get(TRANSPORTS[0], ("", []))[0]
    out["n_probes"] = len(probes)
    return out
  finally:
    shutil.rmtree(root, ignore_errors=True)


def ast_unparse(node):
  import ast
  return ast.unparse(node) if node is not None else ""


# ---------------------------------------------------------------------------
# child / driver


def child(arg):
  seed, lo, hi = arg["seed"], arg["lo"], arg["hi"]
  base = os.path.join(boot.BUILD, "scratch", f"c06-{os.getpid()}")
  out = {"n": 0, "violations": [], "fps": [], "samples": [], "counts": {}}
  c = out["counts"]
  try:
    for i in range(lo, hi):
      r = one_case(seed, i, base)
      if r["skipped"]:
        c["skipped:" + r["skipped"]] = c.get("skipped:" + r["skipped"], 0) + 1
        continue
      out["n"] += 1
      c["upstreams:" + r["modname"] + "/" + r["import_style"]] = \
          c.get("upstreams:" + r["modname"] + "/" + r["import_style"], 0) + 1
      c["upstreams from the " + r["arm"] + " generator"] = c.get("upstreams from the " + r["arm"] + " generator", 0) + 1
      for k, n in r["counts"].items():
        c[k] = c.get(k, 0) + n
      if r["nontrivial"]:
        out["fps"].append(common.fp(r["a_src"]))
      seen = set()
      for key, detail in r["violations"]:
        if key in seen:
          continue
        seen.add(key)
        out["violations"].append({"key": key, "detail": detail, "a_src": r["a_src"], "s_a": r["s_a"],
                                  "b_src": r["b_src"], "s_b": r["s_b"], "modname": r["modname"],
                                  "import_style": r["import_style"], "case": [seed, i],
                                  "pairs": r.get("pairs", [])})
      if len(out["samples"]) < 1 and r["nontrivial"] and len(r["a_src"]) < 1800:
        out["samples"].append({"modname": r["modname"], "a_src": r["a_src"], "s_a": r["s_a"],
                               "b_src": r["b_src"], "s_b": r["s_b"], "probes": r["n_probes"]})
  finally:
    shutil.rmtree(base, ignore_errors=True)
  return out


def run(tier, seed):
  ck = common.Check(
      PID, tier, seed,
      rule=("upstream programs (4 of 5 from the C01 generator, every fifth a feature program: keyword-only "
            "parameters in every default/required order, positional-only, *args/**kw, nested classes two levels "
            "deep, class-valued attributes, values typed by nested classes) with >= 3 public names, alternately analysed as module "
            "`a` and `pkg.sub.a`; the downstream module re-exports every public name and probes constructor "
            "calls, attribute reads along the stub MRO, method and function calls with ground arguments; "
            "analysed with the stub on --pythonpath, via --imports_info, and as pickled AST. evaluations = "
            "upstream programs taken through all three transports and judged; non-trivial = the upstream stub "
            "has a class with attributes, a parameterised container type and a function with a non-Any return; "
            "distinct by hash of the upstream source."))
  if tier == "quick":
    n, per = 160, 10       # 128 C01-generator upstreams + 32 feature programs
  else:
    n, per = 1500, 15
  if os.environ.get("VERIF_C06_N"):           # development aid only
    n = int(os.environ["VERIF_C06_N"])
    per = max(1, n // 16)
  tasks = [{"fn": "vf.checks.c06:child", "id": f"b{lo}", "timeout": 1500,
            "arg": {"seed": seed, "lo": lo, "hi": min(n, lo + per)}} for lo in range(0, n, per)]
  for res in pool.run_tasks(tasks):
    if not res.get("ok"):
      ck.child_failed(res, "batch " + str(res.get("task")))
      continue
    r = res["result"]
    ck.merge_cases(r["n"], r["fps"])
    for k, v in r["counts"].items():
      ck.count(k, v)
    for s in r["samples"]:
      ck.sample(s, cap=3)
    for w in r["violations"]:
      ck.violation(w["key"], w)
  judged = sum(v for k, v in ck.counters.items() if k.startswith("judged:"))
  notj = sum(v for k, v in ck.counters.items() if k.startswith("not_judged:"))
  ck.count("TOTAL judged probes", judged)
  ck.count("TOTAL not judged probes", notj)
  ck.exhaustive = False
  ck.assumptions = [
      "the stub text is the observable: types are compared after parsing both stubs with CPython's ast",
      "expected call results / attribute types are read off the upstream stub (C3 MRO computed by the oracle); "
      "TypeVars are substituted only when a bare TypeVar return is bound by a ground argument or by self",
      "typeshed is empty in the sandbox: upstream programs import nothing",
  ]
  if judged == 0 or ck.counters.get("transport_comparisons", 0) == 0:
    ck.inconclusive("no probe was judged / no transport comparison ran")
  return ck.finish()


def replay(rec):
  w = rec["witness"]
  base = os.path.join(boot.BUILD, "scratch", f"c06-replay-{os.getpid()}")
  try:
    if "case" in w and not os.environ.get("VERIF_C06_REPLAY_SRC"):
      r = one_case(w["case"][0], w["case"][1], base)
      if r.get("a_src") != w["a_src"]:
        r = run_case(w["a_src"], w["modname"], w["import_style"], random.Random(0), os.path.join(base, "x"),
                     [tuple(x) for x in w.get("pairs", [])])
    else:
      r = run_case(w["a_src"], w["modname"], w["import_style"], random.Random(0), os.path.join(base, "x"),
                   [tuple(x) for x in w.get("pairs", [])])
  finally:
    shutil.rmtree(base, ignore_errors=True)
  keys = [k for k, _ in r["violations"]]
  if rec.get("key") in keys:
    print(f"VIOLATION property={PID} replay=<replayed>")
    for k, d in r["violations"]:
      if k == rec.get("key"):
        print("  mechanism:", k, "::", str(d)[:500])
    return 1
  print("replay: mechanism not reproduced; mechanisms seen:", keys, "skipped:", r.get("skipped"))
  return 0
