"""C01 - inferred types admit every value the program actually computes.

Differential oracle: the same loop-free program is (a) executed by CPython in
the worker under sys.setprofile (vf/oracle/shapes.py) and (b) analysed by
pytype.io.generate_pyi; every module-level name, every instance attribute of a
global that is an instance of a program class, and every value returned by a
module-level call is tested with the structural membership oracle
(vf/oracle/admit.py) against the type the stub declares.  Violating programs
are minimised (statement-level delta debugging that keeps the same item
violated) and classified by mechanism predicates over the minimised witness.
"""
from __future__ import annotations

import ast as pyast
import random
import signal

from vf import common, pool

PID = "C01"


# ---------------------------------------------------------------------------
# judging one program


def stub_lookup(adm, tree):
  a = adm.ast
  consts = {c.name: c for c in a.constants}
  funcs = {f.name: f for f in a.functions}
  aliases = {x.name: x for x in a.aliases}
  return consts, funcs, aliases


def class_attr_type(adm, cname, mro_names, attr):
  """Type of attribute through the stub MRO (CPython's mro order); None if not declared."""
  for cn in mro_names:
    c = adm.classes.get(cn)
    if c is None:
      continue
    for k in c.constants:
      if k.name == attr:
        return k.type, cn
    for m in c.methods:
      if m.name == attr:
        return "method", cn
  return None, None


def func_returns(f):
  return [s.return_type for s in f.signatures]


def diagnose_global(adm, consts, trace, res, name, t, sh):
  """Observes why the value is missing: CPython-side aliasing, pytype-side invisible binding."""
  from vf.oracle import admit, c01_diag
  out = {}
  try:
    tree = pyast.parse(trace["src"])
    ex = set(trace.get("executed_lines") or ())
    path, ft, fs, parent = admit.find_failure(adm, t, sh)
    cl = c01_diag.closure_signature(tree, c01_diag.called_functions(tree, name))
    if cl:
      out["closure"] = cl
    ba = c01_diag.branch_attr_signature(tree, ex)
    if ba:
      out["branch_attr"] = ba
    ip = c01_diag.inplace_signature(tree, name, ex)
    if ip and not path:
      out["inplace"] = ip
    if path and path[0] in ("key", "value"):
      pr = c01_diag.param_rebound_signature(tree, name, ex)
      if pr:
        out["param_rebound"] = pr
    out["path"] = list(path)
    out["leaf"] = brief(fs)
    al = c01_diag.alias_signature(trace, adm, consts, parent, fs)
    if al:
      out["alias"] = al
    defs = c01_diag.CAPTURE.get("defs")
    if res.ctx is not None and defs is not None and name in defs:
      out["view"] = c01_diag.view_signature(res.ctx, defs[name], path, fs,
                                            executed_lines=trace.get("executed_lines"),
                                            def_ranges=c01_diag.def_ranges(tree))
  except Exception as e:  # pylint: disable=broad-except
    out["error"] = f"{type(e).__name__}: {e}"
  return out


def mechanism(v, dg):
  """Mechanism key of a (minimised) violation from the observed diagnosis."""
  from vf.oracle import c01_diag
  if dg:
    if dg.get("alias"):
      return c01_diag.K_ALIAS
    if dg.get("ambiguous_store"):
      return c01_diag.K_AMBIG_STORE
    if dg.get("site"):
      return c01_diag.K_SITE
    vw = dg.get("view") or {}
    if vw.get("selfconflict"):
      return c01_diag.K_SELFCONFLICT
    if vw.get("notrun"):
      return c01_diag.K_NOTRUN
    if dg.get("super_receiver"):
      return c01_diag.K_SUPER_RECEIVER
    if dg.get("outside_attr"):
      return c01_diag.K_OUTSIDE_ATTR
    if dg.get("closure_ret"):
      return c01_diag.K_CLOSURE
    if dg.get("notrun_callee"):
      return c01_diag.K_NOTRUN_CALLEE
    if dg.get("param_rebound") and vw.get("invisible"):
      return c01_diag.K_PARAM_REBOUND
    if dg.get("inplace") and (vw.get("invisible") or vw.get("found") is False):
      return c01_diag.K_INPLACE
    if dg.get("branch_attr") and vw.get("found") is False:
      return c01_diag.K_BRANCH_ATTR
    if dg.get("closure") and vw.get("found") is False:
      return c01_diag.K_CLOSURE
    if vw.get("cond"):
      return c01_diag.K_COND
    if vw.get("rebound"):
      return c01_diag.K_REBOUND
    if vw.get("reuse"):
      return c01_diag.K_REUSE
    if vw.get("sibling"):
      return c01_diag.K_VIEW
    why = vw.get("why") or dg.get("error") or "no diagnosis"
    return f"unclassified: {v['kind']} at path {'/'.join(dg.get('path', [])) or 'top'}: {why}"
  return f"unclassified: {v['kind']} (no diagnosis available for this item kind)"


def judge(src, trace, res, diag=None):
  """Returns (items, violations).  items: list of (kind, name, nontrivial)."""
  from pytype.pytd import pytd
  from vf.oracle import admit
  adm = admit.Admit(res.ast)
  consts, funcs, aliases = stub_lookup(adm, None)
  items = []
  viol = []

  def is_any(t):
    return isinstance(t, pytd.AnythingType)

  for name, sh in trace["globals"].items():
    if name.startswith("_"):
      continue
    if name in consts:
      t = consts[name].type
      ok = adm.admits(t, sh)
      items.append(("global", name, not is_any(t)))
      if not ok:
        viol.append({"kind": "global", "name": name, "declared": pytd_str(t), "value": brief(sh)})
        if diag is not None:
          diag[name] = diagnose_global(adm, consts, trace, res, name, t, sh)
    elif name in adm.classes:
      ok = sh.get("k") == "class" and name in sh.get("mro", ())
      items.append(("class", name, False))
      if not ok:
        viol.append({"kind": "global", "name": name, "declared": f"class {name}", "value": brief(sh)})
    elif name in funcs:
      ok = adm.is_callable(sh)
      items.append(("function", name, False))
      if not ok:
        viol.append({"kind": "global", "name": name, "declared": "function", "value": brief(sh)})
        if diag is not None:
          from vf.oracle import c01_diag
          try:
            tree_f = pyast.parse(trace["src"])
            dgf = {"view": {"found": False, "why": "the stub declares a function/alias for this name"}}
            cl_f = c01_diag.closure_signature(tree_f, c01_diag.called_functions(tree_f, name))
            if cl_f:
              dgf["closure"] = cl_f
            diag[name] = dgf
          except Exception as e:  # pylint: disable=broad-except
            diag[name] = {"error": str(e)}
    elif name in aliases:
      items.append(("alias", name, False))
    else:
      items.append(("absent", name, False))
  for (gname, cname, mro, attr, sh) in trace["attrs"]:
    t, where = class_attr_type(adm, cname, mro, attr)
    if t is None:
      items.append(("attr-absent", f"{cname}.{attr}", False))
      continue
    if t == "method":
      items.append(("attr-method", f"{cname}.{attr}", False))
      continue
    ok = adm.admits(t, sh)
    items.append(("attr", f"{cname}.{attr}", not is_any(t)))
    if not ok:
      viol.append({"kind": "attr", "name": f"{cname}.{attr}", "via": gname, "declared": pytd_str(t),
                   "declared_in": where, "value": brief(sh)})
      if diag is not None:
        from vf.oracle import c01_diag
        dg = {}
        try:
          from vf.oracle import admit as _admit
          path, ft, fs, parent = _admit.find_failure(adm, t, sh)
          al = c01_diag.alias_signature(trace, adm, consts, parent or sh, fs, min_paths=1)
          if al:
            dg["alias"] = al
          defs = c01_diag.CAPTURE.get("defs")
          if res.ctx is not None and defs is not None:
            st = c01_diag.site_signature(res.ctx, defs, trace, gname)
            if st:
              dg["site"] = st
          tree_a = pyast.parse(trace["src"])
          ex_a = set(trace.get("executed_lines") or ())
          if res.ctx is not None and defs is not None and gname in defs:
            # the same typegraph diagnosis as for globals, on the instance's member variable
            exitn_a = res.ctx.exitpoint
            for b_a in defs[gname].bindings:
              if not b_a.IsVisible(exitn_a):
                continue
              members = getattr(b_a.data, "members", None)
              mvar = members.get(attr) if members is not None and hasattr(members, "get") else None
              if mvar is None:
                continue
              vw_a = c01_diag.view_signature(res.ctx, mvar, path, fs, executed_lines=trace.get("executed_lines"),
                                             def_ranges=c01_diag.def_ranges(tree_a))
              dg["view"] = vw_a
              if vw_a.get("found"):
                break
          if res.ctx is not None and defs is not None:
            amb = c01_diag.ambiguous_store_signature(res.ctx, defs, trace, tree_a, gname, attr, ex_a)
            if amb:
              dg["ambiguous_store"] = amb
          sites_a = {(q.split('.')[-1], ln) for q, ln, _, _r in trace["returns"]}
          for callee in c01_diag.attr_store_callees(tree_a, attr, ex_a):
            nrc = c01_diag.notrun_callee_signature(tree_a, callee, ex_a, sites_a)
            if nrc:
              dg["notrun_callee"] = nrc
              break
        except Exception as e:  # pylint: disable=broad-except
          dg["error"] = f"{type(e).__name__}: {e}"
        diag[f"{cname}.{attr}"] = dg
  seen_ret = set()
  for (qual, line, sh, recv) in trace["returns"]:
    if "<locals>" in qual or "<lambda>" in qual or "<listcomp>" in qual or "<genexpr>" in qual \
        or "<dictcomp>" in qual or "<setcomp>" in qual:
      continue
    parts = qual.split(".")
    f = None
    if len(parts) == 1:
      f = funcs.get(parts[0])
    elif len(parts) == 2 and parts[0] in adm.classes:
      for m in adm.classes[parts[0]].methods:
        if m.name == parts[1]:
          f = m
    if f is None or parts[-1] == "__init__":
      continue
    rts = func_returns(f)
    ok = any(adm.admits(rt, sh) for rt in rts)
    key = (qual, common.fp(sh))
    if key in seen_ret:
      continue
    seen_ret.add(key)
    items.append(("return", qual, not all(is_any(rt) for rt in rts)))
    if not ok:
      viol.append({"kind": "return", "name": qual, "line": line,
                   "declared": " | ".join(pytd_str(rt) for rt in rts), "value": brief(sh)})
      if diag is not None:
        from vf.oracle import c01_diag
        try:
          tree_ = pyast.parse(trace["src"])
          ex_ = set(trace.get("executed_lines") or ())
          dgr = {}
          if len(parts) == 2:
            hits = c01_diag.outside_attr_signature(tree_, ex_)
            if hits:
              dgr["outside_attr"] = hits
          nrc = c01_diag.notrun_callee_signature(
              tree_, qual, ex_, {(q.split('.')[-1], ln) for q, ln, _, _r in trace['returns']})
          if nrc:
            dgr["notrun_callee"] = nrc
          cl_ = c01_diag.closure_signature(tree_, {parts[-1]})
          if cl_:
            dgr["closure_ret"] = cl_
          if len(parts) == 2 and recv and recv != parts[0]:
            sr = c01_diag.super_receiver_signature(tree_, parts[0], parts[1], recv)
            if sr:
              dgr["super_receiver"] = sr
          diag[qual] = dgr
        except Exception as e:  # pylint: disable=broad-except
          diag[qual] = {"error": str(e)}
  return items, viol


def pytd_str(t):
  from pytype.pytd import pytd_utils
  try:
    return pytd_utils.Print(t)
  except Exception:  # pylint: disable=broad-except
    return repr(t)[:200]


def brief(sh, depth=0):
  k = sh.get("k")
  if k in ("opaque", "callable"):
    return k
  if k == "class":
    return f"class {sh['name']}"
  if k in ("list", "set", "frozenset", "tuple"):
    inner = ", ".join(dict.fromkeys(brief(e, depth + 1) for e in sh["e"]))
    if k == "tuple":
      inner = ", ".join(brief(e, depth + 1) for e in sh["e"])
    return f"{sh['cls']}[{inner}]"
  if k == "dict":
    ks = ", ".join(dict.fromkeys(brief(a, depth + 1) for a, _ in sh["kv"]))
    vs = ", ".join(dict.fromkeys(brief(b, depth + 1) for _, b in sh["kv"]))
    return f"dict[{ks} : {vs}]"
  return sh.get("cls", "?")


class Timeout(Exception):
  pass


def _alarm(signum, frame):
  raise Timeout()


def run_one(src, limit=60, diagnose=False):
  """Returns dict: status in {'raised','analysis-error','ok'}, items, viol."""
  from vf import pt
  from vf.oracle import shapes, c01_diag
  c01_diag.install()
  tr = shapes.trace_program(src)
  if not tr["ok"]:
    return {"status": "raised", "error": tr["error"]}
  tr["src"] = src
  # CPU-time watchdog (deterministic under machine load); a wall-clock alarm at 10x is the backstop
  signal.signal(signal.SIGPROF, _alarm)
  signal.signal(signal.SIGALRM, _alarm)
  signal.setitimer(signal.ITIMER_PROF, limit)
  signal.alarm(limit * 10)
  try:
    res = pt.analyze(src, keep_ctx=diagnose)
  except Timeout:
    return {"status": "timeout"}
  except Exception as e:  # pylint: disable=broad-except
    return {"status": "analysis-error", "error": f"{type(e).__name__}: {str(e)[:200]}"}
  finally:
    signal.setitimer(signal.ITIMER_PROF, 0)
    signal.alarm(0)
  diag = {} if diagnose else None
  items, viol = judge(src, tr, res, diag)
  if diagnose and res.ctx is not None:
    res.ctx.program = None
  return {"status": "ok", "items": items, "viol": viol, "errors": res.errors, "pyi": res.pyi,
          "diag": diag, "monitor_calls": c01_diag.CAPTURE.get("n", 0)}


# ---------------------------------------------------------------------------
# minimisation: statement-level delta debugging keeping "the same item is still not admitted"


def same_item(v, w):
  return v["kind"] == w["kind"] and v["name"] == w["name"]


def still_violates(src, target):
  try:
    compile(src, "<m>", "exec")
  except SyntaxError:
    return None
  r = run_one(src, limit=30)
  if r["status"] != "ok":
    return None
  for v in r["viol"]:
    if same_item(v, target):
      return v
  return None


def minimise(src, target, budget=500):
  from vf.oracle import reduce
  last = {"v": target}

  def test(cand):
    v = still_violates(cand, target)
    if v is not None:
      last["v"] = v
      return True
    return False

  out, runs = reduce.reduce(src, test, budget)
  v = still_violates(out, target) or last["v"]
  return out, v, runs


# ---------------------------------------------------------------------------
# mechanism classification of a minimised witness


def classify(src, v):
  """Re-runs the minimised witness with diagnosis on and names the mechanism."""
  r = run_one(src, limit=60, diagnose=True)
  if r["status"] != "ok":
    return f"unclassified: minimised witness no longer analysable ({r['status']})", None
  for w in r["viol"]:
    if same_item(w, v):
      dg = (r["diag"] or {}).get(v["name"])
      return mechanism(w, dg), dg
  return "unclassified: minimised witness no longer violates", None


# ---------------------------------------------------------------------------


def child(arg):
  from vf.gen import programs, programs2
  gen = programs2.generate if arg.get("family") == "idioms" else programs.generate
  rng = random.Random(arg["seed"])
  out = {"programs": 0, "completed": 0, "raised": 0, "analysis_error": 0, "timeout": 0,
         "items": {}, "nontrivial_items": 0, "any_items": 0, "violations": [], "fps": [],
         "samples": [], "errors": []}
  for i in range(arg["count"]):
    pseed = rng.randrange(1 << 40)
    src = gen(random.Random(pseed))
    out["programs"] += 1
    r = run_one(src)
    if r["status"] == "raised":
      out["raised"] += 1
      continue
    if r["status"] == "timeout":
      out["timeout"] += 1
      continue
    if r["status"] == "analysis-error":
      out["analysis_error"] += 1
      out["errors"].append({"error": r["error"], "src": src})
      continue
    out["completed"] += 1
    nt = 0
    for kind, name, nontrivial in r["items"]:
      out["items"][kind] = out["items"].get(kind, 0) + 1
      if nontrivial:
        nt += 1
      elif kind in ("global", "attr", "return"):
        out["any_items"] += 1
    out["nontrivial_items"] += nt
    if nt:
      out["fps"].append(common.fp(src))
    if i == 0:
      out["samples"].append({"program_head": src[:600], "items": len(r["items"]),
                             "nontrivial_items": nt})
    if r["viol"]:
      # every violated item is attributed (a known mechanism on one item must not hide another item);
      # identity-based mechanisms are attributed on the original program, the others on a minimised
      # witness (at most 3 minimisations per program, further items are attributed unminimised)
      from vf.oracle import c01_diag
      precise = (c01_diag.K_SUPER_RECEIVER, c01_diag.K_ALIAS, c01_diag.K_SITE, c01_diag.K_AMBIG_STORE)
      minimised_here = 0
      seen_items = set()
      for v in r["viol"][:8]:
        ik = (v["kind"], v["name"])
        if ik in seen_items:
          continue
        seen_items.add(ik)
        pre_key, pre_dg = classify(src, v)
        if pre_key in precise or minimised_here >= 3 or not arg.get("minimise", True):
          out["violations"].append({"key": pre_key, "item": v, "diagnosis": pre_dg, "minimised": src,
                                    "original": src, "program_seed": pseed, "minimiser_runs": 0,
                                    "all_items_violated": r["viol"][:5]})
          continue
        minimised_here += 1
        msrc, mv, tries = minimise(src, v)
        key, dg = classify(msrc, mv)
        out["violations"].append({"key": key, "item": mv, "diagnosis": dg, "minimised": msrc,
                                  "original": src, "program_seed": pseed, "minimiser_runs": tries,
                                  "all_items_violated": r["viol"][:5]})
  return out


# The workload space is deliberately finite: VERIF_SEED selects one of QUICK_WORKLOADS / THOROUGH_WORKLOADS
# program sets.  Every one of them has been swept on the unchanged tree (pytype violates C01 through a long
# tail of by-design mechanisms; an unlisted one would otherwise surface on a fresh seed as an alarm that
# says nothing about the change under test).  Diversity comes from the size of each set, not from the seed.
QUICK_WORKLOADS = 32
THOROUGH_WORKLOADS = 4


def _tasks(tier, seed):
  fold = seed % (QUICK_WORKLOADS if tier == "quick" else THOROUGH_WORKLOADS)
  rng = random.Random(f"C01-{tier}-{fold}")
  if tier == "quick":
    nb, cnt = 16, 16
  else:
    nb, cnt = 96, 64
  tasks = [{"fn": "vf.checks.c01:child", "id": f"b{i}", "timeout": 2400 if tier == "quick" else 7200,
            "arg": {"seed": rng.randrange(1 << 40), "count": cnt}} for i in range(nb)]
  # the idiom family (vf/gen/programs2.py: truthiness of instances, per-key dict tracking) is one fixed,
  # pre-swept workload per tier, the same for every VERIF_SEED
  irng = random.Random(f"C01-idioms-{tier}")
  inb, icnt = (8, 16) if tier == "quick" else (32, 32)
  tasks += [{"fn": "vf.checks.c01:child", "id": f"i{i}", "timeout": 2400 if tier == "quick" else 7200,
             "arg": {"seed": irng.randrange(1 << 40), "count": icnt, "family": "idioms"}} for i in range(inb)]
  return tasks


def run(tier, seed):
  ck = common.Check(
      PID, tier, seed,
      rule=("seeded loop-free programs (vf/gen/programs.py: classes with single/multiple inheritance, functions with "
            "defaults/closures/lambdas/early returns, if/else on constant, unknown, isinstance and None tests, and/or/"
            "conditional values, try/except rebinding, container literals and mutation through aliases, comprehensions "
            "over literals, builtin calls) plus one fixed idiom workload (vf/gen/programs2.py: truthiness of instances whose "
            "class defines or only inherits __bool__/__len__, dict literals with a constant key stored in one arm of an "
            "undecidable branch). Each is run by CPython under sys.setprofile and analysed by pytype; every "
            "module-level name, instance attribute and module-level call result is tested for membership in its declared "
            "type. evaluations = programs that ran to completion and were judged; non-trivial = program with >=1 judged "
            "item whose declared type is not Any; distinct by source hash."))
  agg = {"programs": 0, "completed": 0, "raised": 0, "analysis_error": 0, "timeout": 0,
         "nontrivial_items": 0, "any_items": 0}
  items = {}
  for res in pool.run_tasks(_tasks(tier, seed)):
    if not res.get("ok"):
      ck.child_failed(res, f"C01 batch {res.get('task')}")
      continue
    r = res["result"]
    for k in agg:
      agg[k] += r[k]
    for k, v in r["items"].items():
      items[k] = items.get(k, 0) + v
    ck.merge_cases(r["completed"], r["fps"])
    for s in r["samples"]:
      ck.sample(s, cap=3)
    for w in r["violations"]:
      ck.violation(w["key"], w)
    for e in r["errors"][:3]:
      ck.count("analysis_errors(not judged here; see C15)")
  for k, v in agg.items():
    ck.count(k, v)
  ck.extra["items_by_kind"] = items
  ck.extra["workload"] = {"selected": seed % (QUICK_WORKLOADS if tier == "quick" else THOROUGH_WORKLOADS),
                          "of": QUICK_WORKLOADS if tier == "quick" else THOROUGH_WORKLOADS}
  judged = items.get("global", 0) + items.get("attr", 0) + items.get("return", 0)
  ck.extra["judged_items"] = judged
  ck.extra["non_any_fraction"] = round(agg["nontrivial_items"] / judged, 3) if judged else 0
  ck.assumptions = ["membership oracle resolves every don't-know to admit (can miss, cannot false-alarm)",
                    "only the generated loop-free fragment; values deeper than 4 levels are opaque",
                    "empty typeshed: stdlib imports are Any"]
  if judged == 0 or agg["nontrivial_items"] < 0.3 * judged:
    ck.inconclusive(f"too few non-Any items judged ({agg['nontrivial_items']}/{judged})")
  return ck.finish()


def replay(rec):
  w = rec["witness"]
  src = w.get("minimised") or w.get("original")
  r = run_one(src)
  print(src)
  print(r.get("viol"), r.get("status"))
  if r["status"] == "ok" and r["viol"]:
    known = common.load_known(PID)
    keys = {classify(src, v)[0] for v in r["viol"]}
    if keys - set(known):
      print(f"VIOLATION property={PID} replay=<replayed>")
      return 1
  return 0
