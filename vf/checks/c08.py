"""C08 - solver answers do not depend on what was asked or built before.

History + executable model: the driver keeps the log of mutating operations
issued against one long-lived cfg.Program; at every query the same query is put
to a replica rebuilt from scratch by replaying the log (asked as the replica's
first query), and asked a second time on the live program.  The number of solver
instances (Program.calculate_metrics) is recorded around mutations so a stale
answer can be attributed to the mutator that failed to drop the solver.
"""
from __future__ import annotations

import random

from vf import common, pool
from vf.oracle import tg

PID = "C08"

MUTATORS = ["node", "cnew", "edge", "var", "bind", "bind0", "origin", "cond", "paste_b", "paste_v",
            "paste_nd", "assign_v", "assign_b", "newvar_b"]


class Hist:
  """Generates ops online against the live program (addresses must exist)."""

  def __init__(self, rng, style):
    self.rng = rng
    self.real = tg.Real()
    self.ops = []
    self.style = style
    self.next_data = 0

  # helpers
  def n(self):
    return len(self.real.nodes)

  def addrs(self):
    return self.real.addrs()

  def rnode(self):
    return self.rng.randrange(self.n())

  def raddr(self):
    a = self.addrs()
    return self.rng.choice(a) if a else None

  def rsrc(self, k=None):
    a = self.addrs()
    k = self.rng.choice([0, 0, 1, 1, 2]) if k is None else k
    return self.rng.sample(a, min(k, len(a)))

  def data(self, reuse=0.3):
    if self.next_data and self.rng.random() < reuse:
      return self.rng.randrange(self.next_data)
    d = self.next_data
    self.next_data = min(self.next_data + 1, 79)
    return d

  def do(self, op):
    self.real.apply(op)
    self.ops.append(op)

  def seed_graph(self):
    r = self.rng
    for _ in range(r.randint(2, 5)):
      if self.n() and r.random() < 0.6:
        self.do(("cnew", self.rnode()))
      else:
        self.do(("node",))
    for _ in range(r.randint(1, 3)):
      self.do(("var",))
      v = len(self.real.vars) - 1
      for _ in range(r.randint(1, 2)):
        self.do(("bind", v, self.data(0), self.rsrc(), self.rnode()))

  def mutation(self):
    r = self.rng
    nv = len(self.real.vars)
    kinds = ["node", "cnew", "edge", "edge", "var", "bind", "bind", "bind0", "origin", "origin",
             "cond", "cond", "paste_b", "paste_b", "paste_v", "paste_nd", "assign_v", "assign_b",
             "newvar_b"]
    if self.style == "cond":
      kinds += ["cond"] * 6
    if self.style == "paste":
      kinds += ["paste_b", "paste_v", "paste_nd", "assign_v", "assign_b"] * 2
    k = r.choice(kinds)
    a = self.raddr()
    if k == "node":
      return ("node", a) if a and r.random() < 0.3 else ("node",)
    if k == "cnew":
      return ("cnew", self.rnode(), a) if a and r.random() < 0.3 else ("cnew", self.rnode())
    if k == "edge":
      return ("edge", self.rnode(), self.rnode())
    if k == "var":
      return ("var",)
    if not nv:
      return ("var",)
    v = r.randrange(nv)
    if k == "bind":
      return ("bind", v, self.data(), self.rsrc(), self.rnode())
    if k == "bind0":
      return ("bind0", v, self.data())
    if a is None:
      return ("bind", v, self.data(), [], self.rnode())
    if k == "origin":
      return ("origin", a, self.rnode(), self.rsrc())
    if k == "cond":
      return ("cond", self.rnode(), a if r.random() < 0.75 else None)
    where = self.rnode() if r.random() < 0.6 else None
    if k == "paste_b":
      return ("paste_b", v, a, where, self.rsrc(r.choice([0, 0, 1])))
    if k == "paste_v":
      return ("paste_v", v, r.randrange(nv), where, self.rsrc(r.choice([0, 0, 1])))
    if k == "paste_nd":
      return ("paste_nd", v, a, self.data())
    if k == "assign_v":
      return ("assign_v", v, where)
    if k == "assign_b":
      return ("assign_b", a, where)
    if k == "newvar_b":
      return ("newvar_b", [self.data() for _ in range(r.randint(1, 2))], self.rsrc(), self.rnode())
    raise ValueError(k)

  def query(self):
    r = self.rng
    a = self.addrs()
    nv = len(self.real.vars)
    k = r.choice(["has", "has", "has", "vis", "filter", "bindings", "can", "reach", "fdata"])
    if not a:
      k = "reach"
    if k == "has" or k == "can":
      return (k, self.rnode(), r.sample(a, min(len(a), r.choice([1, 1, 2, 2, 3]))))
    if k == "vis":
      return ("vis", r.choice(a), self.rnode())
    if k in ("filter", "fdata"):
      return (k, r.randrange(nv), self.rnode(), r.random() < 0.7)
    if k == "bindings":
      return ("bindings", r.randrange(nv), self.rnode())
    return ("reach", self.rnode(), self.rnode())

  def flipping_mutation(self, q):
    """A small mutation aimed at changing the answer of query q."""
    r = self.rng
    if q[0] in ("has", "can") and q[2]:
      n, goals = q[1], q[2]
      c = r.randrange(5)
      if c == 0:
        return ("origin", r.choice(goals), n, [])              # add the missing origin right here
      if c == 1:
        return ("cond", n, r.choice(self.addrs()))             # blocking condition at the query node
      if c == 2:
        return ("cond", n, None)
      if c == 3:
        return ("edge", self.rnode(), n)                        # connect a missing edge
      vi = goals[0][0]
      sibs = [a for a in self.addrs() if a[0] == vi and a not in goals]
      if sibs and r.random() < 0.5:
        return ("origin", r.choice(sibs), r.choice([n, self.rnode()]), [])   # sibling re-binds the variable
      return ("paste_b", vi, r.choice(goals), n, [])            # re-bind through PasteBinding at n
    if q[0] == "vis":
      c = r.randrange(6)
      if c >= 4:
        # re-bind the variable through a SIBLING binding at some node: a direct Binding.AddOrigin that
        # registers the variable at a node new to it (must hide the queried binding behind that node)
        vi = q[1][0]
        sibs = [a for a in self.addrs() if a[0] == vi and a != q[1]]
        if sibs:
          return ("origin", r.choice(sibs), q[2] if c == 4 else self.rnode(), [])
      if c == 0:
        return ("origin", q[1], q[2], [])
      if c == 1:
        return ("cond", q[2], r.choice(self.addrs()))
      if c == 2:
        return ("paste_b", q[1][0], q[1], q[2], [])
      return ("edge", self.rnode(), q[2])
    return self.mutation()


K_CYCLE_MEMO = ("cyclic graph: answer depends on earlier queries answered by the same solver instance "
                "(state memo entries computed under the provisional cycle assumption are reused)")


def query_node(q):
  return {"has": 1, "can": 1, "vis": 2, "filter": 2, "fdata": 2, "bindings": 2, "data": 2}.get(q[0])


def cycle_behind(real, q):
  """True iff a node lying on a cycle is backward-reachable from the query's node."""
  i = query_node(q)
  if i is None:
    return False
  d = tg.export(real.p, real.vars)
  if not d.cyclic:
    return False
  ref = tg.Ref(d)
  for c in ref.back_reach(q[i]):
    if any(c in ref.back_reach(p) for p in d.pred[c]):
      return True
  return False


def solver_count(p):
  return len(p.calculate_metrics().solver_metrics)


def run_history(rng, style, nsteps, counters):
  """Returns witness dict or None."""
  h = Hist(rng, style)
  h.seed_graph()
  if style == "cap":
    # drive one variable past the 64-bindings-per-variable cap (extra data collapse into default_data)
    v = 0
    for i in range(rng.randint(60, 70)):
      try:
        h.do(("bind", v, min(79, 10 + i), [], h.rnode()))
      except Exception:  # pylint: disable=broad-except
        counters["rejected_ops"] += 1
    h.next_data = 79
    counters["cap_histories"] += 1
    counters["max_bindings_seen"] = max(counters["max_bindings_seen"], len(h.real.vars[0].bindings))
  last_q = None
  live_count_after_q = None
  mut_since_q = []
  nqueries = 0
  warm = False
  had_mut_between = False
  for step in range(nsteps):
    x = rng.random()
    if last_q is not None and x < 0.30:
      op = h.flipping_mutation(last_q)
      try:
        h.do(op)
        mut_since_q.append(op[0])
      except Exception as e:  # invalid op for this state (e.g. bad address): skip
        counters["rejected_ops"] += 1
        continue
      q = last_q                          # query -> small mutation -> same query
    elif x < 0.62:
      op = h.mutation()
      try:
        h.do(op)
        mut_since_q.append(op[0])
      except Exception:
        counters["rejected_ops"] += 1
      continue
    else:
      q = h.query()
    # --- the monitored event: a query on the long-lived program
    try:
      live = h.real.query(q)
    except Exception as e:
      counters["rejected_queries"] += 1
      continue
    nqueries += 1
    counters["queries"] += 1
    counters["q_" + q[0]] += 1
    cnt = solver_count(h.real.p)
    survived = []
    if live_count_after_q is not None and mut_since_q and cnt == live_count_after_q:
      survived = list(mut_since_q)
      counters["solver_survived_mutation_window"] += 1
    if live_count_after_q is not None and mut_since_q:
      had_mut_between = True
    if live_count_after_q is not None and cnt == live_count_after_q:
      warm = True
    again = h.real.query(q)
    if again != live:
      return {"what": "the same query asked twice in a row flips", "key": "repeated query flips",
              "ops": h.ops, "query": q, "first": live, "second": again}
    replica = tg.Real().replay(h.ops)
    fresh = replica.query(q)
    counters["replica_comparisons"] += 1
    if fresh != live:
      mech = "+".join(sorted(set(survived))) if survived else "none(solver was rebuilt)"
      key = f"stale answer; solver survived mutators: {mech}"
      if not survived and cycle_behind(h.real, q):
        key = K_CYCLE_MEMO
      return {"what": "answer on the long-lived program differs from a freshly built replica",
              "key": key,
              "ops": h.ops, "query": q, "live": live, "fresh": fresh,
              "mutators_since_previous_query": list(mut_since_q), "solver_survived": survived}
    if isinstance(live, bool):
      counters["answers_true" if live else "answers_false"] += 1
    last_q = q
    live_count_after_q = cnt
    mut_since_q = []
  counters["histories"] += 1
  if warm and had_mut_between:
    counters["nontrivial_histories"] += 1
    return {"nontrivial": True, "ops": h.ops}
  return {"nontrivial": False, "ops": h.ops}


def child(arg):
  import collections
  rng = random.Random(arg["seed"])
  counters = collections.Counter()
  viol = []
  fps = []
  samples = []
  for i in range(arg["count"]):
    style = rng.choice(["mixed", "mixed", "mixed", "cond", "cond", "paste", "paste", "cap"])
    res = run_history(random.Random(rng.randrange(1 << 40)), style, rng.randint(10, arg.get("maxlen", 60)),
                      counters)
    if res.get("what"):
      viol.append(res)
      continue
    if res["nontrivial"]:
      fps.append(common.fp([o[0] for o in res["ops"]]))
    if i < 1:
      samples.append({"style": style, "ops": [list(o) for o in res["ops"]][:25]})
  return {"counters": dict(counters), "violations": viol[:30], "nviol": len(viol), "fps": fps,
          "samples": samples}


def _tasks(tier, seed):
  rng = random.Random(f"C08-{seed}")
  tasks = []
  if tier == "quick":
    plain_b, asan_b, cnt = 16, 6, 150
  else:
    plain_b, asan_b, cnt = 128, 32, 700
  for i in range(plain_b):
    tasks.append({"fn": "vf.checks.c08:child", "variant": "plain", "id": f"plain/{i}", "timeout": 3000,
                  "arg": {"seed": rng.randrange(1 << 40), "count": cnt}})
  for i in range(asan_b):
    tasks.append({"fn": "vf.checks.c08:child", "variant": "asan", "id": f"asan/{i}", "timeout": 3000,
                  "arg": {"seed": rng.randrange(1 << 40), "count": max(20, cnt // 3)}})
  return tasks


def run(tier, seed):
  from vf import boot
  boot.build_ext("asan")
  ck = common.Check(
      PID, tier, seed,
      rule=("random histories of 10-60 steps over all public mutators (NewCFGNode/ConnectNew/ConnectTo/NewVariable/"
            "AddBinding/AddOrigin/condition=/PasteBinding/PasteVariable/PasteBindingWithNewData/AssignToNewVariable/"
            "NewVariable(bindings)) and queries (HasCombination/CanHaveCombination/IsVisible/Filter/FilteredData/"
            "Bindings/is_reachable), biased to query->small mutation->same query; every query is compared with a replica "
            "rebuilt from the op log and re-asked once. evaluations = histories; non-trivial = history in which a warm "
            "solver answered a query and a mutation lay between two queries; distinct by op-kind sequence."))
  agg = {}
  by_variant = {"plain": 0, "asan": 0}
  for res in pool.run_tasks(_tasks(tier, seed)):
    tid = str(res.get("task"))
    if not res.get("ok"):
      ck.child_failed(res, f"C08 batch {tid}")
      continue
    if pool.sanitizer_report(res):
      ck.violation("sanitizer-report", {"task": tid, "report": res["stderr"]})
    r = res["result"]
    by_variant[tid.split("/")[0]] += r["counters"].get("histories", 0)
    ck.merge_cases(r["counters"].get("histories", 0) + r["nviol"], r["fps"])
    for k, v in r["counters"].items():
      agg[k] = agg.get(k, 0) + v
    for s in r["samples"]:
      ck.sample(s, cap=3)
    for w in r["violations"]:
      ck.violation(w["key"], w)
  for k, v in agg.items():
    ck.count(k, v)
  ck.extra["histories_by_build"] = by_variant
  ck.assumptions = ["a replica rebuilt by replaying the mutating ops is 'a freshly built copy of the graph in its current state'",
                    "histories are sampled, not enumerated"]
  if agg.get("replica_comparisons", 0) == 0:
    ck.inconclusive("no query was compared with a replica")
  if by_variant["asan"] == 0:
    ck.inconclusive("sanitizer build produced no observations")
  return ck.finish()


def replay(rec):
  w = rec["witness"]
  if not w.get("ops"):
    print("no op list in witness")
    return 2
  q = w["query"]
  live = tg.Real()
  # replay the history with the original queries unknown: ask q after every prefix that ends in a query-worthy state
  ops = w["ops"]
  live.replay(ops[:-len(w.get("mutators_since_previous_query", [])) or None])
  try:
    live.query(q)
  except Exception:
    pass
  for op in ops[len(ops) - len(w.get("mutators_since_previous_query", [])):]:
    live.apply(op)
  a = live.query(q)
  b = tg.Real().replay(ops).query(q)
  print("live:", a, "fresh:", b)
  if a != b:
    print(f"VIOLATION property={PID} replay=<replayed>")
    return 1
  return 0
