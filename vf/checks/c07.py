"""C07 - the typegraph solver decides binding visibility correctly.

Oracle: declarative reference (vf/oracle/tg.py Ref) evaluated on the graph
read back through the public attributes of the live Program.
  acyclic & condition-free : HasCombination == explained  (all nodes, all
                             binding subsets of size<=3), IsVisible, Filter,
                             Bindings, CanHaveCombination likewise exact.
  any graph                : explained => HasCombination;
                             HasCombination(G) => every goal individually
                             backward-reachable; => every subset accepted;
                             => CanHaveCombination.
Workloads: exhaustive tiny graphs, random DAGs, random cyclic/conditional
graphs, live graphs of real VM analyses.  Repeated under ASan+UBSan.
"""
from __future__ import annotations

import itertools
import random

from vf import common, pool
from vf.oracle import tg

PID = "C07"

# source-set families over the two "other" bindings p, q
FAMILIES = [[[]], [["p"]], [["q"]], [["p", "q"]], [["p"], ["q"]], [[], ["p"]]]


def _origin_choices(n, allow_pairs):
  singles = [(a,) for a in range(n)]
  pairs = [(a, b) for a in range(n) for b in range(a + 1, n)] if allow_pairs else []
  out = []
  for nodes in singles + pairs:
    for fams in itertools.product(range(len(FAMILIES)), repeat=len(nodes)):
      out.append(list(zip(nodes, fams)))
  return out


def exhaustive_space(n):
  """Lazily enumerates (edges, x0 origins, x1 origins, y0 origins)."""
  pairs = [(a, b) for a in range(n) for b in range(a + 1, n)]
  edge_sets = []
  for mask in range(1 << len(pairs)):
    edge_sets.append([e for i, e in enumerate(pairs) if mask >> i & 1])
  c0 = _origin_choices(n, True)
  c1 = _origin_choices(n, False)
  return edge_sets, c0, c1, c1


def exhaustive_size(n):
  e, a, b, c = exhaustive_space(n)
  return len(e) * len(a) * len(b) * len(c)


def exhaustive_ops(n, idx):
  e, a, b, c = exhaustive_space(n)
  idx, ci = divmod(idx, len(c))
  idx, bi = divmod(idx, len(b))
  idx, ai = divmod(idx, len(a))
  ei = idx
  ops = [("node",)] * n + [("edge", x, y) for x, y in e[ei]]
  # creation order x0, y0, x1: the two bindings of x do not get neighbouring binding ids
  ops += [("var",), ("var",), ("bind0", 0, 0), ("bind0", 1, 2), ("bind0", 0, 1)]
  X0, X1, Y0 = (0, 0), (0, 1), (1, 0)
  for me, others, choice in ((X0, (X1, Y0), a[ai]), (X1, (X0, Y0), b[bi]), (Y0, (X0, X1), c[ci])):
    env = {"p": others[0], "q": others[1]}
    for node, fam in choice:
      for ss in FAMILIES[fam]:
        ops.append(("origin", me, node, [env[s] for s in ss]))
  return ops


# ---------------------------------------------------------------------------


def random_ops(rng, general):
  """Random graph as an op list. general: False (DAG) | "cond" (DAG + node conditions) | "cyclic"."""
  n = rng.randint(2, 12 if rng.random() < 0.3 else 7)
  nv = rng.randint(1, 6 if n > 6 else 4)
  ops = [("node",)] * n
  shape = rng.choice(["random", "chain", "diamonds", "random"])
  edges = set()
  if shape == "chain":
    for i in range(n - 1):
      edges.add((i, i + 1))
    for _ in range(rng.randint(0, n // 2)):
      a, b = sorted(rng.sample(range(n), 2))
      edges.add((a, b))
  elif shape == "diamonds":
    i = 0
    while i + 3 < n:
      edges |= {(i, i + 1), (i, i + 2), (i + 1, i + 3), (i + 2, i + 3)}
      i += 3
    for j in range(i, n - 1):
      edges.add((j, j + 1))
  else:
    for a in range(n):
      for b in range(a + 1, n):
        if rng.random() < min(0.9, 2.2 / max(1, n - 1) + 0.1):
          edges.add((a, b))
  if general == "cyclic":
    for _ in range(rng.choice([1, 1, 2, 3])):
      a, b = rng.sample(range(n), 2)
      edges.add((max(a, b), min(a, b)))
  edges = list(edges)
  rng.shuffle(edges)
  ops += [("edge", a, b) for a, b in edges]
  addrs = []
  order = []
  for v in range(nv):
    ops.append(("var",))
    order += [v] * rng.choice([1, 2, 2, 3])
  if rng.random() < 0.6:
    rng.shuffle(order)      # binding ids of one variable are then not neighbours (ids are program-global)
  made = [0] * nv
  for d, v in enumerate(order):
    ops.append(("bind0", v, d))
    addrs.append((v, made[v]))
    made[v] += 1
  for me in addrs:
    if rng.random() < 0.07:
      continue            # a binding without any origin
    for node in rng.sample(range(n), rng.choice([1, 1, 1, 2, 3]) if n >= 3 else 1):
      for _ in range(rng.choice([1, 1, 1, 2])):
        k = rng.choice([0, 0, 1, 1, 2, 3])
        pool_ = addrs if rng.random() < 0.85 else [a for a in addrs if a[0] == me[0]]
        ss = rng.sample(pool_, min(k, len(pool_)))
        ops.append(("origin", me, node, ss))
  if general in ("cond", "cyclic"):
    for node in range(n):
      if rng.random() < (0.3 if general == "cond" else 0.15):
        cands = addrs
        if rng.random() < 0.3:
          cands = [a for a in addrs if a[0] == 0] or addrs   # condition on a queried variable
        ops.append(("cond", node, rng.choice(cands)))
  return ops


# ---------------------------------------------------------------------------
# judging one graph


class Stats:
  def __init__(self):
    self.c = {"graphs": 0, "queries": 0, "positive": 0, "negative": 0, "undecided_budget": 0, "filter_checks": 0, "bindings_checks": 0,
              "can_checks": 0, "subset_checks": 0, "solver_more_permissive": 0,
              "export_mismatch": 0, "max_goals": 0}
    self.violations = []
    self.fps = []
    self.samples = []


def judge(real: tg.Real, st: Stats, rng, ops=None, max_subsets=None, tag=""):
  d = tg.export(real.p, real.vars)
  ref = tg.Ref(d)
  st.c["graphs"] += 1
  exact = (not d.cyclic) and (not d.has_cond)
  regime = "exact" if exact else ("acyclic+cond" if not d.cyclic else "cyclic")
  st.c[regime + "_graphs"] = st.c.get(regime + "_graphs", 0) + 1
  bobj = d.objs
  variables = real.vars
  bids = sorted(bobj)
  nodes = real.p.cfg_nodes
  combos = list(tg.subsets(bids, 3))
  if max_subsets is not None and len(combos) * d.n > max_subsets:
    k = max(1, max_subsets // max(1, d.n))
    combos = [c for c in combos if len(c) == 1] + rng.sample(combos, min(k, len(combos)))
  pos = neg = 0

  def viol(what, **kw):
    w = {"what": what, "tag": tag, "ops": ops, "exact_regime": exact, "key": what}
    w.update(kw)
    if not exact and "node" in kw and cond_cycle_behind(d, ref, kw["node"]):
      w["key"] = KNOWN_CYCLE_KEY
    elif (d.cyclic and "subset" in kw and _cycle_behind(d, ref, kw["node"])
          and _unexplained(ref, kw["node"], kw["goals"])):
      # the accepted superset has no explaining path at all and a cycle lies behind the node: it was
      # accepted by the "a revisited state is assumed solvable when it is the only way on" rule
      w["key"] = KNOWN_CYCLE_ONLY_KEY
    st.violations.append(w)

  has_cache = {}
  for nd in nodes:
    n = nd.id
    for G in combos:
      got = nd.HasCombination([bobj[g] for g in G])
      has_cache[(n, G)] = got
      st.c["queries"] += 1
      st.c["max_goals"] = max(st.c["max_goals"], len(G))
      try:
        want = ref.explained(n, G)
      except tg.Budget:
        st.c["undecided_budget"] += 1
        ref.steps = 0
        continue
      if got:
        pos += 1
      else:
        neg += 1
      if exact:
        if got != want:
          viol("HasCombination differs from the explaining-path semantics", node=n,
               goals=list(G), got=got, expected=want)
      else:
        if want and not got:
          if d.cyclic:
            st.c["cyclic_solver_stricter_than_reference(not judged)"] = st.c.get(
                "cyclic_solver_stricter_than_reference(not judged)", 0) + 1
          else:
            viol("solver rejects a combination that has an explaining path", node=n,
                 goals=list(G), got=got, expected=want)
        if got and not want:
          st.c["solver_more_permissive"] += 1
      if got:
        for g in G:
          if not ref.origin_reachable(n, g):
            viol("accepted combination has a goal that is not backward-reachable", node=n,
                 goals=list(G), goal=g)
        can = nd.CanHaveCombination([bobj[g] for g in G])
        if not can:
          viol("HasCombination true but CanHaveCombination false", node=n, goals=list(G))
    # subset law
    for G in combos:
      if len(G) > 1 and has_cache.get((n, G)):
        for k in range(1, len(G)):
          for sub in itertools.combinations(G, k):
            st.c["subset_checks"] += 1
            r = has_cache.get((n, sub))
            if r is None:
              r = nd.HasCombination([bobj[g] for g in sub])
            if not r:
              if d.cyclic and ops is not None and _fresh_subset_ok(ops, d, n, G, sub):
                # the law holds on a freshly built program: the answer on this long-lived program was
                # bent by earlier queries in the same solver (the C08 known finding), not a C07 matter
                st.c["cyclic_subset_answer_depends_on_query_history(C08)"] = st.c.get(
                    "cyclic_subset_answer_depends_on_query_history(C08)", 0) + 1
                continue
              viol("subset of an accepted combination is rejected", node=n, goals=list(G),
                   subset=list(sub))
    # CanHaveCombination is exact by definition
    for G in combos[: 40]:
      can = nd.CanHaveCombination([bobj[g] for g in G])
      want = all(ref.origin_reachable(n, g) for g in G)
      st.c["can_checks"] += 1
      if can != want:
        viol("CanHaveCombination differs from per-goal backward reachability", node=n,
             goals=list(G), got=can, expected=want)
    # per-variable views
    for v in variables:
      ids = d.var_bindings[v.id]
      got_b = {b.id for b in v.Bindings(nd)}
      want_b = ref.prune(v.id, n)
      st.c["bindings_checks"] += 1
      if got_b != want_b:
        viol("Variable.Bindings differs from CFG-only pruning reference", node=n, var=v.id,
             got=sorted(got_b), expected=sorted(want_b))
      if exact:
        try:
          vis = {b for b in ids if ref.explained(n, (b,))}
        except tg.Budget:
          continue
        st.c["filter_checks"] += 1
        got_f = {b.id for b in v.Filter(nd, True)}
        if got_f != vis:
          viol("Variable.Filter(strict) differs from visibility reference", node=n, var=v.id,
               got=sorted(got_f), expected=sorted(vis))
        got_nf = {b.id for b in v.Filter(nd, False)}
        want_nf = set(ids) if len(ids) == 1 else vis
        if got_nf != want_nf:
          viol("Variable.Filter(non-strict) differs from reference", node=n, var=v.id,
               got=sorted(got_nf), expected=sorted(want_nf))
        for b in ids:
          if bobj[b].IsVisible(nd) != (b in vis):
            viol("Binding.IsVisible differs from reference", node=n, binding=b)
  st.c["positive"] += pos
  st.c["negative"] += neg
  if pos and neg:
    st.fps.append(common.fp(d.fingerprint()))
  return d


def _fresh_subset_ok(ops, d, n, G, sub):
  """Asks G and sub each as the FIRST query of its own freshly rebuilt program; True iff the
  subset law holds there (G not accepted, or sub accepted)."""
  def ask(goals):
    real = tg.Real().replay(ops)
    d2 = tg.export(real.p, real.vars)
    if len(d2.objs) != len(d.objs):
      return None
    return bool(real.p.cfg_nodes[n].HasCombination([d2.objs[g] for g in goals]))
  a = ask(G)
  if a is None:
    return False
  if not a:
    return True
  return bool(ask(sub))


KNOWN_CYCLE_KEY = ("cyclic+conditional graph: a conditional node lying on a cycle behind the query node "
                   "is re-entered and the revisited state is assumed solvable")


KNOWN_CYCLE_ONLY_KEY = ("cyclic graph (no condition involved): a state revisited around a cycle is assumed solvable when "
                        "it is the only position left; a combination without any explaining path is accepted "
                        "while a subset of it is (rightly) rejected")


def _unexplained(ref, n, goals):
  try:
    return not ref.explained(n, tuple(goals))
  except tg.Budget:
    ref.steps = 0
    return False


def _cycle_behind(d, ref, n):
  for c in ref.back_reach(n):
    if any(c in ref.back_reach(p) for p in d.pred[c]):
      return True
  return False


def cond_cycle_behind(d, ref, n):
  """True iff some node with a condition lies on a cycle and is n or backward-reachable from n."""
  if not (d.cyclic and d.has_cond):
    return False
  for c in ref.back_reach(n):
    if d.cond[c] is None:
      continue
    # c on a cycle: c backward-reachable from one of its own predecessors
    if any(c in ref.back_reach(p) for p in d.pred[c]):
      return True
  return False


def metrics_of(program):
  m = program.calculate_metrics()
  q = fc = sc = hits = 0
  for sm in m.solver_metrics:
    for qm in sm.query_metrics:
      q += 1
      fc += bool(qm.from_cache)
      sc += bool(qm.shortcircuited)
    cm = sm.cache_metrics
    hits += cm.hits
  return {"solver_queries": q, "from_cache": fc, "shortcircuited": sc, "state_cache_hits": hits,
          "solver_instances": len(m.solver_metrics)}


def child(arg):
  kind = arg["kind"]
  st = Stats()
  met = {"solver_queries": 0, "from_cache": 0, "shortcircuited": 0, "state_cache_hits": 0,
         "solver_instances": 0}
  rng = random.Random(arg.get("seed", 0))

  def one(ops, tag, max_subsets=None):
    real = tg.Real()
    real.replay(ops)
    d = judge(real, st, rng, ops=[list(o) for o in ops], max_subsets=max_subsets, tag=tag)
    m = metrics_of(real.p)
    for k in met:
      met[k] += m[k]
    return d

  if kind == "exhaustive":
    n = arg["n"]
    lo, hi, step = arg["lo"], arg["hi"], arg.get("step", 1)
    for idx in range(lo, hi, step):
      ops = exhaustive_ops(n, idx)
      one(ops, f"exhaustive n={n} idx={idx}")
    st.samples.append({"kind": "exhaustive", "n": n, "idx": idx, "ops": [list(o) for o in ops]})
  elif kind == "random":
    for i in range(arg["count"]):
      general = arg["general"]
      ops = random_ops(rng, general)
      one(ops, f"random general={general}", max_subsets=arg.get("max_subsets", 1500))
      if i == 0:
        st.samples.append({"kind": "random", "general": general, "ops": [list(o) for o in ops]})
  elif kind == "vm":
    from vf import pt
    from vf.gen import programs
    for i in range(arg["count"]):
      src = programs.generate(random.Random(rng.randrange(1 << 30)))
      try:
        res = pt.analyze(src, keep_ctx=True)
      except Exception as e:  # pylint: disable=broad-except
        st.c["vm_failed"] = st.c.get("vm_failed", 0) + 1
        continue
      program = res.ctx.program
      judge_live(program, st, rng, arg.get("queries", 200), src)
      m = metrics_of(program)
      for k in met:
        met[k] += m[k]
  out = {"counters": st.c, "violations": st.violations[:20], "nviol": len(st.violations),
         "fps": st.fps, "samples": st.samples, "metrics": met}
  return out


def judge_live(program, st, rng, nq, src):
  """Type-(2) laws on a real (cyclic, conditional, large) VM graph with sampled queries."""
  d = tg.export(program)
  ref = tg.Ref(d, budget=3000)
  st.c["graphs"] += 1
  st.c["live_vm_graphs"] = st.c.get("live_vm_graphs", 0) + 1
  st.c["live_vm_nodes"] = st.c.get("live_vm_nodes", 0) + d.n
  nodes = program.cfg_nodes
  bobj = d.objs
  by_node = {}
  for bid in bobj:
    for w in d.borig[bid]:
      by_node.setdefault(w, []).append(bid)
  bids = sorted(bobj)
  if not bids:
    return
  pos = neg = 0
  reach_cache = {}

  def lviol(what, n, G, **kw):
    w = {"what": what, "key": what, "tag": "live VM graph", "src": src, "node": n, "goals": list(G)}
    w.update(kw)
    if cond_cycle_behind(d, ref, n):
      w["key"] = KNOWN_CYCLE_KEY
    st.violations.append(w)

  def back(n):
    if n not in reach_cache:
      reach_cache[n] = ref.back_reach(n)
    return reach_cache[n]

  for _ in range(nq):
    nd = rng.choice(nodes)
    n = nd.id
    k = rng.choice([1, 1, 2, 2, 3])
    # bias goals towards bindings that originate behind the query node
    br = back(n)
    near = [b for w in list(br)[:40] for b in by_node.get(w, [])]
    src_pool = near if near and rng.random() < 0.8 else bids
    G = tuple(sorted(set(rng.choice(src_pool) for _ in range(k))))
    got = nd.HasCombination([bobj[g] for g in G])
    st.c["queries"] += 1
    pos += got
    neg += not got
    try:
      ref.steps = 0
      want = ref.explained(n, G)
      if want and not got:
        if d.cyclic:
          st.c["cyclic_solver_stricter_than_reference(not judged)"] = st.c.get(
              "cyclic_solver_stricter_than_reference(not judged)", 0) + 1
        else:
          lviol("solver rejects a combination that has an explaining path", n, G)
      if got and not want:
        st.c["solver_more_permissive"] += 1
    except (tg.Budget, RecursionError):
      st.c["undecided_budget"] += 1
    if got:
      for g in G:
        if not any(w in br for w in d.borig[g]):
          lviol("accepted combination has a goal that is not backward-reachable", n, G, goal=g)
      if not nd.CanHaveCombination([bobj[g] for g in G]):
        lviol("HasCombination true but CanHaveCombination false", n, G)
      for kk in range(1, len(G)):
        for sub in itertools.combinations(G, kk):
          st.c["subset_checks"] += 1
          if not nd.HasCombination([bobj[g] for g in sub]):
            if d.cyclic and _cycle_behind(d, ref, n):
              # a live graph cannot be rebuilt to ask the subset first; on cyclic graphs the answer may
              # depend on earlier queries in the same solver (C08 known finding): counted, not judged
              st.c["live_cyclic_subset_not_judged"] = st.c.get("live_cyclic_subset_not_judged", 0) + 1
              continue
            lviol("subset of an accepted combination is rejected", n, G, subset=list(sub))
  st.c["positive"] += pos
  st.c["negative"] += neg
  if pos and neg:
    st.fps.append(common.fp(src))


# ---------------------------------------------------------------------------


def _tasks(tier, seed):
  rng = random.Random(f"C07-{seed}")
  tasks = []
  total3 = exhaustive_size(3)
  total2 = exhaustive_size(2)

  def add(variant, arg, tid, timeout=3000):
    tasks.append({"fn": "vf.checks.c07:child", "variant": variant, "arg": arg, "id": tid,
                  "timeout": timeout})

  if tier == "quick":
    # n=2 completely; n=3 by a stride (offset varies with the seed so repeated runs cover more)
    stride3, shards3 = 61, 12
    rnd_dag, rnd_gen, cnt = 10, 10, 60
    asan_frac = 4
    vm_batches, vm_count = 4, 2
  else:
    stride3, shards3 = 1, 64
    rnd_dag, rnd_gen, cnt = 48, 48, 400
    asan_frac = 3
    vm_batches, vm_count = 16, 12
  off = seed % stride3
  for variant in ("plain", "asan"):
    sh2 = 2
    per = (total2 + sh2 - 1) // sh2
    for s in range(sh2):
      add(variant, {"kind": "exhaustive", "n": 2, "lo": s * per, "hi": min(total2, (s + 1) * per)},
          f"{variant}/exh2/{s}")
    st3 = stride3 if variant == "plain" else stride3 * asan_frac
    per = (total3 + shards3 - 1) // shards3
    for s in range(shards3):
      add(variant, {"kind": "exhaustive", "n": 3, "lo": s * per + off, "hi": min(total3, (s + 1) * per),
                    "step": st3}, f"{variant}/exh3/{s}")
    nb = rnd_dag if variant == "plain" else max(2, rnd_dag // asan_frac)
    for b in range(nb):
      add(variant, {"kind": "random", "general": False, "count": cnt, "seed": rng.randrange(1 << 30)},
          f"{variant}/dag/{b}")
    nb = rnd_gen if variant == "plain" else max(2, rnd_gen // asan_frac)
    for b in range(nb):
      add(variant, {"kind": "random", "general": "cond" if b % 2 == 0 else "cyclic", "count": cnt,
                    "seed": rng.randrange(1 << 30)}, f"{variant}/gen/{b}")
  for b in range(vm_batches):
    add("plain", {"kind": "vm", "count": vm_count, "seed": rng.randrange(1 << 30), "queries": 300},
        f"plain/vm/{b}")
  return tasks, {"n2_total": total2, "n3_total": total3, "n3_stride": stride3}


def run(tier, seed):
  from vf import boot
  boot.build_ext("asan")
  ck = common.Check(
      PID, tier, seed,
      rule=("graphs: (a) tiny-graph enumeration (<=3 nodes in DAG order, variables x{x0,x1}, y{y0}, up to "
            "2 origins for x0, 6 source-set families per origin; n=2 complete, n=3 complete in thorough and by "
            "stride in quick), (b) random DAGs, (c) random graphs with back edges and node conditions, (d) live "
            "typegraphs of VM analyses of generated programs. evaluations = graphs judged (each: every node x every "
            "binding subset of size<=3, sampled on large graphs). non-trivial = graph with at least one accepted and "
            "one rejected query; distinct by exported-graph fingerprint."))
  tasks, info = _tasks(tier, seed)
  agg = {}
  met = {}
  by_variant = {"plain": 0, "asan": 0}
  failed_exh = 0
  for res in pool.run_tasks(tasks):
    tid = str(res.get("task"))
    if not res.get("ok"):
      ck.child_failed(res, f"C07 batch {tid}")
      failed_exh += "exh" in tid
      continue
    if pool.sanitizer_report(res):
      ck.violation("sanitizer-report", {"task": tid, "report": res["stderr"]})
    r = res["result"]
    by_variant[tid.split("/")[0]] += r["counters"]["graphs"]
    ck.merge_cases(r["counters"]["graphs"], r["fps"])
    for k, v in r["counters"].items():
      if k == "max_goals":
        agg[k] = max(agg.get(k, 0), v)
      else:
        agg[k] = agg.get(k, 0) + v
    for k, v in r["metrics"].items():
      met[k] = met.get(k, 0) + v
    for s in r["samples"]:
      ck.sample(s, cap=4)
    for w in r["violations"]:
      ck.violation(w.get("key") or w["what"], w)
  for k, v in agg.items():
    ck.count(k, v)
  ck.extra["solver_metrics_observed"] = met
  ck.extra["graphs_by_build"] = by_variant
  ck.extra["exhaustive_space"] = info
  ck.exhaustive = False
  ck.extra["exhaustive_slices_complete"] = (
      {"n2": failed_exh == 0, "n3": failed_exh == 0 and info["n3_stride"] == 1})
  ck.assumptions = [
      "the graph read back through cfg_nodes/variables/bindings/origins/source_sets is the graph the solver sees",
      "reference model = property statement: nondeterministic goal removal at a node, one predecessor per step",
  ]
  if agg.get("positive", 0) == 0 or agg.get("negative", 0) == 0:
    ck.inconclusive("solver never accepted or never rejected a query")
  if by_variant["asan"] == 0:
    ck.inconclusive("sanitizer build produced no observations")
  return ck.finish()


def replay(rec):
  w = rec["witness"]
  if not w.get("ops"):
    print("witness without op list (live VM graph / sanitizer): re-run the check")
    return 2
  st = Stats()
  real = tg.Real().replay(w["ops"])
  judge(real, st, random.Random(0), ops=w["ops"], tag="replay")
  known = common.load_known(PID)
  bad = [v for v in st.violations if v.get("key") not in known]
  if bad:
    print(f"VIOLATION property={PID} replay=<replayed>")
    print({k: v for k, v in bad[0].items() if k != "ops"})
    return 1
  print("replay: no (unlisted) disagreement")
  return 0
