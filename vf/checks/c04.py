"""C04 - analysis output is a pure function of source and options.

Offline checker over recorded runs.  Every run is a child process that analyses
the programs of one batch under one configuration and records, per program, the
stub text, the ordered error report (tuples + printed log) and the sha256 of the
pickled stub produced by the steps of io.write_pickle.  Configurations vary the
interpreter hash seed, the in-process history (isolated process; after j other
programs; reversed batch order; one Loader reused for the whole batch) and the
address space (objects allocated and kept before analysing, gc disabled).  All
records for one program must be identical.  Layer A: postcondition on
ErrorLog.unique_sorted_errors in every run.
"""
from __future__ import annotations

import collections
import difflib
import os
import random

from vf import common, pool

PID = "C04"

RULE = ("programs: 1/3 vf.gen.programs (clean loop-free), 1/3 vf.gen.errorful.generate (error-rich placements), "
        "1/3 vf.gen.errorful.generate_ordering (many classes/names, unions of >=4 members, multiple inheritance, "
        "**kwargs, mixed dict/set literals, several errors per line); one evaluation = one recorded run of one "
        "program under one non-baseline configuration compared (stub text, error report, pickle digest) with "
        "the isolated hash-seed-0 run; distinct by program text; non-trivial = program whose baseline stub has a "
        "union of >=3 members or whose report has >=2 errors")


def configs(tier):
  base = {"name": "base", "hashseed": "0", "isolated": True}
  if tier == "quick":
    rest = [
        {"hashseed": "1", "j": 1, "perturb": 2000},
        {"hashseed": "2", "reuse_loader": True, "reverse": True},
        {"hashseed": "random", "j": 3, "gc_disable": True, "perturb": 20000},
        {"hashseed": "4242", "reverse": True, "perturb": 500},
        {"hashseed": "7", "reuse_loader": True, "j": 1, "gc_disable": True, "perturb": 5000},
    ]
  else:
    rest = [
        {"hashseed": "1", "j": 1, "perturb": 2000},
        {"hashseed": "2", "reuse_loader": True, "reverse": True},
        {"hashseed": "random", "j": 3, "gc_disable": True, "perturb": 20000},
        {"hashseed": "4242", "reverse": True, "perturb": 500},
        {"hashseed": "7", "reuse_loader": True, "j": 1, "gc_disable": True, "perturb": 5000},
        {"hashseed": "0", "j": 3},                                   # history only
        {"hashseed": "0", "reuse_loader": True},                     # loader only
        {"hashseed": "0", "perturb": 50000, "gc_disable": True},     # address space only
        {"hashseed": "3"},                                           # hash seed only
        {"hashseed": "5", "reverse": True, "j": 1},
        {"hashseed": "6", "reuse_loader": True, "j": 3, "perturb": 300},
        {"hashseed": "8", "gc_disable": True},
        {"hashseed": "9", "perturb": 100000},
        {"hashseed": "random", "reuse_loader": True, "reverse": True, "perturb": 1000},
        {"hashseed": "31337", "j": 1, "reverse": True, "gc_disable": True},
    ]
  for i, c in enumerate(rest):
    c["name"] = "c%d:" % (i + 1) + ",".join(f"{k}={v}" for k, v in sorted(c.items()))
  return [base] + rest


def child(arg):
  from vf.oracle import c04_digest as dg
  return dg.run_config(arg["programs"], arg.get("others") or [], arg["config"])


def make_programs(seed, n):
  from vf.gen import errorful, programs
  out = []
  for i in range(n):
    rng = random.Random(f"{PID}-{seed}-prog-{i}")
    kind = ("clean", "errorful", "ordering")[i % 3]
    if kind == "clean":
      src = programs.generate(rng)
    elif kind == "errorful":
      src = errorful.generate(rng, rng.randint(4, 9))[0]
    else:
      src = errorful.generate_ordering(rng)
    out.append({"id": f"p{i}", "kind": kind, "src": src})
  return out


def make_others(seed):
  from vf.gen import errorful, programs
  out = []
  for i in range(6):
    rng = random.Random(f"{PID}-{seed}-other-{i}")
    # history programs only have to have been analysed before the target: five cheap ones and one
    # ordering-stress program (the heavy kind) keep the quick tier inside its budget
    kind = ("clean", "errorful", "clean", "errorful", "ordering", "clean")[i]
    out.append({"clean": programs.generate, "errorful": lambda g: errorful.generate(g, 5)[0],
                "ordering": errorful.generate_ordering}[kind](rng))
  return out


def _task(batch_id, progs, others, cfg, seed):
  c = dict(cfg)
  c["perturb_seed"] = f"{seed}-{batch_id}-{cfg['name']}"
  return {"fn": "vf.checks.c04:child", "id": f"{batch_id}|{cfg['name']}", "timeout": 5400,
          "hashseed": cfg["hashseed"],
          "arg": {"programs": [{"id": p["id"], "src": p["src"]} for p in progs], "others": others, "config": c}}


def attribute(cfgs_by_digest):
  """cfgs_by_digest: {digest: [config dicts]} (>=2 digests) -> axis string."""
  groups = list(cfgs_by_digest.values())

  def splits(pred):
    vals = [{bool(pred(c)) for c in g} for g in groups]
    return all(len(v) == 1 for v in vals) and len({next(iter(v)) for v in vals}) == 2 and len(groups) == 2

  if splits(lambda c: c.get("reuse_loader")):
    return "reused Loader vs fresh Loader"
  if splits(lambda c: c.get("isolated")):
    return "isolated hash-seed-0 process vs every other configuration"
  if splits(lambda c: c.get("j", 0) > 0):
    return "other programs analysed earlier in the process"
  by_seed = collections.defaultdict(set)
  for d, g in cfgs_by_digest.items():
    for c in g:
      if c["hashseed"] != "random":
        by_seed[c["hashseed"]].add(d)
  n_per_seed = collections.Counter(c["hashseed"] for g in groups for c in g if c["hashseed"] != "random")
  if all(len(v) == 1 for v in by_seed.values()) and len({next(iter(v)) for v in by_seed.values()}) > 1:
    if max(n_per_seed.values(), default=0) >= 2:
      return "PYTHONHASHSEED"          # configurations sharing a seed agree, different seeds differ
    return "hash seed or history (every configuration of this tier has its own hash seed)"
  return "unattributed (address layout / gc / mixed factors)"


def compare_program(prog, runs, cfg_by_name):
  """runs: {config name: outputs}.  Returns list of (key, witness)."""
  out = []
  base = runs.get("base")
  if base is None:
    return out
  for field, label in (("pyi", "stub text"), ("errors", "error report"), ("pickle_sha", "pickled stub bytes")):
    by = collections.defaultdict(list)
    for name, o in runs.items():
      by[o[field]].append(cfg_by_name[name])
    if len(by) < 2:
      continue
    if field == "pickle_sha" and len({o["pyi"] for o in runs.values()}) > 1:
      continue   # consequence of the stub-text difference already reported
    other_name = next(n for n, o in runs.items() if o[field] != base[field])
    other = runs[other_name]
    raised = bool(base.get("raised")) != bool(other.get("raised"))
    axis = attribute(by)
    if field == "pickle_sha":
      dclass = "stub text identical"
      diff = []
    else:
      from vf.oracle import c04_digest as dg
      dclass = dg.diff_class(base[field], other[field])
      diff = list(difflib.unified_diff(base[field].splitlines(), other[field].splitlines(),
                                       "base", other_name, lineterm="", n=1))[:80]
    if raised:
      key = f"analysis raises in one configuration and completes in another ({axis})"
    else:
      key = f"{label} differs between configurations ({axis}; {dclass})"
    out.append((key, {"program": prog["id"], "kind": prog["kind"], "src": prog["src"], "field": field,
                      "config_a": cfg_by_name["base"], "config_b": cfg_by_name[other_name],
                      "partition": {d[:12] if field == "pickle_sha" else common.fp(d): [c["name"] for c in g]
                                    for d, g in by.items()},
                      "diff": diff}))
  return out


def run(tier, seed):
  ck = common.Check(PID, tier, seed, rule=RULE)
  nprog, bsize = (40, 8) if tier == "quick" else (160, 8)
  nprog = int(os.environ.get("VERIF_C04_NPROG", nprog))   # development aid only
  cfgs = configs(tier)
  cfg_by_name = {c["name"]: c for c in cfgs}
  progs = make_programs(seed, nprog)
  others = make_others(seed)
  by_id = {p["id"]: p for p in progs}
  tasks = []
  batches = {}
  for b in range(0, nprog, bsize):
    bid = f"b{b // bsize}"
    batch = progs[b:b + bsize]
    batches[bid] = batch
    for p in batch:
      tasks.append(_task(bid + "/" + p["id"], [p], [], cfgs[0], seed))
    for cfg in cfgs[1:]:
      tasks.append(_task(bid, batch, others, cfg, seed))
  runs = collections.defaultdict(dict)     # program id -> config name -> outputs
  hash_probes = collections.defaultdict(set)
  mon_records = []
  results = []
  for res in pool.run_tasks(tasks):
    if not res.get("ok"):
      ck.child_failed(res, "run " + str(res.get("task")))
      continue
    results.append(res)
  # Runs are comparable only if they analysed with the same pytype sources: the checkout may be
  # edited by somebody else while the check runs.  Keep the runs of the most common tree
  # fingerprint (stable from start to end of the child); anything else is not judged.
  fps = collections.Counter(r["result"]["tree_fp"][0] for r in results
                            if r["result"]["tree_fp"][0] == r["result"]["tree_fp"][1])
  main_fp = fps.most_common(1)[0][0] if fps else None
  for res in results:
    r = res["result"]
    if r["tree_fp"] != [main_fp, main_fp]:
      ck.count("runs_not_judged_pytype_sources_changed_during_run", len(r["results"]))
      continue
    cname = str(res["task"]).split("|", 1)[1]
    hash_probes[cfg_by_name[cname]["hashseed"]].add(r["hash_probe"])
    ck.count("recorded_runs", len(r["results"]))
    ck.count("other_programs_analysed_as_history", r["others_analysed"])
    ck.count("objects_kept_for_address_perturbation", r["kept_objects"])
    m = r["monitor"]
    ck.count("unique_sorted_errors_postcondition_evals", m["evals"])
    ck.count("unique_sorted_errors_nonempty_evals", m["nonempty"])
    ck.count("unique_sorted_errors_errors_seen", m["errors_seen"])
    ck.count("error_groups_with_several_tracebacks", m["multi_traceback_groups"])
    for rec in m["records"]:
      mon_records.append(rec)
    for pid_, o in r["results"].items():
      runs[pid_][cname] = o
  from vf.oracle import c04_digest as dg
  complete = 0
  for pid_, p in by_id.items():
    rs = runs.get(pid_, {})
    if "base" not in rs or len(rs) < 2:
      ck.count("programs_without_enough_runs")
      continue
    if len(rs) == len(cfgs):
      complete += 1
    base = rs["base"]
    nt = dg.max_union_width(base["pyi"]) >= 3 or base.get("n_errors", 0) >= 2
    ck.case(common.fp(p["src"]), nt, n=len(rs) - 1)
    ck.count("programs_" + p["kind"])
    if nt:
      ck.count("nontrivial_programs")
    if base.get("raised"):
      ck.count("baseline_analysis_raised")
    if base.get("pickle_len", -1) < 0:
      ck.count("baseline_pickle_export_failed")
    ck.count("baseline_errors_total", base.get("n_errors", 0))
    if dg.max_union_width(base["pyi"]) >= 4:
      ck.count("programs_with_union_of_4_or_more")
    for key, w in compare_program(p, rs, cfg_by_name):
      w["batch"] = next(b for b, ps in batches.items() if any(q["id"] == pid_ for q in ps))
      w["batch_programs"] = [{"id": q["id"], "src": q["src"]} for q in batches[w["batch"]]]
      w["others"] = others
      ck.violation(key, w)
    if len(ck.samples) < 4:
      ck.sample({"program": pid_, "kind": p["kind"], "lines": p["src"].count("\n"),
                 "stub_sha": dg.sha(base["pyi"])[:12], "errors": base.get("n_errors"),
                 "max_union": dg.max_union_width(base["pyi"]), "runs_equal": len(rs)})
  for rec in mon_records[:10]:
    ck.violation("Layer A: " + rec["what"], {"kind": "layerA", **rec})
  ck.count("programs_with_all_configurations", complete)
  ck.extra["configurations"] = [c["name"] for c in cfgs]
  ck.extra["distinct_hash_probe_values_per_seed"] = {k: len(v) for k, v in hash_probes.items()}
  ck.extra["distinct_hash_functions_observed"] = len({x for v in hash_probes.values() for x in v})
  ck.exhaustive = False
  ck.assumptions = [
      "hash seeds, histories and address layouts are sampled: a nondeterminism that needs a rare layout can be missed",
      "options are identical in all runs (python 3.12, module_name c04mod, empty typeshed)",
      "the reused-Loader configuration passes one load_pytd.create_loader(options) object to io.generate_pyi for "
      "every program of the batch, with the same Options object",
  ]
  ck.extra["pytype_tree_fingerprints_seen"] = len(fps) + sum(
      1 for r in results if r["result"]["tree_fp"][0] != r["result"]["tree_fp"][1])
  if ck.counters["runs_not_judged_pytype_sources_changed_during_run"]:
    ck.inconclusive("the pytype checkout was modified while the check was running: "
                    f"{ck.counters['runs_not_judged_pytype_sources_changed_during_run']} recorded runs were not judged")
  if ck.counters["recorded_runs"] == 0 or complete == 0:
    ck.inconclusive("no program was recorded under all configurations")
  if ck.extra["distinct_hash_functions_observed"] < 3:
    ck.inconclusive("hash seeds did not produce different hash functions")
  if ck.counters["unique_sorted_errors_nonempty_evals"] == 0:
    ck.inconclusive("unique_sorted_errors monitor never saw an error")
  return ck.finish()


def replay(rec):
  w = rec["witness"]
  if w.get("kind") == "layerA":
    print("Layer-A record; re-run the check:", w.get("what"))
    return 2
  seed = rec.get("seed", 0)
  target = {"id": w["program"], "src": w["src"], "kind": w["kind"]}
  ca, cb = w["config_a"], w["config_b"]
  tasks = [_task(w["batch"] + "/" + w["program"], [target], [], ca, seed),
           _task(w["batch"], w["batch_programs"], w["others"], cb, seed)]
  runs = {}
  for res in pool.run_tasks(tasks):
    if not res.get("ok"):
      print("replay run failed:", res.get("error"))
      return 2
    cname = str(res["task"]).split("|", 1)[1]
    runs[cname] = res["result"]["results"][w["program"]]
  out = compare_program(target, runs, {ca["name"]: ca, cb["name"]: cb})
  if out:
    print(f"VIOLATION property={PID} replay=<replayed>")
    for key, ww in out:
      print("  mechanism:", key)
      print("\n".join(ww["diff"][:40]))
    return 1
  print("replay: outputs identical under both configurations")
  return 0
