"""C10 - class linearisation agrees with CPython's MRO.

Layer B (differential against the running interpreter):
  src  path: generated hierarchies are analysed as source.  CPython creates the
             same classes statement by statement; compared are (a) [mro-error] on a
             class statement <=> TypeError creating it, (b) the marker type of the
             probes `p = C.a_j`, `q = C().a_j` in the emitted stub <=> the class in
             which CPython's __mro__ lookup finds a_j.
  stub path: classes 0..split-1 of a hierarchy are written to a .pyi that pytype
             loads through its own loader (pythonpath), the rest stays source and
             derives from the stub classes through `import`; compared are
             mro.GetBasesInMRO on every stub class <=> CPython's __mro__[1:],
             [mro-error] (by class name) and the probe types as above.
Layer A: vf.oracle.c10_mro.install_monitor() compares every mro.MROMerge call made
  during those analyses with an independent C3.
"""
from __future__ import annotations

import os
import random
import shutil

from vf import common, pool
from vf.gen import hierarchies as H
from vf.oracle import c10_mro as O

PID = "C10"
DUP_SRC = "duplicate base accepted: no [mro-error]"
DUP_STUB_USE = "duplicate base accepted: no [mro-error] when the stub class is used"
DUP_STUB_MRO = "duplicate base accepted: mro.GetBasesInMRO succeeds on the stub class"
LEAF_CHUNK = 22


# --------------------------------------------------------------------------
# judging one module


class Acc:
  def __init__(self):
    self.c = {}
    self.n = 0
    self.fps = set()
    self.violations = []
    self.samples = []
    self.errkinds = {}

  def count(self, k, n=1):
    self.c[k] = self.c.get(k, 0) + n


def _type_name(t):
  from pytype.pytd import pytd, pytd_utils
  if isinstance(t, pytd.ClassType):
    return t.name
  return pytd_utils.Print(t)


def _witness(path, h, i, split, **kw):
  h2, i2 = H.closure(h, i)
  w = {"path": path, "hierarchy": h2, "cls": i2, "skeleton": H.skeleton(h, i)}
  if split is not None:
    # classes of the closure that were stub classes
    need = sorted(_closure_set(h, i))
    w["stub_classes"] = [n for n, k in enumerate(need) if k < split]
  w.update(kw)
  return w


def _closure_set(h, i):
  need = set()

  def visit(k):
    if k in need:
      return
    need.add(k)
    for b in h["classes"][k]["bases"]:
      if b != "o":
        visit(b)
  visit(i)
  return need


def _case_fp(acc, path, h, i, split):
  h2, _ = H.closure(h, i)
  if H.is_nontrivial(h2):
    tag = path if split is None else f"{path}:{sorted(k for k in _closure_set(h, i) if k < split)}"
    acc.fps.add(common.fp([tag, h2]))


def judge_module(items, path, acc, scratch=None, modname=None):
  """items: list of (pfx, h, split).  split is None on the src path; on the stub path
  classes with index < split are rendered into <modname>.pyi under `scratch`."""
  from vf import pt
  cps = [O.cpython_eval(h, pfx) for pfx, h, _ in items]
  lines = []
  pyi = []
  line_of = {}       # (item, i) -> (first, last) line of the class statement (source classes)
  probes = []        # (name, item, i, j, via, expected marker name)
  users = {}         # stub path: (item, i) -> line that first touches the stub class
  if path == "stub":
    lines.append(f"import {modname}")
  for n, (pfx, h, split) in enumerate(items):
    cp = cps[n]
    for i, c in enumerate(h["classes"]):
      if cp[i]["status"] == "skipped":
        acc.count("class statements dropped (a base was refused by CPython)")
        continue
      in_stub = split is not None and i < split
      if in_stub:
        pyi.extend(H.marker_stmts_pyi(h, i, pfx))
        pyi.append(H.class_stmt_pyi(h, i, pfx))
        lines.append(f"{pfx}u{i} = {modname}.{H.cname(pfx, i)}")
        users[(n, i)] = len(lines)
      else:
        lines.extend(H.marker_stmts_py(h, i, pfx))
        st = H.class_stmt_py(h, i, pfx, modname if split is not None else None, split).split("\n")
        line_of[(n, i)] = (len(lines) + 1, len(lines) + len(st))
        lines.extend(st)
    for i, c in enumerate(h["classes"]):
      if cp[i]["status"] != "ok":
        continue
      in_stub = split is not None and i < split
      if i < h.get("probe_from", 0):
        continue
      ref = f"{modname}.{H.cname(pfx, i)}" if in_stub else H.cname(pfx, i)
      for j, owner in sorted(cp[i]["owners"].items()):
        exp = H.mname(pfx, owner, j)
        lines.append(f"{pfx}p{i}_{j} = {ref}.a{j}")
        probes.append((f"{pfx}p{i}_{j}", n, i, j, "class", exp))
        if h.get("class_probes_only"):
          continue
        lines.append(f"{pfx}q{i}_{j} = {ref}().a{j}")
        probes.append((f"{pfx}q{i}_{j}", n, i, j, "instance", exp))
  src = "\n".join(lines) + "\n"
  kw = {}
  if path == "stub":
    with open(os.path.join(scratch, modname + ".pyi"), "w") as f:
      f.write("\n".join(pyi) + "\n")
    kw["pythonpath"] = scratch
    _judge_stub_mros(items, cps, acc, scratch, modname)
  res = pt.analyze(src, **kw)
  acc.count(f"modules analysed ({path})")
  mro_lines = {}
  mro_names = {}
  for name, line, msg in res.errors:
    acc.errkinds[name] = acc.errkinds.get(name, 0) + 1
    if name == "mro-error":
      mro_lines.setdefault(line, []).append(msg)
      mro_names.setdefault(msg.split(" ")[0], []).append(line)
  consts = {c.name: c.type for c in res.ast.constants}
  attributed = set()
  for n, (pfx, h, split) in enumerate(items):
    cp = cps[n]
    for i, c in enumerate(h["classes"]):
      st = cp[i]["status"]
      if st == "skipped":
        continue
      in_stub = split is not None and i < split
      cn = H.cname(pfx, i)
      if in_stub:
        got = cn in mro_names
        attributed.update(mro_names.get(cn, []))
      else:
        lo, hi = line_of[(n, i)]
        hit = [l for l in range(lo, hi + 1) if l in mro_lines]
        got = bool(hit)
        attributed.update(hit)
      want = st == "error"
      acc.n += 1
      acc.count(f"class statements judged ({path})")
      acc.count("CPython refuses (TypeError)" if want else "CPython creates")
      if want:
        acc.count("refusal kinds: " + _refusal_kind(cp[i]["msg"]))
      _case_fp(acc, path, h, i, split)
      if got != want:
        dup = O.duplicate_base(h, i)
        if want and dup:
          key = DUP_STUB_USE if in_stub else DUP_SRC
        else:
          where = "stub class" if in_stub else ("source class over stub bases" if split else "source class")
          key = (f"{'missed' if want else 'spurious'} [mro-error] ({where}): {H.skeleton(h, i)}")
        acc.violations.append({"key": key, **_witness(
            path, h, i, split, cpython=cp[i], pytype_mro_error=got,
            statement=(H.class_stmt_pyi if in_stub else H.class_stmt_py)(h, i, ""))})
  for line in sorted(set(mro_lines) - attributed):
    acc.violations.append({"key": f"[mro-error] on a line that is no judged class statement ({path})",
                           "path": path, "line": line, "message": mro_lines[line], "source": src})
  for name, n, i, j, via, exp in probes:
    pfx, h, split = items[n]
    t = consts.get(name)
    got = _type_name(t) if t is not None else "<no such name in the stub>"
    got_short = got.rsplit(".", 1)[-1]
    acc.n += 1
    acc.count(f"attribute probes judged ({path}, via {via})")
    owner = int(exp[len(pfx) + 1:].split("_")[0])
    if owner != i:
      acc.count("probes resolved in a base class")
      pos = cps[n][i]["mro"].index(owner)
      acc.count("probes: depth of the defining class in __mro__ >= 2" if pos >= 2
                else "probes: defining class is first base in __mro__")
    if got_short != exp:
      need = sorted(_closure_set(h, i))
      ren = {k: m for m, k in enumerate(need)}
      defs = [ren[k] for k in need if j in h["classes"][k]["attrs"]]
      if got_short.startswith(pfx + "M") and got_short.endswith(f"_{j}"):
        gk = int(got_short[len(pfx) + 1:].split("_")[0])
        gtxt = f"K{ren.get(gk, '?')}"
      else:
        gtxt = "type " + got.replace(pfx, "")
      where = "src" if split is None else ("stub class" if i < split else "source class over stub bases")
      key = (f"attribute found in the wrong class ({where}, via {via}): {H.skeleton(h, i)}; "
             f"defined in {['K%d' % d for d in defs]}; CPython finds K{ren[owner]}, pytype {gtxt}")
      acc.violations.append({"key": key, **_witness(path, h, i, split, attr=f"a{j}", via=via,
                                                    expected=exp.replace(pfx, ""), got=got.replace(pfx, ""),
                                                    cpython_mro=cps[n][i]["mro"])})
  if len(acc.samples) < 2 and items:
    pfx, h, split = items[0]
    acc.samples.append({"path": path, "split": split, "hierarchy_head": {"classes": h["classes"][:6]},
                        "n_classes": len(h["classes"]), "cpython_head": cps[0][:6]})
  return src


def _refusal_kind(msg):
  if "duplicate base" in msg:
    return "duplicate base class"
  if "consistent method resolution" in msg:
    return "no consistent MRO"
  return msg[:40]


def _judge_stub_mros(items, cps, acc, scratch, modname):
  """mro.GetBasesInMRO on the loaded stub classes vs __mro__[1:]."""
  from pytype import load_pytd
  from pytype.pytd import mro
  from vf import pt
  loader = load_pytd.create_loader(pt.options(pythonpath=scratch))
  ast = loader.import_name(modname)
  if ast is None:
    acc.count("stub module failed to load")
    return
  classes = {c.name: c for c in ast.classes}
  for n, (pfx, h, split) in enumerate(items):
    cp = cps[n]
    for i in range(min(split, len(h["classes"]))):
      if cp[i]["status"] == "skipped":
        continue
      cls = classes.get(f"{modname}.{H.cname(pfx, i)}")
      if cls is None:
        acc.count("stub class missing after load (not judged)")
        continue
      try:
        got = [b.name for b in mro.GetBasesInMRO(cls)]
        raised = False
      except mro.MROError:
        got, raised = None, True
      acc.n += 1
      acc.count("GetBasesInMRO judged (stub classes)")
      want_err = cp[i]["status"] == "error"
      if want_err != raised:
        if want_err and O.duplicate_base(h, i):
          key = DUP_STUB_MRO
        else:
          key = (f"GetBasesInMRO {'accepts' if want_err else 'refuses'} a stub class CPython "
                 f"{'refuses' if want_err else 'creates'}: {H.skeleton(h, i)}")
        acc.violations.append({"key": key, **_witness("stub", h, i, split, cpython=cp[i], got=got,
                                                      what="GetBasesInMRO")})
        continue
      if not raised:
        want = ["builtins.object" if m == "o" else f"{modname}.{H.cname(pfx, m)}" for m in cp[i]["mro"][1:]]
        if got != want:
          key = f"GetBasesInMRO order differs from __mro__: {H.skeleton(h, i)}"
          acc.violations.append({"key": key, **_witness(
              "stub", h, i, split, what="GetBasesInMRO", got=[g.replace(pfx, "") for g in got],
              expected=[g.replace(pfx, "") for g in want])})


def judge_stub_mros_only(items, acc, scratch, modname):
  """Cheap path: the hierarchies (attribute-less) are written to one .pyi, loaded by pytype's
  loader and only mro.GetBasesInMRO of every class is compared with __mro__ (the loader's own
  VerifyContainers pass and these calls all go through the monitored MROMerge)."""
  cps = [O.cpython_eval(h, pfx, check_attrs=False) for pfx, h, _ in items]
  pyi = []
  for n, (pfx, h, _) in enumerate(items):
    for i in range(len(h["classes"])):
      if cps[n][i]["status"] == "skipped":
        continue
      pyi.append(H.class_stmt_pyi(h, i, pfx))
      acc.count("stub classes written for the GetBasesInMRO-only slice")
      _case_fp(acc, "stubmro", h, i, None)
  with open(os.path.join(scratch, modname + ".pyi"), "w") as f:
    f.write("\n".join(pyi) + "\n")
  _judge_stub_mros(items, cps, acc, scratch, modname)
  acc.count("modules loaded (stubmro)")


# --------------------------------------------------------------------------
# child


def _canon_labels(seqs_list):
  ren = {}
  out = []
  for seqs in seqs_list:
    if seqs is None:
      out.append(None)
      continue
    o = []
    for s in (seqs if seqs and isinstance(seqs[0], list) else [seqs]):
      r = []
      for x in s:
        base = x.rsplit(".", 1)[-1]
        if base == "object":
          r.append("object")
        else:
          ren.setdefault(base, f"K{len(ren)}")
          r.append(ren[base])
      o.append(r)
    out.append(o)
  return out


def child(arg):
  st = O.install_monitor()
  rng = random.Random(arg["seed"])
  acc = Acc()
  hs = []
  if "families" in arg:
    for prefix, leaves in arg["families"]:
      for k in range(0, max(1, len(leaves)), LEAF_CHUNK):
        hs.append(H.family_to_hierarchy(prefix, leaves[k:k + LEAF_CHUNK], rng))
  if "targeted" in arg:
    for prefix, leaves in arg["targeted"]:
      if arg["kind"] == "stubmro":
        hs.append(H.bare_hierarchy(prefix, leaves))
      else:
        for k in range(0, len(leaves), 40):
          hs.append(H.pair_attr_hierarchy(prefix, leaves[k:k + 40]))
  if "random" in arg:
    for _ in range(arg["random"]["count"]):
      hs.append(H.random_hierarchy(rng, arg["random"]["max_classes"], 3, last_ok=O.last_ok))
  if "hierarchies" in arg:
    hs.extend(arg["hierarchies"])
  path = arg["kind"]
  budget = arg.get("classes_per_module", 110)
  scratch = None
  if path in ("stub", "stubmro"):
    from vf import boot
    scratch = os.path.join(boot.BUILD, "scratch", f"c10-{os.getpid()}")
    os.makedirs(scratch, exist_ok=True)
  try:
    batch, ncls, k = [], 0, 0
    mods = 0

    def flush():
      nonlocal batch, ncls, mods
      if batch:
        if path == "stubmro":
          judge_stub_mros_only(batch, acc, scratch, f"c10stub{mods}")
        else:
          judge_module(batch, path, acc, scratch, f"c10stub{mods}")
        mods += 1
      batch, ncls = [], 0

    for h in hs:
      n = len(h["classes"])
      if path == "stubmro":
        split = n
      elif path == "stub":
        mode = arg.get("split", "random")
        if mode == "all":
          split = n
        elif mode == "prefix":
          split = arg["prefix_len"]
        else:
          split = rng.choice([n, n, max(1, n - 1), max(1, n // 2), rng.randint(1, n)])
      else:
        split = None
      batch.append((f"H{k}_", h, split))
      k += 1
      ncls += n
      if ncls >= budget:
        flush()
    flush()
  finally:
    if scratch:
      shutil.rmtree(scratch, ignore_errors=True)
  snap = st.snapshot()
  recs = []
  for r in snap.pop("records"):
    c = _canon_labels([r["input"], r.get("got"), r.get("want")])
    r2 = {"what": r["what"], "input": c[0], "got": c[1] and c[1][0], "want": c[2] and c[2][0]}
    r2["key"] = f"Layer A: {r['what']}: input {c[0]}"
    recs.append(r2)
  # ship every distinct mechanism (first 3 witnesses each), so that a flood of one
  # mechanism can never push another one over the cap
  by_key = {}
  for v in acc.violations:
    by_key.setdefault(v["key"], []).append(v)
  shipped = []
  for key, vs in by_key.items():
    for v in vs[:3]:
      v["instances_in_batch"] = len(vs)
      shipped.append(v)
  return {"n": acc.n, "fps": sorted(acc.fps), "violations": shipped[:600],
          "nviol": len(acc.violations), "counters": acc.c, "samples": acc.samples,
          "errkinds": acc.errkinds, "monitor": snap, "monitor_records": recs[:40],
          "hierarchies": len(hs)}


# --------------------------------------------------------------------------
# driver


def _families(n_classes, max_bases, alphabet):
  return [[p, l] for p, l in H.enumerate_prefix_families(n_classes, max_bases, alphabet, O.legal_prefix)]


def _chunks(xs, n):
  return [xs[i:i + n] for i in range(0, len(xs), n)]


def _tasks(tier, seed):
  rng = random.Random(f"{PID}-{seed}-tasks")
  tasks = []
  info = {}

  def add(kind, tid, **arg):
    arg.update({"kind": kind, "seed": rng.randrange(1 << 30)})
    tasks.append({"fn": "vf.checks.c10:child", "arg": arg, "id": tid, "timeout": 5400})

  # (alphabet, n classes, max bases, families per task)
  if tier == "quick":
    fam_specs = [("full", 3, 3, 3), ("distinct", 4, 3, 3)]
    stub_specs = [("full", 3, 3, 3), ("distinct", 4, 3, 3)]
    rnd_src, rnd_stub, rnd_count = 14, 8, 22
  else:
    fam_specs = [("full", 3, 3, 2), ("full", 4, 3, 4), ("distinct", 5, 3, 6), ("distinct", 6, 2, 16)]
    stub_specs = [("full", 3, 3, 2), ("full", 4, 2, 8), ("distinct", 5, 3, 6)]
    rnd_src, rnd_stub, rnd_count = 160, 80, 32
  for path, specs in (("src", fam_specs), ("stub", stub_specs)):
    for alphabet, n, mb, per_task in specs:
      fams = _families(n, mb, alphabet)
      info[f"{path}: families {alphabet} alphabet, <= {n} classes, <= {mb} bases"] = {
          "prefixes": len(fams), "leaf_base_lists_each": len(fams[0][1]) if fams else 0}
      for b, chunk in enumerate(_chunks(fams, per_task)):
        if path == "src":
          add("src", f"src/{alphabet}{n}/{b}", families=chunk)
        else:
          add("stub", f"stub-all/{alphabet}{n}/{b}", families=chunk, split="all")
          add("stub", f"stub-prefix/{alphabet}{n}/{b}", families=chunk, split="prefix", prefix_len=n - 1)
  # targeted slice: 5 and 6 classes, 2-3 roots, middle classes with 1-2 bases, EVERY ordered
  # selection of 2-3 bases for the last class; one attribute per pair of prefix classes so that
  # any swap of two ancestors in the MRO is visible through `Leaf.attr`
  t5 = [[p, H.targeted_leaves(4)] for p in H.targeted_prefixes(5, O.legal_prefix)]
  t6 = [[p, H.targeted_leaves(5)] for p in H.targeted_prefixes(6, O.legal_prefix)]
  n6_src, n6_stub = (24, 0) if tier == "quick" else (250, 60)
  t6_src = rng.sample(t6, n6_src)
  t6_stub = rng.sample(t6, n6_stub)
  info["targeted: 2-3 roots, middle classes 1-2 bases, last class every ordered 2-3 bases"] = {
      "5 classes": {"prefixes": len(t5), "leaves_each": len(t5[0][1]), "src": "all", "stub-all": "all",
                    "GetBasesInMRO-only": "all"},
      "6 classes": {"prefixes": len(t6), "leaves_each": len(t6[0][1]), "src": f"{n6_src} prefixes (seeded)",
                    "stub-all": f"{n6_stub} prefixes (seeded)", "GetBasesInMRO-only": "all"}}
  for b, chunk in enumerate(_chunks(t5, 10)):
    add("src", f"src/tgt5/{b}", targeted=chunk)
    add("stub", f"stub-all/tgt5/{b}", targeted=chunk, split="all")
  for b, chunk in enumerate(_chunks(t6_src, 10)):
    add("src", f"src/tgt6/{b}", targeted=chunk)
  for b, chunk in enumerate(_chunks(t6_stub, 10)):
    add("stub", f"stub-all/tgt6/{b}", targeted=chunk, split="all")
  add("stubmro", "stubmro/tgt5/0", targeted=t5, classes_per_module=3000)
  for b, chunk in enumerate(_chunks(t6, 64)):
    add("stubmro", f"stubmro/tgt6/{b}", targeted=chunk, classes_per_module=3000)
  # the smaller exhaustive slices (1 and 2 classes, full alphabet) in one task each
  small = _families(1, 3, "full") + _families(2, 3, "full")
  add("src", "src/full1-2/0", families=small)
  add("stub", "stub-all/full1-2/0", families=small, split="all")
  for b in range(rnd_src):
    add("src", f"src/random/{b}", random={"count": rnd_count, "max_classes": 8})
  for b in range(rnd_stub):
    add("stub", f"stub/random/{b}", random={"count": rnd_count, "max_classes": 8}, split="random")
  return tasks, info


def run(tier, seed):
  ck = common.Check(
      PID, tier, seed,
      rule=("hierarchies: (1) exhaustive prefix families - every sequence of base lists that CPython creates "
            "for classes 0..n-2 ('full' alphabet: <=3 bases, repetition allowed, over earlier classes + explicit "
            "object; 'distinct': ordered selections of <=3 distinct earlier classes), followed by EVERY base list "
            "of the alphabet for class n-1 as sibling leaves; (2) random hierarchies of 3..8 classes (diamonds, "
            "wide, duplicate bases, object in odd positions, inconsistent orders; refused classes stay leaves); "
            "(3) targeted 5/6-class families (2-3 roots, middle classes with 1-2 bases, every ordered selection of "
            "2-3 bases for the last class) with one attribute per pair of ancestors, plus a GetBasesInMRO-only "
            "pass over all of them. "
            "Each class defines a random subset of a0..a3 with a marker type unique to (class, attribute). "
            "evaluations = class-statement verdicts + attribute probes + GetBasesInMRO comparisons. A case is "
            "(path, judged class with its ancestor closure incl. attribute placement, which ancestors are stub "
            "classes); non-trivial = the closure contains a class with >=2 bases; distinct by fingerprint."))
  tasks, info = _tasks(tier, seed)
  ck.extra["exhaustive_slices"] = info
  sub = float(os.environ.get("VERIF_SUBSAMPLE", "1"))
  if sub < 1:   # development aid only: run a seeded fraction of the batches
    r = random.Random(f"{PID}-{seed}-subsample")
    tasks = [t for t in tasks if r.random() < sub]
    ck.extra["SUBSAMPLED_RUN_fraction_of_batches"] = sub
  mon = {"calls": 0, "evaluations": 0, "ok_merges": 0, "error_merges": 0, "max_result_len": 0}
  mon_skipped = {}
  errkinds = {}
  complete = True
  nh = 0
  for res in pool.run_tasks(tasks):
    tid = str(res.get("task"))
    if not res.get("ok"):
      ck.child_failed(res, f"C10 batch {tid}")
      if "random" not in tid:
        complete = False
      continue
    r = res["result"]
    nh += r["hierarchies"]
    ck.merge_cases(r["n"], r["fps"])
    for k, v in r["counters"].items():
      ck.count(k, v)
    for k, v in r["errkinds"].items():
      errkinds[k] = errkinds.get(k, 0) + v
    for s in r["samples"][:1]:
      ck.sample(s)
    for w in r["violations"]:
      ck.violation(w.pop("key"), w)
    ck.count("disagreements observed by children (all instances)", r["nviol"])
    m = r["monitor"]
    for k in ("calls", "evaluations", "ok_merges", "error_merges"):
      mon[k] += m[k]
    mon["max_result_len"] = max(mon["max_result_len"], m["max_result_len"])
    for k, v in m["not_judged"].items():
      mon_skipped[k] = mon_skipped.get(k, 0) + v
    for rec in r["monitor_records"]:
      ck.violation(rec.pop("key"), rec)
  ck.count("hierarchies generated", nh)
  ck.count("Layer A: MROMerge calls observed", mon["calls"])
  ck.count("Layer A: MROMerge calls judged against independent C3", mon["evaluations"])
  ck.extra["layer_A_monitor"] = dict(mon, not_judged=mon_skipped)
  ck.extra["pytype_error_kinds_seen"] = errkinds
  ck.exhaustive = False
  ck.extra["exhaustive_slices_complete"] = complete
  ck.assumptions = [
      "the running CPython (3.12) is the specification of MRO and of class-creation refusal",
      "the emitted stub's type for a module-level probe is what pytype resolved the attribute to",
      "stub hierarchies: the .py rendering executed by CPython and the .pyi rendering denote the same classes"]
  if ck.counters.get("class statements judged (src)", 0) == 0:
    ck.inconclusive("no class statement was judged on the source path")
  if ck.counters.get("GetBasesInMRO judged (stub classes)", 0) == 0:
    ck.inconclusive("GetBasesInMRO monitor never ran")
  if mon["evaluations"] == 0:
    ck.inconclusive("Layer A monitor on mro.MROMerge judged nothing (wrapper bypassed?)")
  return ck.finish()


def replay(rec):
  w = rec["witness"]
  if "hierarchy" not in w:
    print("witness without a hierarchy (Layer A record / stray error line): re-run the check; witness:")
    print(w)
    return 2
  O.install_monitor()
  acc = Acc()
  h = w["hierarchy"]
  path = w["path"]
  scratch = None
  split = None
  if path == "stub":
    from vf import boot
    scratch = os.path.join(boot.BUILD, "scratch", f"c10-replay-{os.getpid()}")
    os.makedirs(scratch, exist_ok=True)
    sc = w.get("stub_classes") or []
    split = (max(sc) + 1) if sc else 0
    if sc != list(range(split)):
      # stub classes are a prefix of the definition order in every generated case; if the
      # closure renumbering broke that, put everything but the judged class in the stub
      split = len(h["classes"]) - 1
    if split == 0:
      path = "src"
      split = None
  try:
    src = judge_module([("", h, split)], path, acc, scratch, "c10stubreplay")
  finally:
    if scratch:
      shutil.rmtree(scratch, ignore_errors=True)
  print(src)
  if acc.violations:
    for v in acc.violations:
      print(f"VIOLATION property={PID} replay=<replayed>")
      print("  mechanism:", v["key"])
    return 1
  print("replay: no disagreement")
  return 0
