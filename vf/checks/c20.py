"""C20 - merging a stub into source changes annotations only.

Monitor: a recording postcondition wrapper around
`pytype.tools.merge_pyi.merge_pyi.merge_sources` (the function `merge_files`,
`merge_files_src`, `merge_tree` and the CLI `main` all go through).  For every
call it computes, with the stdlib `ast` only (vf/oracle/c20_strip.py):

  * M compiles;
  * P and M are identical in lock step once annotations are ignored and the
    statements only M has are value-less declarations, imports or TypeVar
    assignments (== strip(M) == strip(P));
  * every annotation P already had is unchanged;
  * every inserted annotation is the one S gives for that definition (modulo
    quotes and `typing.`), definitions matched like libcst matches them
    (qualified name through classes + parameter shape); ambiguous => not judged;
  * no bare Any/Never inserted as a return or variable annotation;
  * imports / TypeVar definitions the merge added come from S, and TypeVars used
    by inserted annotations are defined in M;
  * (completeness, conservative) S's annotation for an unannotated, uniquely
    matched definition was applied.

Workload: generated programs x {stub inferred by pytype for P (real pipeline),
generated rich stub for the same definitions, generated stub with extra and
missing definitions}; part of the calls go through merge_files / the CLI with
real files.
"""
from __future__ import annotations

import contextlib
import io as _io
import os
import random
import shutil

from vf import common, pool, boot

PID = "C20"

# ---------------------------------------------------------------------------
# the monitor


class Monitor:
  """Wraps merge_sources; records, never raises into the caller (beyond what the
  wrapped function itself raises)."""

  def __init__(self):
    self.records = []
    self.ctx = {"arm": "?", "by_pytype": False, "tolerate_added_classes": False}
    self.installed = False
    self.calls = 0

  def install(self):
    from pytype.tools.merge_pyi import merge_pyi
    from vf.oracle import c20_strip
    if self.installed:
      return
    orig = merge_pyi.merge_sources
    mon = self

    def merge_sources(*, py, pyi):
      mon.calls += 1
      ctx = dict(mon.ctx)
      try:
        out = orig(py=py, pyi=pyi)
      except merge_pyi.MergeError as e:
        mon.records.append({"ctx": ctx, "py": py, "pyi": pyi, "merge_error": str(e)[:600]})
        raise
      rec = {"ctx": ctx, "py": py, "pyi": pyi, "merged": out}
      try:
        rec["verdict"] = c20_strip.judge(py, pyi, out, ctx["by_pytype"],
                                         tolerate_added_classes=ctx["tolerate_added_classes"])
      except Exception as e:  # pylint: disable=broad-except
        import traceback
        rec["oracle_error"] = f"{type(e).__name__}: {e}\n{traceback.format_exc()[-1500:]}"
      mon.records.append(rec)
      return out

    merge_sources.__wrapped__ = orig
    merge_pyi.merge_sources = merge_sources
    self.installed = True


MON = Monitor()


def _scratch():
  d = os.path.join(boot.BUILD, "scratch", f"c20-{os.getpid()}")
  os.makedirs(d, exist_ok=True)
  return d


# ---------------------------------------------------------------------------
# child


def _drive(py, pyi, how, scratch):
  """Calls merge-pyi through one of its entry points. Returns None (records are in MON)."""
  from pytype.tools.merge_pyi import merge_pyi
  if how == "sources":
    try:
      merge_pyi.merge_sources(py=py, pyi=pyi)
    except merge_pyi.MergeError:
      pass
    return
  pp = os.path.join(scratch, "mod.py")
  sp = os.path.join(scratch, "mod.pyi")
  with open(pp, "w", newline="") as f:
    f.write(py)
  with open(sp, "w", newline="") as f:
    f.write(pyi)
  try:
    if how == "files":
      merge_pyi.merge_files(py_path=pp, pyi_path=sp, mode=merge_pyi.Mode.OVERWRITE, backup="orig")
    else:
      from pytype.tools.merge_pyi import main as mp_main
      buf = _io.StringIO()
      with contextlib.redirect_stdout(buf):
        mp_main.main(["merge-pyi", "-i", pp, sp])
  except merge_pyi.MergeError:
    pass


def child(arg):
  from vf import pt
  from vf.gen import programs, annotated_programs
  MON.install()
  seed, lo, hi = arg["seed"], arg["lo"], arg["hi"]
  scratch = _scratch()
  out = {"n": 0, "violations": [], "fps": [], "samples": [], "counts": {}, "monitor_calls": 0}
  cnt = out["counts"]

  def c(k, n=1):
    cnt[k] = cnt.get(k, 0) + n

  try:
    for i in range(lo, hi):
      rng = random.Random(f"C20-{seed}-{i}")
      if rng.random() < 0.72:
        py = annotated_programs.generate(rng)
        c("programs:syntax-hostile generator")
      else:
        py = programs.generate(rng)
        c("programs:C01 generator")
      arms = []
      try:
        res = pt.analyze(py)
        if res.pyi:
          arms.append(("inferred", res.pyi, True))
        else:
          c("not_judged:pytype produced no stub")
      except Exception as e:  # pylint: disable=broad-except
        c("not_judged:pytype failed on the program (" + type(e).__name__ + ")")
      srng = random.Random(f"C20-{seed}-{i}-stub")
      try:
        arms.append(("rich", annotated_programs.make_stub(py, srng, "rich"), False))
        arms.append(("extra_missing", annotated_programs.make_stub(py, srng, "extra_missing"), False))
      except Exception as e:  # pylint: disable=broad-except
        c("generator_error:make_stub " + type(e).__name__)
      for arm, pyi, by_pytype in arms:
        how = rng.choices(["sources", "files", "cli"], [0.7, 0.2, 0.1])[0]
        MON.ctx = {"arm": arm, "by_pytype": by_pytype, "how": how,
                   "tolerate_added_classes": arm == "extra_missing"}
        before = len(MON.records)
        _drive(py, pyi, how, scratch)
        c(f"driven via {how}")
        for rec in MON.records[before:]:
          _account(rec, out, c, i)
        del MON.records[before:]
  finally:
    shutil.rmtree(scratch, ignore_errors=True)
  out["monitor_calls"] = MON.calls
  return out


def _account(rec, out, c, idx):
  ctx = rec["ctx"]
  arm = ctx["arm"]
  c(f"pairs:{arm}")
  if "merge_error" in rec:
    c(f"merge_error:{arm}")
    if ctx["by_pytype"]:
      out["n"] += 1
      out["violations"].append({"key": "MergeError on a stub pytype emitted for this very source",
                                "arm": arm, "py": rec["py"], "pyi": rec["pyi"],
                                "detail": {"error": rec["merge_error"]}})
    else:
      c("not_judged:MergeError on a generated stub")
    return
  if "oracle_error" in rec:
    c("not_judged:oracle crashed")
    out.setdefault("oracle_errors", []).append({"py": rec["py"], "pyi": rec["pyi"], "arm": arm,
                                                "error": rec["oracle_error"]})
    return
  v = rec["verdict"]
  out["n"] += 1
  for k, n in v["counts"].items():
    c(k, n)
  if rec["merged"] != rec["py"]:
    c("merged_text_differs_from_original")
  if v["nontrivial"]:
    out["fps"].append(common.fp([rec["py"], rec["pyi"]]))
    c(f"nontrivial:{arm}")
  seen = set()
  for key, detail in v["violations"]:
    if key in seen:
      continue
    seen.add(key)
    out["violations"].append({"key": key, "arm": arm, "how": ctx.get("how"), "py": rec["py"],
                              "pyi": rec["pyi"], "merged": rec["merged"], "detail": detail})
  if len(out["samples"]) < 2 and v["nontrivial"] and len(rec["py"]) < 1500:
    out["samples"].append({"arm": arm, "py": rec["py"][:1500], "pyi": rec["pyi"][:1500],
                           "merged": rec["merged"][:1800], "counts": v["counts"]})


# ---------------------------------------------------------------------------
# driver


def run(tier, seed):
  ck = common.Check(
      PID, tier, seed,
      rule=("pairs (program, stub): programs from the syntax-hostile generator (vf/gen/annotated_programs) and "
            "the C01 generator; stubs = the one pytype infers for the program, a generated stub for the same "
            "definitions with rich types, a generated stub with extra/missing definitions. evaluations = "
            "merge_sources calls whose result was judged by the ast oracle; non-trivial = the merge inserted "
            ">= 1 annotation; distinct by hash of (program, stub)."))
  if tier == "quick":
    nprog, per = 192, 12
  else:
    nprog, per = 1600, 20
  if os.environ.get("VERIF_C20_NPROG"):      # development aid only
    nprog = int(os.environ["VERIF_C20_NPROG"])
    per = max(1, nprog // 16)
  tasks = []
  for lo in range(0, nprog, per):
    tasks.append({"fn": "vf.checks.c20:child", "id": f"b{lo}", "timeout": 1500,
                  "arg": {"seed": seed, "lo": lo, "hi": min(nprog, lo + per)}})
  calls = 0
  oracle_errors = []
  by_arm = {}
  for res in pool.run_tasks(tasks):
    if not res.get("ok"):
      ck.child_failed(res, "batch " + str(res.get("task")))
      continue
    r = res["result"]
    calls += r["monitor_calls"]
    ck.merge_cases(r["n"], r["fps"])
    for k, n in r["counts"].items():
      ck.count(k, n)
    for s in r["samples"]:
      ck.sample(s)
    oracle_errors += r.get("oracle_errors", [])
    for w in r["violations"]:
      by_arm.setdefault(w["key"], {}).setdefault(w.get("arm", "?"), 0)
      by_arm[w["key"]][w.get("arm", "?")] += 1
      ck.violation(w["key"], w)
  ck.extra["mechanism_by_stub_arm"] = by_arm
  ck.count("monitor_calls(merge_sources)", calls)
  if oracle_errors:
    ck.extra["oracle_errors"] = oracle_errors[:3]
    ck.inconclusive(f"the ast oracle crashed on {len(oracle_errors)} pair(s): {oracle_errors[0]['error'][:300]}")
  ck.exhaustive = False
  ck.assumptions = [
      "CPython's ast/compile define 'same syntax tree' and 'compiles'",
      "definitions are matched to the stub the way libcst's ApplyTypeAnnotationsVisitor keys them; anything "
      "ambiguous (overloads, renamed positional parameters, several shapes) is not judged",
      "the completeness clause goes beyond the written statement (derived from the tool's purpose) and is "
      "evaluated only for unannotated, uniquely matched definitions",
  ]
  if calls == 0 or ck.counters.get("strip_equal", 0) == 0:
    ck.inconclusive("the merge_sources monitor never produced a judged observation")
  if ck.counters.get("pairs:inferred", 0) == 0:
    ck.inconclusive("no pytype-inferred stub reached the monitor")
  return ck.finish()


def replay(rec):
  from vf.oracle import c20_strip
  from pytype.tools.merge_pyi import merge_pyi
  w = rec["witness"]
  key = rec.get("key")
  try:
    merged = merge_pyi.merge_sources(py=w["py"], pyi=w["pyi"])
  except merge_pyi.MergeError as e:
    if key and key.startswith("MergeError"):
      print(f"VIOLATION property={PID} replay=<replayed>\n  mechanism: {key}\n  {e}")
      return 1
    print("replay: MergeError", e)
    return 0
  arm = w.get("arm")
  v = c20_strip.judge(w["py"], w["pyi"], merged, arm == "inferred",
                      tolerate_added_classes=arm == "extra_missing")
  keys = [k for k, _ in v["violations"]]
  if key in keys or (key is None and keys):
    print(f"VIOLATION property={PID} replay=<replayed>")
    for k, d in v["violations"]:
      print("  mechanism:", k, "::", str(d)[:400])
    return 1
  print("replay: no violation of this mechanism; other mechanisms:", keys)
  return 0
