"""C19 - the whole-project build plan orders every analysis after the stubs it reads.

Two monitors (DESIGN.md "C19"):

1. plan interpreter (static): real project trees -> importlab ImportGraph.create ->
   pytype_runner.deps_from_import_graph -> PytypeRunner.setup_build (exactly as
   analyze_project/main.py does) -> the written build.ninja / *.imports are parsed
   by an independent ninja-lexer-faithful interpreter (vf/oracle/c19_plan.py) and
   checked: one check step per requested file, imports entries are default.pyi or
   declared outputs, producer in the transitive closure of the reader's declared
   inputs (== safe under every schedule), paths survive escaping.  Plans of <= 8
   steps: literally all topological orders on a virtual file system, cross-checked
   with the closure verdict.  The real ninja (`-t compdb`) referees the parser.
2. real execution with delay injection: PYTYPE_SINGLE is monkeypatched to
   vf/oracle/c19_fake_pytype.py, PytypeRunner.build() runs the real `ninja -j16`,
   the event log is checked for read-after-complete-write.
"""
from __future__ import annotations

import contextlib
import io
import json
import os
import random
import shutil
import subprocess
import sys
import tempfile
import time
import traceback

from vf import boot, common, pool
from vf.gen import projects as gen
from vf.oracle import c19_plan as op

PID = "C19"
FAKE = os.path.join(boot.VERIF, "vf", "oracle", "c19_fake_pytype.py")


def _ninja_binary():
  """The real ninja executable (the /venv/bin/ninja script is a python wrapper around it)."""
  try:
    import ninja  # pylint: disable=g-import-not-at-top
    p = os.path.join(ninja.BIN_DIR, "ninja")
    if os.path.exists(p):
      return p
  except Exception:  # pylint: disable=broad-except
    pass
  return "/venv/bin/ninja"


NINJA = _ninja_binary()
SCRATCH = os.path.join(boot.BUILD, "scratch")


# ---------------------------------------------------------------------------
# child side: the real pipeline


class _Pipe:
  """Everything imported from pytype/importlab lives here (child processes only)."""

  def __init__(self):
    import importlab.graph
    from pytype import module_utils
    from pytype.tools import environment
    from pytype.tools.analyze_project import environment as ape
    from pytype.tools.analyze_project import parse_args
    from pytype.tools.analyze_project import pytype_runner
    self.graph = importlab.graph
    self.module_utils = module_utils
    self.ape = ape
    self.runner = pytype_runner
    self.parser = parse_args.make_parser()
    self.typeshed = environment.initialize_typeshed_or_die()
    self.t_graph = 0.0
    self.t_setup = 0.0

  def conf(self, spec, base, requested_abs, outdir):
    conf = self.parser.config_from_defaults()
    conf.inputs = set(requested_abs)
    conf.pythonpath = [os.path.join(base, r) for r in spec["roots"]]
    conf.output = outdir
    conf.jobs = 16
    for k, v in (spec.get("conf") or {}).items():
      setattr(conf, k, v)
    return conf

  def sorted_sources(self, spec, base, conf):
    """main.py: ImportGraph.create(env, conf.inputs, trim=True) -> deps_from_import_graph."""
    M = self.module_utils.Module
    if spec.get("direct") is not None:
      def mk(m):
        p = m["path"] if (os.path.isabs(m["path"]) or not m["path"]) else os.path.join(base, m["path"])
        return M(path=p, target=m["target"], name=m["name"], kind=m["kind"])
      return [(tuple(mk(m) for m in g["group"]), tuple(mk(m) for m in g["deps"]))
              for g in spec["direct"]]
    if spec.get("fake_graph") is not None:
      return self.runner.deps_from_import_graph(_FakeGraph(spec["fake_graph"], base))
    t0 = time.time()
    env = self.ape.create_importlab_environment(conf, self.typeshed)
    g = self.graph.ImportGraph.create(env, conf.inputs, trim=True)
    self.t_graph += time.time() - t0
    return self.runner.deps_from_import_graph(g)

  def plan(self, spec, base, requested_abs, outdir):
    os.makedirs(outdir, exist_ok=True)
    conf = self.conf(spec, base, requested_abs, outdir)
    deps = self.sorted_sources(spec, base, conf)
    t0 = time.time()
    r = self.runner.PytypeRunner(conf, deps)
    with contextlib.redirect_stdout(io.StringIO()):
      r.setup_build()
    self.t_setup += time.time() - t0
    return r, deps


class Local:          # class names are what resolved_file_to_module turns into Module.kind
  def __init__(self, path, short_path, module_name):
    self.path, self.short_path, self.module_name = path, short_path, module_name


class _FakeGraph:
  """Just enough of importlab.graph.ImportGraph for deps_from_import_graph (cf. pytype_runner_test)."""

  def __init__(self, fg, base):
    ab = lambda rel: os.path.join(base, rel)
    self.order = [ab(x) for x in fg["order"]]
    self.deps = {ab(k): [ab(x) for x in v] for k, v in fg["deps"].items()}
    self.provenance = {}
    for rel in fg["order"]:
      short = rel.split("/", 1)[1]
      self.provenance[ab(rel)] = Local(ab(rel), short, os.path.splitext(short)[0].replace("/", "."))

  def deps_list(self):
    return [(x, self.deps.get(x, [])) for x in self.order]


def _scratch(tag):
  os.makedirs(SCRATCH, exist_ok=True)
  return tempfile.mkdtemp(prefix=f"c19-{os.getpid()}-{tag}-", dir=SCRATCH)


def _compdb(outdir):
  p = subprocess.run([NINJA, "-C", outdir, "-t", "compdb", "infer", "check"],
                     capture_output=True, text=True)
  return p.returncode, p.stdout, p.stderr


class _Acc:

  def __init__(self):
    self.c = {}
    self.violations = []
    self.fps = []
    self.samples = []
    self.internal = []
    self.kinds = {}
    self.start_orders = set()
    self.max_parallel = 0

  def count(self, k, n=1):
    self.c[k] = self.c.get(k, 0) + n

  def out(self):
    return {"n": self.c.get("plans", 0), "counters": self.c, "violations": self.violations[:40],
            "n_violations": len(self.violations), "fps": self.fps, "samples": self.samples[:3],
            "internal": self.internal[:5], "kinds": self.kinds,
            "start_orders": sorted(self.start_orders)[:4000], "max_parallel": self.max_parallel}


def _spec_for_witness(spec):
  return {k: spec[k] for k in ("kind", "label", "files", "roots", "out", "conf", "deps", "sysdeps",
                               "direct", "fake_graph", "extra_modules", "allow_foreign") if k in spec}


def static_one(pipe, acc, spec, base, requested, outdir, referee=False):
  """Plans one (project, requested subset) and runs the static monitor. Returns (runner, result) or None."""
  req_abs = [os.path.join(base, r) for r in requested]
  acc.count("plans")
  acc.kinds[spec["kind"]] = acc.kinds.get(spec["kind"], 0) + 1
  wit = {"spec": _spec_for_witness(spec), "requested": requested}
  try:
    runner, deps = pipe.plan(spec, base, req_abs, outdir)
  except Exception as e:  # pylint: disable=broad-except
    tb = traceback.extract_tb(e.__traceback__)
    where = next((f.name for f in reversed(tb) if "pytype" in f.filename or "importlab" in f.filename), "?")
    acc.violations.append(dict(wit, key=f"planner raised {type(e).__name__} in {where}",
                               detail={"error": repr(e), "traceback": traceback.format_exc()[-1500:]}))
    return None
  acc.count("groups", len(deps))
  ncyc = sum(1 for g, _ in deps if len(g) > 1)
  acc.count("two_pass_groups", ncyc)
  if ncyc:
    acc.count("plans_with_cycle")
  exp = gen.expectations(spec, base, requested)
  res = op.check_plan(outdir, exp)
  st = res["stats"]
  for k in ("steps", "check_steps", "first_pass_steps", "imports_entries", "default_entries",
            "output_entries", "ondisk_entries", "reads_checked", "orders", "shared_imports_files",
            "sh_unsafe_imports_args"):
    acc.count(k, st[k])
  for k, v in st["escapes"].items():
    acc.count("lexer_escape " + k, v)
  if st["enumerated"]:
    acc.count("plans_fully_enumerated")
  acc.c["max_steps_in_a_plan"] = max(acc.c.get("max_steps_in_a_plan", 0), st["steps"])
  acc.c["max_orders_of_one_plan"] = max(acc.c.get("max_orders_of_one_plan", 0), st["orders"])
  nontrivial = ncyc > 0 or (st["steps"] >= 3 and st["max_chain"] >= 3)
  if nontrivial:
    plan = res["plan"]
    acc.fps.append(common.fp([[b.outs[0][len(outdir):] if b.outs else "", b.rule,
                               sorted(x[len(outdir):] for x in b.implicit)] for b in plan.builds]))
  for f in res["findings"]:
    if f["key"].startswith("INTERNAL"):
      acc.internal.append(dict(wit, key=f["key"], detail=f["detail"]))
    else:
      acc.violations.append(dict(wit, key=f["key"], detail=f["detail"]))
  if referee:
    rc, out, err = _compdb(outdir)
    acc.count("plans_refereed_by_real_ninja")
    plan = res["plan"]
    if rc != 0:
      acc.count("plans_real_ninja_refuses")
      if not plan.error:
        acc.internal.append(dict(wit, key="INTERNAL: real ninja refuses a plan the oracle parser accepts",
                                 detail={"stderr": err[-500:], "stdout": out[-500:]}))
    elif plan.error:
      acc.internal.append(dict(wit, key="INTERNAL: oracle parser refuses a plan real ninja accepts",
                               detail={"error": plan.error}))
    else:
      diffs = op.compare_with_compdb(plan, out)
      acc.count("edges_compared_with_real_ninja", len(plan.builds))
      if diffs:
        acc.internal.append(dict(wit, key="INTERNAL: oracle evaluation differs from real ninja",
                                 detail={"diffs": diffs[:3]}))
  if len(acc.samples) < 3 and nontrivial:
    acc.samples.append({"kind": spec["kind"], "label": spec["label"], "requested": requested,
                        "steps": st["steps"], "orders_enumerated": st["orders"],
                        "two_pass_groups": ncyc, "first_build_lines": [
                            f"{b.outs[0][len(outdir):]} <- {b.rule} | "
                            f"{[x[len(outdir):] for x in b.implicit]}" for b in res["plan"].builds[:6]]})
  return runner, res


def dynamic_one(pipe, acc, spec, base, requested, outdir, seeds, max_ms=30):
  """Runs the plan with the real ninja and the fake pytype-single, once per delay seed."""
  saved = pipe.runner.PYTYPE_SINGLE
  pipe.runner.PYTYPE_SINGLE = [boot.PY, "-I", "-S", FAKE]
  try:
    got = static_one(pipe, acc, spec, base, requested, outdir, referee=True)
  finally:
    pipe.runner.PYTYPE_SINGLE = saved
  if got is None:
    return
  runner, res = got
  plan = res["plan"]
  if plan.error:
    return
  wit = {"spec": _spec_for_witness(spec), "requested": requested}
  outs_file = os.path.join(outdir, "c19-outputs.txt")
  with open(outs_file, "w") as f:
    f.write("\n".join(sorted(o for b in plan.builds for o in b.outs)) + "\n")
  acc.count("projects_executed")
  for seed in seeds:
    shutil.rmtree(os.path.join(outdir, "pyi"), ignore_errors=True)
    for junk in (".ninja_log", ".ninja_deps"):
      with contextlib.suppress(OSError):
        os.unlink(os.path.join(outdir, junk))
    log = os.path.join(outdir, f"c19-events-{seed}.jsonl")
    with contextlib.suppress(OSError):
      os.unlink(log)
    os.environ.update({"C19_LOG": log, "C19_SEED": str(seed), "C19_OUTPUTS": outs_file,
                       "C19_MAX_MS": str(max_ms)})
    # PytypeRunner.build() inherits our stdout for ninja: park fd 1 on a file meanwhile
    nout = os.path.join(outdir, "c19-ninja.out")
    sys.stdout.flush()
    keep = os.dup(1)
    fd = os.open(nout, os.O_WRONLY | os.O_CREAT | os.O_TRUNC, 0o644)
    keep2 = os.dup(2)
    os.dup2(fd, 1)
    os.dup2(fd, 2)
    os.close(fd)
    try:
      with contextlib.redirect_stdout(io.StringIO()):
        rc = runner.build()
    finally:
      os.dup2(keep, 1)
      os.dup2(keep2, 2)
      os.close(keep)
      os.close(keep2)
    acc.count("ninja_runs")
    events = op.read_event_log(log)
    ev = op.check_event_log(events, plan, rc)
    acc.count("steps_executed", ev["steps_started"])
    acc.count("reads_of_declared_outputs_observed", ev["reads"])
    acc.max_parallel = max(acc.max_parallel, ev["max_parallel"])
    acc.start_orders.add(common.fp([o[len(outdir):] for o in ev["start_order"]]))
    for f in ev["findings"]:
      acc.violations.append(dict(wit, key=f["key"], detail=dict(f["detail"], delay_seed=seed), dynamic=True,
                                 delay_seed=seed))
    if rc != 0 and not ev["findings"]:
      with open(nout) as f:
        txt = f.read()[-1200:]
      acc.violations.append(dict(wit, key="real ninja fails on the plan although no step saw a bad stub: "
                                 + _ninja_error_kind(txt), detail={"ninja_output": txt, "rc": rc},
                                 dynamic=True, delay_seed=seed))
    if rc == 0:
      acc.count("ninja_runs_ok")


def _ninja_error_kind(txt):
  for k in ("dependency cycle", "missing and no known rule", "multiple rules generate", "bad $-escape",
            "unknown build rule", "loading 'build.ninja'", "subcommand failed"):
    if k in txt:
      return k
  return "other"


def _specs_from(arg):
  """Regenerates the specs of a batch from its (small) description."""
  kind = arg["gen"]
  rng = random.Random(arg.get("seed", 0))
  if kind == "flat":
    for mask in range(arg["lo"], arg["hi"]):
      s = gen.flat(arg["n"], mask)
      yield s, gen.subsets(s["requested"])
  elif kind == "shapes":
    allsh = gen.shapes()
    for s in allsh[arg.get("lo", 0):arg.get("hi", len(allsh))]:
      yield s, gen.subsets(s["requested"], rng, arg.get("cap"))
  elif kind == "random":
    for _ in range(arg["count"]):
      s = gen.random_project(rng, arg.get("max_modules", 8))
      yield s, gen.subsets(s["requested"], rng, arg.get("cap", 6))
  elif kind == "hostile":
    hs = gen.hostile_projects(rng)
    for s in hs[arg["lo"]:arg["hi"]]:
      yield s, [s["requested"], s["requested"][:1]]
  elif kind == "outside":
    for s in gen.outside_root_projects():
      yield s, [s["requested"]]
  elif kind == "direct":
    for s in gen.direct_projects(rng, arg.get("nrandom", 10)):
      yield s, [s["requested"]]
  elif kind == "fake_graph":
    for s in gen.fake_graph_projects(rng, arg.get("count", 8)):
      yield s, gen.subsets(s["requested"], rng, 4)
  elif kind == "explicit":
    for s, subs in arg["specs"]:
      yield s, subs
  else:
    raise ValueError(kind)


def child(arg):
  """One batch: {"gen":..., "mode": "static"|"dynamic", ...}"""
  pipe = _Pipe()
  acc = _Acc()
  mode = arg.get("mode", "static")
  t0 = time.time()
  referee_every = arg.get("referee_every", 0)
  k = 0
  for spec, subs in _specs_from(arg):
    base = _scratch(arg["gen"])
    try:
      gen.materialize(spec, base)
      acc.count("projects")
      for j, requested in enumerate(subs):
        outdir = os.path.join(base, f"v{j}", spec["out"])
        k += 1
        if mode == "dynamic":
          dynamic_one(pipe, acc, spec, base, requested, outdir, arg["seeds"], arg.get("max_ms", 30))
        else:
          ref = arg.get("referee") or (referee_every and k % referee_every == 0)
          static_one(pipe, acc, spec, base, requested, outdir, referee=bool(ref))
    finally:
      shutil.rmtree(base, ignore_errors=True)
  acc.c["t_importlab_ms"] = int(pipe.t_graph * 1000)
  acc.c["t_setup_build_ms"] = int(pipe.t_setup * 1000)
  acc.c["t_child_ms"] = int((time.time() - t0) * 1000)
  return acc.out()


# ---------------------------------------------------------------------------
# driver side


def _dynamic_specs(rng, n_random):
  """Projects for the real-ninja monitor: no shell-special characters anywhere."""
  sh = {s["label"]: s for s in gen.shapes()}
  names = ["three_cycle_sharing_node_with_two_cycle", "cycle_with_tails", "two_cycles_joined_by_top",
           "cycle_with_system_builtin_missing", "cycle_feeding_cycle_feeding_leaf", "init_in_cycle"]
  if n_random > 4:
    names += ["ring5", "diamond", "package_cycle_relative", "two_cycles_chained", "ring4"]
  chosen = [sh[k] for k in names]
  specs = [(s, [s["requested"]]) for s in chosen]
  wide = gen._graph("wide_fan", [("top", f"w{i}") for i in range(10)] + [(f"w{i}", "base") for i in range(10)])  # pylint: disable=protected-access
  specs.append((wide, [wide["requested"]]))
  for _ in range(n_random):
    s = gen.random_project(rng, 8)
    subs = [s["requested"]]
    if rng.random() < 0.5:
      subs = [rng.sample(s["requested"], max(1, len(s["requested"]) // 2))]
    specs.append((s, subs))
  return specs


def _tasks(tier, seed):
  rng = random.Random(f"{PID}-{seed}")
  tasks = []

  def add(arg, tid, timeout=1500):
    tasks.append({"fn": "vf.checks.c19:child", "arg": arg, "id": tid, "timeout": timeout})

  quick = tier == "quick"
  # (1) exhaustive flat graphs x every non-empty requested subset
  add({"gen": "flat", "n": 1, "lo": 0, "hi": 1, "referee_every": 1}, "flat1")
  add({"gen": "flat", "n": 2, "lo": 0, "hi": 4, "referee_every": 1}, "flat2")
  sh3 = 4
  for s in range(sh3):
    add({"gen": "flat", "n": 3, "lo": s * 64 // sh3, "hi": (s + 1) * 64 // sh3, "referee_every": 25},
        f"flat3/{s}")
  if not quick:
    sh4 = 64
    for s in range(sh4):
      add({"gen": "flat", "n": 4, "lo": s * 4096 // sh4, "hi": (s + 1) * 4096 // sh4,
           "referee_every": 101}, f"flat4/{s}", timeout=3000)
  # (2) named shapes
  nshapes = len(gen.shapes())
  for lo in range(0, nshapes, 4):
    add({"gen": "shapes", "lo": lo, "hi": lo + 4, "cap": 10 if quick else 63,
         "seed": rng.randrange(1 << 30), "referee_every": 10}, f"shapes/{lo}")
  # (3) random projects
  for b in range(8 if quick else 48):
    add({"gen": "random", "count": 8 if quick else 40, "cap": 5 if quick else 10,
         "seed": rng.randrange(1 << 30), "referee_every": 15}, f"random/{b}")
  # (4) hostile names (static only, every plan refereed by the real ninja's loader)
  nh = len(gen.hostile_projects(random.Random(0)))
  for lo in range(0, nh, 10):
    add({"gen": "hostile", "lo": lo, "hi": lo + 10, "referee": True, "seed": 0}, f"hostile/{lo}")
  add({"gen": "outside", "referee": True}, "outside-root")
  # (5) direct sorted_sources / fake import graphs with stubs
  add({"gen": "direct", "nrandom": 10 if quick else 60, "seed": rng.randrange(1 << 30), "referee": True},
      "direct")
  add({"gen": "fake_graph", "count": 10 if quick else 60, "seed": rng.randrange(1 << 30),
       "referee_every": 3}, "fake-graph")
  # (6) real ninja with delay injection
  nseeds = 5 if quick else 20
  dyn = _dynamic_specs(rng, 0 if quick else 16)
  direct_dyn = [s for s in gen.direct_projects(random.Random(1), 2)
                if s["label"] in (("system member inside a two-pass group",) if quick else (
                    "system member inside a two-pass group", "dependency on one member of a cycle only"))]
  dyn += [(s, [s["requested"]]) for s in direct_dyn]
  static_tasks, tasks = tasks, []
  for i in range(len(dyn)):
    add({"gen": "explicit", "mode": "dynamic", "specs": dyn[i:i + 1],
         "seeds": [rng.randrange(1 << 30) for _ in range(nseeds)]}, f"ninja/{i}",
        timeout=3000 if quick else 7200)
  return tasks + static_tasks      # the ninja batches wait on sleeps: start them first


def run(tier, seed):
  ck = common.Check(
      PID, tier, seed,
      rule=("one evaluation = one written plan (project tree x requested subset) pushed through the static "
            "monitor; projects: every digraph over <=3 (thorough: <=4) flat modules x every non-empty requested "
            "subset, named cycle shapes, random projects to 8 modules with packages/relative imports/system/"
            "builtin/missing imports/.pyi neighbours, hostile directory and module names, inputs outside the "
            "pythonpath, direct sorted_sources lists and fake import graphs with stubs. Plans of <=8 steps: all "
            "topological orders replayed. A subset of projects is also executed by the real `ninja -j16` with "
            "the fake pytype-single under several delay seeds. non-trivial = plan with a two-pass group or >=3 "
            "steps with a dependency chain of length >=3; distinct by the plan's dependency structure."))
  tasks = _tasks(tier, seed)
  import glob
  for stale in glob.glob(os.path.join(common.REPLAY, f"{PID}-*.json")):
    with contextlib.suppress(OSError):
      os.unlink(stale)
  agg = {}
  kinds = {}
  start_orders = set()
  max_par = 0
  internal = []
  flat_failed = False
  walls = []
  for res in pool.run_tasks(tasks):
    tid = str(res.get("task"))
    walls.append((round(res.get("wall", 0), 1), tid))
    if not res.get("ok"):
      ck.child_failed(res, f"C19 batch {tid}")
      flat_failed |= tid.startswith("flat")
      continue
    r = res["result"]
    ck.merge_cases(r["n"], r["fps"])
    for k, v in r["counters"].items():
      if k.startswith("max_"):
        agg[k] = max(agg.get(k, 0), v)
      else:
        agg[k] = agg.get(k, 0) + v
    for k, v in r["kinds"].items():
      kinds[k] = kinds.get(k, 0) + v
    start_orders.update(r["start_orders"])
    max_par = max(max_par, r["max_parallel"])
    internal += r["internal"]
    for s in r["samples"]:
      ck.sample(s, cap=5)
    for w in r["violations"]:
      ck.violation(w["key"], w)
    if r["n_violations"] > len(r["violations"]):
      ck.count("violations_not_shown", r["n_violations"] - len(r["violations"]))
  for k, v in sorted(agg.items()):
    ck.count(k, v)
  ck.count("distinct_start_orders_observed", len(start_orders))
  ck.count("max_parallelism_observed", max_par)
  ck.extra["plans_by_kind"] = kinds
  ck.extra["slowest_batches_s"] = sorted(walls, reverse=True)[:5]
  try:
    ck.extra["loadavg_at_end"] = os.getloadavg()[0]
  except OSError:
    pass
  ck.extra["exhaustive_slice"] = ("all digraphs over <=%d flat modules x all non-empty requested subsets"
                                  % (3 if tier == "quick" else 4))
  ck.extra["exhaustive_slice_complete"] = not flat_failed
  ck.exhaustive = False
  ck.extra["noted_not_judged"] = (
      "ninja passes $imports and $module to sh unquoted: %d imports arguments would be split by the shell "
      "(counter sh_unsafe_imports_args); outside 'survive into the plan'." % agg.get("sh_unsafe_imports_args", 0))
  ck.assumptions = [
      "a step reads exactly the files listed in its imports file (pytype-single opens a subset of them)",
      "ninja runs a step only after the producers of all its declared inputs exited (checked by the dynamic monitor)",
      "the oracle's ninja parser is refereed by `ninja -t compdb` on a sample of plans and on every hostile plan",
      "delay injection explores only some interleavings; the closure condition is the schedule quantifier",
  ]
  for w in internal[:3]:
    ck.inconclusive("oracle self-check failed: " + w["key"] + " :: " + json.dumps(w["detail"])[:600])
  if agg.get("reads_checked", 0) == 0:
    ck.inconclusive("closure monitor never evaluated a read")
  if agg.get("ninja_runs", 0) == 0 or agg.get("reads_of_declared_outputs_observed", 0) == 0:
    ck.inconclusive("real-ninja monitor observed no reads")
  if agg.get("orders", 0) == 0:
    ck.inconclusive("no topological order was enumerated")
  return ck.finish()


def replay(rec):
  w = rec["witness"]
  spec = w["spec"]
  spec.setdefault("requested", w["requested"])
  arg = {"gen": "explicit", "specs": [(spec, [w["requested"]])], "referee": True}
  if w.get("dynamic"):
    arg.update(mode="dynamic", seeds=[w.get("delay_seed", 0)] * 3)
  r = child(arg)
  known = common.load_known(PID)
  bad = [v for v in r["violations"] if v["key"] not in known]
  same = [v for v in bad if v["key"] == rec.get("key")]
  if bad:
    print(f"VIOLATION property={PID} replay=<replayed>")
    for v in (same or bad)[:3]:
      print("  mechanism:", v["key"])
      print("  detail:", json.dumps(v["detail"], default=repr)[:1500])
    return 1
  print("replay: no (unlisted) disagreement")
  return 0
