"""C13 - calls bind arguments exactly as CPython does.

Generated modules hold ~40 callees (six callee kinds) whose bodies return all
their parameters, and one call per line with arguments of pairwise distinct
types.  CPython executes the same definitions and the same call expressions
(and inspect.signature(...).bind is asked as a second opinion).  Compared:
  TypeError in CPython  <=>  one of wrong-arg-count / missing-parameter /
  wrong-keyword-args / duplicate-keyword-argument on that call line;
  when the call succeeds, the stub type of the result tuple, element by
  element, against the run-time types of the parameters.
Disagreements are shrunk (parameters, arguments, callee kind removed while the
same direction + failing clause persists, each step re-judged by both sides)
and keyed by the shrunk skeleton.
"""
from __future__ import annotations

import hashlib
import json
import random

from vf import common, pool
from vf.gen import signatures as S
from vf.oracle import c13_bind as O

PID = "C13"
ARITY = ("wrong-arg-count", "missing-parameter", "wrong-keyword-args", "duplicate-keyword-argument")
UNITS_PER_MODULE = 40
CALLS_PER_MODULE = 700


def _h(s):
  return hashlib.sha1(s.encode()).hexdigest()[:12]


# --------------------------------------------------------------------------
# judging a list of units in one analysed module


def _role(t):
  if isinstance(t, list):
    return t[0]
  if t.startswith("K_"):
    return "keyword arg"
  if t.startswith("Q_"):
    return "**map entry"
  if t.startswith("D_"):
    return "default"
  if t.startswith("S") and t[1:].isdigit():
    return "*seq item"
  if t in ("int", "str", "float", "bytes", "complex") or (t.startswith("P") and t[1:].isdigit()):
    return "positional arg"
  return "type " + t


def _pgroup(n):
  return {"a": "positional-only param", "b": "positional-or-keyword param", "c": "keyword-only param",
          "v": "*va", "k": "**kw", "<": "result"}[n[0]]


def judge(units, acc=None):
  """units: [(kind, sig, calls)].  Returns verdicts[u][c] = None (agree / not judged) or
  {"direction", "clause", "detail"}; counts into acc when given."""
  from vf import pt
  full = [(kind, sig, k, calls) for k, (kind, sig, calls) in enumerate(units)]
  ns = O.build_namespace(full)
  lines = O.module_prefix(S.marker_names([(sig, calls) for _, sig, calls in units]))
  call_line = {}
  exprs = {}
  for kind, sig, k, calls in full:
    defs, tmpl = S.callee_text(kind, sig, k)
    lines.extend(defs)
    for i, c in enumerate(calls):
      expr = tmpl.format(args=S.args_text(c))
      lines.append(f"r{k}_{i} = {expr}")
      call_line[(k, i)] = len(lines)
      exprs[(k, i)] = expr
  src = "\n".join(lines) + "\n"
  res = pt.analyze(src)
  by_line = {}
  for name, line, msg in res.errors:
    by_line.setdefault(line, []).append((name, msg))
    if acc is not None:
      acc["errkinds"][name] = acc["errkinds"].get(name, 0) + 1
  consts = {c.name: c.type for c in res.ast.constants}
  out = []
  for kind, sig, k, calls in full:
    names = S.param_names(sig)
    row = []
    for i, c in enumerate(calls):
      cp = O.evaluate(ns, kind, sig, k, c)
      if "undecided" in cp:
        if acc is not None:
          _cnt(acc, "not judged: " + cp["undecided"])
        row.append(None)
        continue
      if acc is not None and cp.get("bind_differs"):
        _cnt(acc, "inspect.signature.bind differs from the real call (real call is the oracle)")
      errs = by_line.get(call_line[(k, i)], [])
      arity = sorted({n for n, _ in errs if n in ARITY})
      other = sorted({n for n, _ in errs if n not in ARITY})
      v = None
      if acc is not None:
        acc["n"] += 1
        _cnt(acc, f"calls judged ({kind})")
        if cp["ok"]:
          _cnt(acc, "CPython binds")
        else:
          _cnt(acc, "CPython TypeError")
          _cnt(acc, f"CPython clause '{cp['clause']}' -> pytype {arity or 'no arity error'}")
        if other:
          _cnt(acc, f"non-arity errors on call lines: {other}")
      if not cp["ok"]:
        if not arity:
          v = {"direction": "missed", "clause": cp["clause"], "detail": cp["msg"]}
      else:
        if arity:
          v = {"direction": "spurious", "clause": "pytype reports " + ",".join(arity),
               "detail": "; ".join(m for n, m in errs if n in ARITY)[:300]}
        else:
          t = consts.get(f"r{k}_{i}")
          got = O.decode(t) if t is not None else "<name missing in the stub>"
          mism = O.compare(names, cp["bound"], got)
          if acc is not None:
            _cnt(acc, "bindings compared (parameters)", len(names))
          if mism:
            cl = sorted({f"{_pgroup(n)} differs" if n in ("va", "kw") else
                         f"{_pgroup(n)}: CPython {_role(e)}, pytype {_role(g)}" for n, e, g in mism})
            v = {"direction": "wrong binding", "clause": "; ".join(cl),
                 "detail": [[n, e, g] for n, e, g in mism], "other_errors": other}
      if v is not None:
        v["expr"] = exprs[(k, i)]
      row.append(v)
    out.append(row)
  return out, src


def _cnt(acc, k, n=1):
  acc["c"][k] = acc["c"].get(k, 0) + n


def nontrivial(sig, call, cp_ok=None):
  """Call whose binding uses a default, *va or **kw, or has a keyword / star part."""
  if sig["va"] or sig["kw"] or any(sig["po"] + sig["pk"] + sig["ko"]):
    return True
  return bool(call["kws"]) or call.get("star") is not None or call.get("dstar") is not None


# --------------------------------------------------------------------------
# shrinking


def _renumber_kw(names, grp_letter, removed):
  out = []
  for n in names:
    if n[0] == grp_letter and n[1:].isdigit() and int(n[1:]) > removed:
      out.append(f"{grp_letter}{int(n[1:]) - 1}")
    else:
      out.append(n)
  return out


def moves(kind, sig, call):
  """Smaller neighbours of a case."""
  if kind != "func":
    yield "func", sig, call
  used = set(call["kws"]) | set(call.get("dstar") or [])
  # joint moves: a parameter together with the argument that feeds it
  for g, letter in (("ko", "c"), ("pk", "b"), ("po", "a")):
    for i in range(len(sig[g]) - 1, -1, -1):
      n = f"{letter}{i}"
      if n not in used:
        continue
      s2 = dict(sig)
      s2[g] = sig[g][:i] + sig[g][i + 1:]
      if not S.valid(s2):
        continue
      c2 = dict(call)
      c2["kws"] = _renumber_kw([x for x in call["kws"] if x != n], letter, i)
      if call.get("dstar") is not None:
        c2["dstar"] = _renumber_kw([x for x in call["dstar"] if x != n], letter, i)
      yield kind, s2, c2
  # a positional parameter together with one positional argument
  npo = len(sig["po"])
  for j in range(min(call["npos"], npo + len(sig["pk"])) - 1, -1, -1):
    g, letter, i = ("po", "a", j) if j < npo else ("pk", "b", j - npo)
    if f"{letter}{i}" in used:
      continue
    s2 = dict(sig)
    s2[g] = sig[g][:i] + sig[g][i + 1:]
    if not S.valid(s2):
      continue
    c2 = dict(call, npos=call["npos"] - 1)
    c2["kws"] = _renumber_kw(call["kws"], letter, i)
    if call.get("dstar") is not None:
      c2["dstar"] = _renumber_kw(call["dstar"], letter, i)
    yield kind, s2, c2
  for g, letter in (("ko", "c"), ("pk", "b"), ("po", "a")):
    for i in range(len(sig[g]) - 1, -1, -1):
      if f"{letter}{i}" in used:
        continue
      s2 = dict(sig)
      s2[g] = sig[g][:i] + sig[g][i + 1:]
      if not S.valid(s2):
        continue
      c2 = dict(call)
      c2["kws"] = _renumber_kw(call["kws"], letter, i)
      if call.get("dstar") is not None:
        c2["dstar"] = _renumber_kw(call["dstar"], letter, i)
      yield kind, s2, c2
  if sig["va"]:
    yield kind, dict(sig, va=False), call
  if sig["kw"]:
    yield kind, dict(sig, kw=False), call
  if call.get("star") is not None:
    yield kind, sig, dict(call, npos=call["npos"] + call["star"], star=None)
    if call["star"] > 0:
      yield kind, sig, dict(call, star=call["star"] - 1)
  if call.get("dstar") is not None:
    merged = sorted(set(call["kws"]) | set(call["dstar"]))
    if len(merged) == len(call["kws"]) + len(call["dstar"]):
      yield kind, sig, dict(call, kws=merged, dstar=None)
    for n in call["dstar"]:
      yield kind, sig, dict(call, dstar=[x for x in call["dstar"] if x != n])
  if call["npos"] > 0:
    yield kind, sig, dict(call, npos=call["npos"] - 1)
  for n in call["kws"]:
    yield kind, sig, dict(call, kws=[x for x in call["kws"] if x != n])
  # a default that plays no role can go
  for g in ("po", "pk", "ko"):
    for i, d in enumerate(sig[g]):
      if d:
        s2 = dict(sig)
        s2[g] = sig[g][:i] + [0] + sig[g][i + 1:]
        if S.valid(s2):
          yield kind, s2, call


def _ckey(kind, sig, call):
  return json.dumps([kind, sig, call], sort_keys=True)


def shrink(cases, memo, max_rounds=14, cap=900):
  """cases: dicts with kind, sig, call, direction, clause.  In place."""
  stats = {"rounds": 0, "candidate_calls": 0}
  for _ in range(max_rounds):
    per_case = []
    todo = {}
    for c in cases:
      lst = list(moves(c["kind"], c["sig"], c["call"]))
      per_case.append(lst)
      for x in lst:
        key = _ckey(*x)
        if key not in memo and key not in todo and len(todo) < cap:
          todo[key] = x
    if todo:
      items = list(todo.items())
      for lo in range(0, len(items), 300):
        chunk = items[lo:lo + 300]
        verdicts, _ = judge([(k, s, [c]) for _, (k, s, c) in chunk])
        for (key, _), row in zip(chunk, verdicts):
          v = row[0]
          memo[key] = (v["direction"], v["clause"], v["detail"], v["expr"]) if v else None
      stats["candidate_calls"] += len(items)
    stats["rounds"] += 1
    changed = False
    for c, lst in zip(cases, per_case):
      for x in lst:
        m = memo.get(_ckey(*x))
        if m and m[0] == c["direction"] and m[1] == c["clause"]:
          c["kind"], c["sig"], c["call"] = x
          c["detail"], c["expr"] = m[2], m[3]
          changed = True
          break
    if not changed:
      break
  return stats


def mechanism_key(c):
  return (f"{c['direction']} | {c['kind']} | def f({S.params_text(c['sig'])}) | f({S.args_text(c['call'])}) | "
          f"{c['clause']}")


# --------------------------------------------------------------------------
# workload


def _units_exhaustive(max_per_kind, kinds, max_kw, unknown):
  """Deterministic list of (kind, sig) units."""
  sigs = S.enumerate_signatures(max_per_kind)
  return [(kind, s) for s in sigs for kind in kinds]


def child(arg):
  rng = random.Random(arg["seed"])
  acc = {"n": 0, "c": {}, "errkinds": {}}
  units = []
  not_covered = 0
  mode = arg["mode"]
  if mode == "exhaustive":
    allu = _units_exhaustive(arg["max_per_kind"], arg["kinds"], arg["max_kw"], 1)
    for idx in range(arg["shard"], len(allu), arg["nshards"]):
      kind, sig = allu[idx]
      calls = S.enumerate_calls(sig, max_kw=arg["max_kw"], extra_pos=arg.get("extra_pos", 1))
      frac = arg.get("call_fraction", {}).get(kind, 1.0)
      if frac < 1.0:
        keep = max(4, int(len(calls) * frac))
        not_covered += len(calls) - keep
        calls = rng.sample(calls, keep)
      if arg.get("star_fraction"):
        extra = [S.star_variants(rng, sig, c) for c in calls if rng.random() < arg["star_fraction"]]
        calls = calls + extra
      units.append((kind, sig, calls))
  elif mode == "random":
    for _ in range(arg["count"]):
      sig = S.random_signature(rng, arg.get("max_per_kind", 3))
      kind = rng.choice(S.KINDS)
      calls = []
      seen = set()
      for _ in range(arg.get("calls_per_sig", 14)):
        c = S.random_call(rng, sig)
        if rng.random() < arg.get("star_fraction", 0.3):
          c = S.star_variants(rng, sig, c)
        key = json.dumps(c, sort_keys=True)
        if key not in seen:
          seen.add(key)
          calls.append(c)
      units.append((kind, sig, calls))
  elif mode == "units":
    units = [(k, s, cs) for k, s, cs in arg["units"]]
  fps = set()
  cases = []
  batch, ncalls = [], 0
  sample = None
  modules = 0

  def flush():
    nonlocal batch, ncalls, sample, modules
    if not batch:
      return
    verdicts, src = judge(batch, acc)
    modules += 1
    for (kind, sig, calls), row in zip(batch, verdicts):
      sk = S.sig_skeleton(sig)
      for c, v in zip(calls, row):
        if nontrivial(sig, c):
          fps.add(_h(f"{kind}|{sk}|{json.dumps(c, sort_keys=True)}"))
        if v is not None:
          cases.append({"kind": kind, "sig": sig, "call": c, "direction": v["direction"],
                        "clause": v["clause"], "detail": v["detail"], "expr": v["expr"],
                        "original": {"kind": kind, "sig": sig, "call": c}})
    if sample is None:
      kind, sig, calls = batch[0]
      sample = {"kind": kind, "def": S.callee_text(kind, sig, 0)[0], "n_calls": len(calls),
                "first_calls": [S.args_text(c) for c in calls[:4]]}
    batch, ncalls = [], 0

  for u in units:
    batch.append(u)
    ncalls += len(u[2])
    if len(batch) >= UNITS_PER_MODULE or ncalls >= CALLS_PER_MODULE:
      flush()
  flush()
  # shrink disagreements (dedupe identical cases first)
  uniq = {}
  for c in cases:
    uniq.setdefault(_ckey(c["kind"], c["sig"], c["call"]), c)
  todo = list(uniq.values())
  memo = {}
  sh = {"rounds": 0, "candidate_calls": 0}
  max_shrink = arg.get("max_shrink", 400)
  if todo:
    sh = shrink(todo[:max_shrink], memo)
  viol = []
  for n, c in enumerate(todo):
    if n < max_shrink:
      key = mechanism_key(c)
    else:
      key = (f"{c['direction']} | {c['kind']} | {S.sig_skeleton(c['sig'])} | {S.call_skeleton(c['call'])} | "
             f"{c['clause']} (not shrunk)")
    viol.append({"key": key, "kind": c["kind"], "sig": c["sig"], "call": c["call"], "expr": c["expr"],
                 "direction": c["direction"], "clause": c["clause"], "detail": c["detail"],
                 "def": S.callee_text(c["kind"], c["sig"], 0)[0], "original": c["original"]})
  by_key = {}
  for v in viol:
    by_key.setdefault(v["key"], []).append(v)
  shipped = []
  for key, vs in by_key.items():
    vs[0]["instances_in_batch"] = len(vs)
    shipped.append(vs[0])
  return {"n": acc["n"], "fps": sorted(fps), "counters": acc["c"], "errkinds": acc["errkinds"],
          "violations": shipped[:80], "nviol_cases": len(cases), "samples": [sample] if sample else [],
          "modules": modules, "units": len(units), "shrink": sh, "not_covered": not_covered}


# --------------------------------------------------------------------------
# driver


def _tasks(tier, seed):
  rng = random.Random(f"{PID}-{seed}-tasks")
  tasks = []
  info = {}

  def add(tid, **arg):
    arg["seed"] = rng.randrange(1 << 30)
    tasks.append({"fn": "vf.checks.c13:child", "arg": arg, "id": tid, "timeout": 2400})

  if tier == "quick":
    ns1 = 23
    for s in range(ns1):
      add(f"exh1/{s}", mode="exhaustive", max_per_kind=1, kinds=S.KINDS, max_kw=3, shard=s, nshards=ns1,
          star_fraction=0.15)
    info["exhaustive <=1 parameter of each kind"] = {
        "signatures": len(S.enumerate_signatures(1)), "callee_kinds": len(S.KINDS),
        "call_shapes": "0..#positional+1 (+1 with *va) positionals x keyword subsets (<=3) of params + 1 unknown"}
    for b in range(24):
      add(f"rnd/{b}", mode="random", count=22, calls_per_sig=12, star_fraction=0.3)
  else:
    ns1 = 16
    for s in range(ns1):
      add(f"exh1/{s}", mode="exhaustive", max_per_kind=1, kinds=S.KINDS, max_kw=3, shard=s, nshards=ns1,
          star_fraction=0.3)
    ns2 = 160
    frac = {"func": 1.0, "method": 0.12, "classmethod": 0.08, "staticmethod": 0.08, "init": 0.12, "lambda": 0.08}
    for s in range(ns2):
      add(f"exh2/{s}", mode="exhaustive", max_per_kind=2, kinds=S.KINDS, max_kw=3, shard=s, nshards=ns2,
          call_fraction=frac, star_fraction=0.03)
    info["exhaustive <=2 parameters of each kind"] = {
        "signatures": len(S.enumerate_signatures(2)), "call_fraction_by_kind": frac,
        "call_shapes": "0..#positional+1 (+1 with *va) positionals x keyword subsets (<=3) of params + 1 unknown"}
    for b in range(96):
      add(f"rnd/{b}", mode="random", count=40, calls_per_sig=16, star_fraction=0.35)
  return tasks, info


def run(tier, seed):
  ck = common.Check(
      PID, tier, seed,
      rule=("signatures over positional-only / positional-or-keyword / keyword-only parameters (each with or "
            "without default), optional *va, **kw; calls = n positionals + keyword-name subset (incl. one "
            "unknown name), some with literal *seq / **map; six callee kinds (function, method, classmethod, "
            "staticmethod, __init__, lambda). Exhaustive slices as listed under exhaustive_slices + random larger "
            "signatures (<=3 per kind). evaluations = calls judged by CPython and pytype. non-trivial = the "
            "signature has a default, *va or **kw, or the call uses keywords / *seq / **map; distinct by "
            "(callee kind, signature kind vector, call shape)."))
  tasks, info = _tasks(tier, seed)
  ck.extra["exhaustive_slices"] = info
  errkinds = {}
  not_covered = 0
  shrink_stats = {"rounds": 0, "candidate_calls": 0}
  complete = True
  for res in pool.run_tasks(tasks):
    tid = str(res.get("task"))
    if not res.get("ok"):
      ck.child_failed(res, f"C13 batch {tid}")
      if tid.startswith("exh"):
        complete = False
      continue
    r = res["result"]
    ck.merge_cases(r["n"], r["fps"])
    for k, v in r["counters"].items():
      ck.count(k, v)
    for k, v in r["errkinds"].items():
      errkinds[k] = errkinds.get(k, 0) + v
    for s in r["samples"]:
      ck.sample(s)
    ck.count("modules analysed", r["modules"])
    ck.count("callees generated", r["units"])
    ck.count("disagreeing calls (before shrinking / dedupe)", r["nviol_cases"])
    not_covered += r["not_covered"]
    for k in shrink_stats:
      shrink_stats[k] += r["shrink"][k]
    for w in r["violations"]:
      ck.violation(w.pop("key"), w)
  ck.extra["pytype_error_kinds_seen"] = errkinds
  ck.extra["shrinking"] = shrink_stats
  ck.extra["exhaustive_slices_complete"] = complete
  ck.extra["call_shapes_enumerated_but_not_run (budget; sampled kinds)"] = not_covered
  ck.exhaustive = False
  ck.assumptions = [
      "the running CPython (3.12) calling the same definition text is the specification of argument binding",
      "the emitted stub type of `r = f(...)` with f returning all its parameters is what pytype bound them to",
      "**kw is observable only as the set of value types (every keyword argument has its own type)"]
  if ck.evaluations == 0:
    ck.inconclusive("no call was judged")
  if ck.counters.get("CPython TypeError", 0) == 0 or ck.counters.get("CPython binds", 0) == 0:
    ck.inconclusive("one side of the iff was never exercised")
  return ck.finish()


def replay(rec):
  w = rec["witness"]
  status = 0
  for label, case in (("shrunk", w), ("original", w.get("original"))):
    if not case:
      continue
    verdicts, src = judge([(case["kind"], case["sig"], [case["call"]])])
    v = verdicts[0][0]
    print(f"--- {label} case")
    print(src)
    if v:
      print(f"VIOLATION property={PID} replay=<replayed>")
      print(f"  {v['direction']}: {v['clause']} :: {v['detail']}")
      status = 1
    else:
      print("no disagreement")
  return status
