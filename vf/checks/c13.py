"""C13 - calls bind arguments exactly as CPython does.

Generated modules hold ~40 callees (twelve callee kinds) whose bodies return all
their parameters, and one call per line with arguments of pairwise distinct
types.  CPython executes the same definitions and the same call expressions
(and inspect.signature(...).bind is asked as a second opinion).  Compared:
  TypeError in CPython  <=>  one of wrong-arg-count / missing-parameter /
  wrong-keyword-args / duplicate-keyword-argument on that call line;
  when the call succeeds, the stub type of the result tuple, element by
  element, against the run-time types of the parameters.
Disagreements are shrunk (parameters, arguments, callee kind removed while the
same direction + failing clause persists, each step re-judged by both sides)
and keyed by the shrunk skeleton.
"""
from __future__ import annotations

import hashlib
import json
import os
import random

from vf import common, pool
from vf.gen import signatures as S
from vf.oracle import c13_bind as O

PID = "C13"
ARITY = ("wrong-arg-count", "missing-parameter", "wrong-keyword-args", "duplicate-keyword-argument")
UNITS_PER_MODULE = 40
CALLS_PER_MODULE = 700


def _h(s):
  return hashlib.sha1(s.encode()).hexdigest()[:12]


# --------------------------------------------------------------------------
# judging a list of units in one analysed module


def _role(t):
  """Which kind of argument a type stands for (*seq items count as positional
  arguments, **map entries as keyword arguments)."""
  if isinstance(t, list):
    return t[0]
  if t.startswith("K_") or t.startswith("Q_"):
    return "keyword arg"
  if t.startswith("D_"):
    return "default"
  if t in ("int", "str", "float", "bytes", "complex") or (t[0] in "PS" and t[1:].isdigit()):
    return "positional arg"
  return "type " + t


def _pgroup(n):
  return {"a": "positional-only param", "b": "positional-or-keyword param", "c": "keyword-only param",
          "v": "*va", "k": "**kw", "<": "result"}[n[0]]


def judge(units, acc=None):
  """units: [(kind, sig, calls)].  Returns verdicts[u][c] = None (agree / not judged) or
  {"direction", "clause", "detail"}; counts into acc when given."""
  from vf import pt
  full = [(kind, sig, k, calls) for k, (kind, sig, calls) in enumerate(units)]
  ns = O.build_namespace(full)
  lines = O.module_prefix(S.marker_names([(sig, calls) for _, sig, calls in units]))
  call_line = {}
  exprs = {}
  for kind, sig, k, calls in full:
    defs, tmpl = S.callee_text(kind, sig, k)
    lines.extend(defs)
    for i, c in enumerate(calls):
      expr = tmpl.format(args=S.args_text(c))
      lines.append(f"r{k}_{i} = {expr}")
      call_line[(k, i)] = len(lines)
      exprs[(k, i)] = expr
  src = "\n".join(lines) + "\n"
  res = pt.analyze(src)
  by_line = {}
  for name, line, msg in res.errors:
    by_line.setdefault(line, []).append((name, msg))
    if acc is not None:
      acc["errkinds"][name] = acc["errkinds"].get(name, 0) + 1
  consts = {c.name: c.type for c in res.ast.constants}
  out = []
  for kind, sig, k, calls in full:
    names = S.param_names(sig)
    row = []
    for i, c in enumerate(calls):
      cp = O.evaluate(ns, kind, sig, k, c)
      if "undecided" in cp:
        if acc is not None:
          _cnt(acc, "not judged: " + cp["undecided"])
        row.append(None)
        continue
      if acc is not None and cp.get("bind_differs"):
        _cnt(acc, "inspect.signature.bind differs from the real call (real call is the oracle)")
      errs = by_line.get(call_line[(k, i)], [])
      arity = sorted({n for n, _ in errs if n in ARITY})
      other = sorted({n for n, _ in errs if n not in ARITY})
      v = None
      if acc is not None:
        acc["n"] += 1
        _cnt(acc, f"calls judged ({kind})")
        if cp["ok"]:
          _cnt(acc, "CPython binds")
        else:
          _cnt(acc, "CPython TypeError")
          _cnt(acc, f"CPython clause '{cp['clause']}' -> pytype {arity or 'no arity error'}")
        if other:
          _cnt(acc, f"non-arity errors on call lines: {other}")
      if not cp["ok"]:
        if not arity:
          v = {"direction": "missed", "items": [cp["clause"]], "detail": cp["msg"]}
      else:
        if arity:
          v = {"direction": "spurious", "items": ["pytype reports " + ",".join(arity)],
               "detail": "; ".join(m for n, m in errs if n in ARITY)[:300]}
        else:
          t = consts.get(f"r{k}_{i}")
          got = O.decode(t) if t is not None else "<name missing in the stub>"
          if got == "Any":
            # pytype gave up on the call result (Any admits every binding): not judged, counted
            mism = []
            if acc is not None:
              _cnt(acc, "call result is Any: binding not judged")
          else:
            mism = O.compare(names, cp["bound"], got)
          if acc is not None:
            _cnt(acc, "bindings compared (parameters)", len(names))
          if mism:
            # what differs on named parameters; a difference confined to *va / **kw is its own item
            named = sorted({f"{_pgroup(n)}: CPython {_role(e)}, pytype {_role(g)}"
                            for n, e, g in mism if n not in ("va", "kw")})
            rest = sorted({f"{_pgroup(n)} differs" for n, e, g in mism if n in ("va", "kw")})
            v = {"direction": "wrong binding", "items": named or rest,
                 "detail": [[n, e, g] for n, e, g in mism], "other_errors": other}
      if v is not None:
        v["expr"] = exprs[(k, i)]
      row.append(v)
    out.append(row)
  return out, src


def _cnt(acc, k, n=1):
  acc["c"][k] = acc["c"].get(k, 0) + n


def nontrivial(sig, call, cp_ok=None):
  """Call whose binding uses a default, *va or **kw, or has a keyword / star part."""
  if sig["va"] or sig["kw"] or any(sig["po"] + sig["pk"] + sig["ko"]):
    return True
  return bool(call["kws"]) or call.get("star") is not None or call.get("dstar") is not None


# --------------------------------------------------------------------------
# shrinking


def _renumber_kw(names, grp_letter, removed):
  out = []
  for n in names:
    if n[0] == grp_letter and n[1:].isdigit() and int(n[1:]) > removed:
      out.append(f"{grp_letter}{int(n[1:]) - 1}")
    else:
      out.append(n)
  return out


def moves(kind, sig, call):
  """Smaller neighbours of a case."""
  if kind != "func":
    yield "func", sig, call
  used = set(call["kws"]) | set(call.get("dstar") or [])
  # joint moves: a parameter together with the argument that feeds it
  for g, letter in (("ko", "c"), ("pk", "b"), ("po", "a")):
    for i in range(len(sig[g]) - 1, -1, -1):
      n = f"{letter}{i}"
      if n not in used:
        continue
      s2 = dict(sig)
      s2[g] = sig[g][:i] + sig[g][i + 1:]
      if not S.valid(s2):
        continue
      c2 = dict(call)
      c2["kws"] = _renumber_kw([x for x in call["kws"] if x != n], letter, i)
      if call.get("dstar") is not None:
        c2["dstar"] = _renumber_kw([x for x in call["dstar"] if x != n], letter, i)
      yield kind, s2, c2
  # a positional parameter together with one positional argument
  npo = len(sig["po"])
  for j in range(min(call["npos"], npo + len(sig["pk"])) - 1, -1, -1):
    g, letter, i = ("po", "a", j) if j < npo else ("pk", "b", j - npo)
    if f"{letter}{i}" in used:
      continue
    s2 = dict(sig)
    s2[g] = sig[g][:i] + sig[g][i + 1:]
    if not S.valid(s2):
      continue
    c2 = dict(call, npos=call["npos"] - 1)
    c2["kws"] = _renumber_kw(call["kws"], letter, i)
    if call.get("dstar") is not None:
      c2["dstar"] = _renumber_kw(call["dstar"], letter, i)
    yield kind, s2, c2
  for g, letter in (("ko", "c"), ("pk", "b"), ("po", "a")):
    for i in range(len(sig[g]) - 1, -1, -1):
      if f"{letter}{i}" in used:
        continue
      s2 = dict(sig)
      s2[g] = sig[g][:i] + sig[g][i + 1:]
      if not S.valid(s2):
        continue
      c2 = dict(call)
      c2["kws"] = _renumber_kw(call["kws"], letter, i)
      if call.get("dstar") is not None:
        c2["dstar"] = _renumber_kw(call["dstar"], letter, i)
      yield kind, s2, c2
  if sig["va"]:
    yield kind, dict(sig, va=False), call
  if sig["kw"]:
    yield kind, dict(sig, kw=False), call
  if call.get("star") is not None:
    yield kind, sig, dict(call, npos=call["npos"] + call["star"], star=None)
    if call["star"] > 0:
      yield kind, sig, dict(call, star=call["star"] - 1)
  if call.get("dstar") is not None:
    merged = sorted(set(call["kws"]) | set(call["dstar"]))
    if len(merged) == len(call["kws"]) + len(call["dstar"]):
      yield kind, sig, dict(call, kws=merged, dstar=None)
    for n in call["dstar"]:
      yield kind, sig, dict(call, dstar=[x for x in call["dstar"] if x != n])
  if call["npos"] > 0:
    yield kind, sig, dict(call, npos=call["npos"] - 1)
  for n in call["kws"]:
    yield kind, sig, dict(call, kws=[x for x in call["kws"] if x != n])
  # a default that plays no role can go
  for g in ("po", "pk", "ko"):
    for i, d in enumerate(sig[g]):
      if d:
        s2 = dict(sig)
        s2[g] = sig[g][:i] + [0] + sig[g][i + 1:]
        if S.valid(s2):
          yield kind, s2, call


def _ckey(kind, sig, call):
  return json.dumps([kind, sig, call], sort_keys=True)


def shrink(cases, memo, max_rounds=40, lazy=3):
  """cases: dicts with kind, sig, call, direction, item.  Shrinks in place: a smaller
  neighbour is taken when both sides, re-run on it, still disagree in the same direction
  with the same item.  Per round only the first `lazy` untested neighbours of each case are
  evaluated (one analysed module per round)."""
  stats = {"rounds": 0, "candidate_calls": 0}
  for _ in range(max_rounds):
    todo = {}
    for c in cases:
      k = 0
      for x in moves(c["kind"], c["sig"], c["call"]):
        key = _ckey(*x)
        if key in memo:
          m = memo[key]
          if m and m[0] == c["direction"] and c["item"] in m[1]:
            break     # an accepted neighbour is already known
          continue
        todo.setdefault(key, x)
        k += 1
        if k >= lazy:
          break
    if todo:
      items = list(todo.items())
      for lo in range(0, len(items), 300):
        chunk = items[lo:lo + 300]
        verdicts, _ = judge([(k, sg, [cl]) for _, (k, sg, cl) in chunk])
        for (key, _), row in zip(chunk, verdicts):
          v = row[0]
          memo[key] = (v["direction"], v["items"], v["detail"], v["expr"]) if v else None
      stats["candidate_calls"] += len(items)
    stats["rounds"] += 1
    changed = False
    for c in cases:
      for x in moves(c["kind"], c["sig"], c["call"]):
        key = _ckey(*x)
        if key not in memo:
          break       # order matters: wait for the earlier neighbours' verdicts
        m = memo[key]
        if m and m[0] == c["direction"] and c["item"] in m[1]:
          c["kind"], c["sig"], c["call"] = x
          c["detail"], c["expr"] = m[2], m[3]
          changed = True
          break
    if not changed and not todo:
      break
  return stats


def mechanism_key(c):
  return (f"{c['direction']} | {c['kind']} | def f({S.params_text(c['sig'])}) | f({S.args_text(c['call'])}) | "
          f"{c['item']}")


def _size(c):
  sg, cl = c["sig"], c["call"]
  return (len(sg["po"]) + len(sg["pk"]) + len(sg["ko"]) + sg["va"] + sg["kw"] + cl["npos"] + len(cl["kws"])
          + (cl.get("star") or 0) + len(cl.get("dstar") or []) + (c["kind"] != "func"))


def embeds(small, big):
  """Static test: can `small` (a shrunk case) be obtained from `big` by the deletions of
  moves()?  Used to attribute further members of a (direction, item) group to a shrunk
  form without re-running them; anything not embedded is shrunk for real."""
  import itertools
  if small["kind"] not in ("func", big["kind"]):
    return False
  ss, bs, sc, bc = small["sig"], big["sig"], small["call"], big["call"]
  if (ss["va"] and not bs["va"]) or (ss["kw"] and not bs["kw"]):
    return False
  if sc["npos"] + (sc.get("star") or 0) > bc["npos"] + (bc.get("star") or 0):
    return False
  if (sc.get("star") is not None and bc.get("star") is None) or (
      sc.get("dstar") is not None and bc.get("dstar") is None):
    return False
  bkw = set(bc["kws"]) | set(bc.get("dstar") or [])
  skw = list(sc["kws"]) + list(sc.get("dstar") or [])
  choices = []
  for g in ("po", "pk", "ko"):
    n, m = len(ss[g]), len(bs[g])
    if n > m:
      return False
    # defaults may be dropped by a move, so small's flag <= big's flag
    choices.append([t for t in itertools.combinations(range(m), n)
                    if all(ss[g][a] <= bs[g][b] for a, b in enumerate(t))])
  for po, pk, ko in itertools.product(*choices):
    ren = {}
    for letter, t in (("a", po), ("b", pk), ("c", ko)):
      for a, b in enumerate(t):
        ren[f"{letter}{a}"] = f"{letter}{b}"
    ok = True
    for n in skw:
      if n in ren:
        if ren[n] not in bkw:
          ok = False
      elif n in ("va", "kw"):
        if n not in bkw:
          ok = False
      elif not (bkw & set(S.UNKNOWN)):
        ok = False
    if ok:
      return True
  return False


# --------------------------------------------------------------------------
# workload


def _units_exhaustive(max_per_kind, kinds, max_kw, unknown):
  """Deterministic list of (kind, sig) units."""
  sigs = S.enumerate_signatures(max_per_kind)
  return [(kind, s) for s in sigs for kind in kinds]


def child(arg):
  rng = random.Random(arg["seed"])
  acc = {"n": 0, "c": {}, "errkinds": {}}
  units = []
  not_covered = 0
  mode = arg["mode"]
  if mode == "exhaustive":
    allu = _units_exhaustive(arg["max_per_kind"], arg["kinds"], arg["max_kw"], 1)
    for idx in range(arg["shard"], len(allu), arg["nshards"]):
      kind, sig = allu[idx]
      calls = S.enumerate_calls(sig, max_kw=arg["max_kw"], extra_pos=arg.get("extra_pos", 1))
      frac = arg.get("call_fraction", {}).get(kind, 1.0)
      if frac < 1.0:
        keep = max(4, int(len(calls) * frac))
        not_covered += len(calls) - keep
        calls = rng.sample(calls, keep)
      if arg.get("star_fraction"):
        extra = [S.star_variants(rng, sig, c) for c in calls if rng.random() < arg["star_fraction"]]
        calls = calls + extra
      units.append((kind, sig, calls))
  elif mode == "random":
    for _ in range(arg["count"]):
      sig = S.random_signature(rng, arg.get("max_per_kind", 3))
      kind = rng.choice(S.KINDS)
      calls = []
      seen = set()
      for _ in range(arg.get("calls_per_sig", 14)):
        c = S.random_call(rng, sig)
        if rng.random() < arg.get("star_fraction", 0.3):
          c = S.star_variants(rng, sig, c)
        key = json.dumps(c, sort_keys=True)
        if key not in seen:
          seen.add(key)
          calls.append(c)
      units.append((kind, sig, calls))
  elif mode == "units":
    units = [(k, s, cs) for k, s, cs in arg["units"]]
  elif mode == "shrink":
    cases = [dict(c) for c in arg["cases"]]
    st = shrink(cases, {})
    for c in cases:
      c["key"] = mechanism_key(c)
      c["def"] = S.callee_text(c["kind"], c["sig"], 0)[0]
    return {"cases": cases, "shrink": st, "group": arg.get("group")}
  # __new__-carrier kinds: pytype's repeat-call cache (skip_repeat_calls applies to __new__, not to
  # __init__) hands back the instance of an earlier call with identical argument types, and the
  # carrier attribute of that shared instance holds whatever the latest analysed call stored.
  # That is not argument binding, so a callee never gets two calls with the same argument types
  # (star forms are kept in preference to their plain twins).
  dropped_twins = 0
  for n, (kind, sig, calls) in enumerate(units):
    if kind in S.NEW_CARRIER_KINDS:
      seen, kept = set(), []
      for c in sorted(calls, key=lambda c: c.get("star") is None and c.get("dstar") is None):
        key = S.argument_types_key(c)
        if key in seen:
          dropped_twins += 1
          continue
        seen.add(key)
        kept.append(c)
      units[n] = (kind, sig, kept)
  if dropped_twins:
    _cnt(acc, "calls dropped for __new__ kinds (same argument types as another call of the callee)", dropped_twins)
  fps = set()
  cases = []
  batch, ncalls = [], 0
  sample = None
  modules = 0

  def flush():
    nonlocal batch, ncalls, sample, modules
    if not batch:
      return
    verdicts, _ = judge(batch, acc)
    modules += 1
    for (kind, sig, calls), row in zip(batch, verdicts):
      sk = S.sig_skeleton(sig)
      for c, v in zip(calls, row):
        if nontrivial(sig, c):
          fps.add(_h(f"{kind}|{sk}|{json.dumps(c, sort_keys=True)}"))
        if v is not None:
          for item in v["items"]:
            cases.append({"kind": kind, "sig": sig, "call": c, "direction": v["direction"],
                          "item": item, "detail": v["detail"], "expr": v["expr"]})
    if sample is None:
      kind, sig, calls = batch[0]
      sample = {"kind": kind, "def": S.callee_text(kind, sig, 0)[0], "n_calls": len(calls),
                "first_calls": [S.args_text(c) for c in calls[:4]]}
    batch, ncalls = [], 0

  for u in units:
    batch.append(u)
    ncalls += len(u[2])
    if len(batch) >= UNITS_PER_MODULE or ncalls >= CALLS_PER_MODULE:
      flush()
  flush()
  return {"n": acc["n"], "fps": sorted(fps), "counters": acc["c"], "errkinds": acc["errkinds"],
          "cases": cases[:6000], "ncases": len(cases), "samples": [sample] if sample else [],
          "modules": modules, "units": len(units), "not_covered": not_covered}


# --------------------------------------------------------------------------
# driver


def _tasks(tier, seed):
  rng = random.Random(f"{PID}-{seed}-tasks")
  tasks = []
  info = {}

  def add(tid, **arg):
    arg["seed"] = rng.randrange(1 << 30)
    tasks.append({"fn": "vf.checks.c13:child", "arg": arg, "id": tid, "timeout": 5400})

  info["exhaustive <=1 parameter of each kind"] = {
      "signatures": len(S.enumerate_signatures(1)), "callee_kinds": len(S.KINDS), "call_fraction": 1.0,
      "call_shapes": "0..#positional+1 (+1 with *va) positionals x keyword subsets (<=3; <=2 when a star-parameter name is used) of params + the callee's own *va/**kw names + 1 unknown"}
  if tier == "quick":
    ns1 = 23
    frac1 = {"func": 1.0, "method": 0.2, "classmethod": 0.2, "staticmethod": 0.2, "init": 0.2, "lambda": 0.2}
    frac1.update({k: 0.15 for k in S.CTOR_KINDS})
    info["exhaustive <=1 parameter of each kind"]["call_fraction"] = frac1
    for s in range(ns1):
      add(f"exh1/{s}", mode="exhaustive", max_per_kind=1, kinds=S.KINDS, max_kw=3, shard=s, nshards=ns1,
          star_fraction=0.15, call_fraction=frac1)
    for b in range(14):
      add(f"rnd/{b}", mode="random", count=22, calls_per_sig=12, star_fraction=0.3)
  else:
    ns1 = 16
    frac1 = {k: 0.5 for k in S.KINDS}
    frac1["func"] = 1.0
    info["exhaustive <=1 parameter of each kind"]["call_fraction"] = frac1
    for s in range(ns1):
      add(f"exh1/{s}", mode="exhaustive", max_per_kind=1, kinds=S.KINDS, max_kw=3, shard=s, nshards=ns1,
          star_fraction=0.3, call_fraction=frac1)
    ns2 = 160
    frac = {"func": 1.0, "method": 0.08, "classmethod": 0.05, "staticmethod": 0.05, "init": 0.08, "lambda": 0.05}
    frac.update({k: 0.03 for k in S.CTOR_KINDS})
    for s in range(ns2):
      add(f"exh2/{s}", mode="exhaustive", max_per_kind=2, kinds=S.KINDS, max_kw=3, shard=s, nshards=ns2,
          call_fraction=frac, star_fraction=0.03)
    info["exhaustive <=2 parameters of each kind"] = {
        "signatures": len(S.enumerate_signatures(2)), "call_fraction_by_kind": frac,
        "call_shapes": "0..#positional+1 (+1 with *va) positionals x keyword subsets (<=3; <=2 when a star-parameter name is used) of params + the callee's own *va/**kw names + 1 unknown"}
    for b in range(64):
      add(f"rnd/{b}", mode="random", count=40, calls_per_sig=16, star_fraction=0.35)
  return tasks, info


def run(tier, seed):
  ck = common.Check(
      PID, tier, seed,
      rule=("signatures over positional-only / positional-or-keyword / keyword-only parameters (each with or "
            "without default), optional *va, **kw; calls = n positionals + keyword-name subset (parameter names, the "
            "callee's own *va / **kw parameter names, one unknown name), some with literal *seq / **map; "
            "twelve callee kinds (function, method, classmethod, staticmethod, __init__, lambda, and really "
            "constructed classes: own __new__, __new__ inherited over 1/2 levels, __init__ inherited over 1/2 "
            "levels, __new__ + __init__). Exhaustive slices as listed under exhaustive_slices + random larger "
            "signatures (<=3 per kind). evaluations = calls judged by CPython and pytype. non-trivial = the "
            "signature has a default, *va or **kw, or the call uses keywords / *seq / **map; distinct by "
            "(callee kind, signature kind vector, call shape)."))
  tasks, info = _tasks(tier, seed)
  ck.extra["exhaustive_slices"] = info
  sub = float(os.environ.get("VERIF_SUBSAMPLE", "1"))
  if sub < 1:   # development aid only: run a seeded fraction of the batches
    r = random.Random(f"{PID}-{seed}-subsample")
    tasks = [t for t in tasks if r.random() < sub]
    ck.extra["SUBSAMPLED_RUN_fraction_of_batches"] = sub
  errkinds = {}
  not_covered = 0
  complete = True
  all_cases = []
  dropped = 0
  for res in pool.run_tasks(tasks):
    tid = str(res.get("task"))
    if not res.get("ok"):
      ck.child_failed(res, f"C13 batch {tid}")
      if tid.startswith("exh"):
        complete = False
      continue
    r = res["result"]
    ck.merge_cases(r["n"], r["fps"])
    for k, v in r["counters"].items():
      ck.count(k, v)
    for k, v in r["errkinds"].items():
      errkinds[k] = errkinds.get(k, 0) + v
    for s in r["samples"]:
      ck.sample(s)
    ck.count("modules analysed", r["modules"])
    ck.count("callees generated", r["units"])
    ck.count("disagreeing (call, item) pairs", r["ncases"])
    dropped += r["ncases"] - len(r["cases"])
    all_cases.extend(r["cases"])
    not_covered += r["not_covered"]
  shrink_stats = _attribute(ck, all_cases, seed)
  if dropped:
    ck.count("disagreeing pairs not shipped by children (cap)", dropped)
  ck.extra["pytype_error_kinds_seen"] = errkinds
  ck.extra["shrinking"] = shrink_stats
  ck.extra["exhaustive_slices_complete"] = complete
  ck.extra["call_shapes_enumerated_but_not_run (budget; sampled kinds)"] = not_covered
  ck.exhaustive = False
  ck.assumptions = [
      "the running CPython (3.12) calling the same definition text is the specification of argument binding",
      "the emitted stub type of `r = f(...)` with f returning all its parameters is what pytype bound them to",
      "**kw is observable only as the set of value types (every keyword argument has its own type)"]
  if ck.evaluations == 0:
    ck.inconclusive("no call was judged")
  if ck.counters.get("CPython TypeError", 0) == 0 or ck.counters.get("CPython binds", 0) == 0:
    ck.inconclusive("one side of the iff was never exercised")
  return ck.finish()


def _attribute(ck, cases, seed, per_wave=4, waves=4):
  """Phase 2: gives every disagreeing (call, item) a mechanism key.  Per (direction, item)
  group the smallest cases are shrunk by re-running both sides (child mode "shrink"); other
  members that statically embed a shrunk form get its key; the rest go to the next wave."""
  stats = {"rounds": 0, "candidate_calls": 0, "shrunk_by_rerun": 0, "attributed_by_embedding": 0,
           "left_unshrunk": 0}
  groups = {}
  seen = set()
  for c in cases:
    k = (_ckey(c["kind"], c["sig"], c["call"]), c["direction"], c["item"])
    if k in seen:
      continue
    seen.add(k)
    groups.setdefault((c["direction"], c["item"]), []).append(c)
  for g in groups.values():
    g.sort(key=lambda c: (_size(c), _ckey(c["kind"], c["sig"], c["call"])))
  forms = {g: [] for g in groups}      # shrunk forms per group
  pending = dict(groups)
  for _ in range(waves):
    tasks = []
    for g, members in pending.items():
      rest = []
      for c in members:
        hit = next((f for f in forms[g] if embeds(f, c)), None)
        if hit is not None:
          stats["attributed_by_embedding"] += 1
          ck.violation(hit["key"], _wit(hit, c, "embedding"))
        else:
          rest.append(c)
      pending[g] = rest
      if rest:
        tasks.append({"fn": "vf.checks.c13:child", "id": f"shrink/{len(tasks)}", "timeout": 5400,
                      "arg": {"mode": "shrink", "seed": seed, "group": list(g), "cases": rest[:per_wave]}})
    if not tasks:
      break
    sent = {tuple(t["arg"]["group"]): t["arg"]["cases"] for t in tasks}
    for res in pool.run_tasks(tasks):
      if not res.get("ok"):
        ck.child_failed(res, f"C13 shrink {res.get('task')}")
        continue
      r = res["result"]
      stats["rounds"] += r["shrink"]["rounds"]
      stats["candidate_calls"] += r["shrink"]["candidate_calls"]
      g = tuple(r["group"])
      for orig, f in zip(sent[g], r["cases"]):
        forms[g].append(f)
        stats["shrunk_by_rerun"] += 1
        ck.violation(f["key"], _wit(f, orig, "shrinking (both sides re-run at every step)"))
      pending[g] = pending[g][len(sent[g]):]
  for g, members in pending.items():
    for c in members:
      hit = next((f for f in forms[g] if embeds(f, c)), None)
      if hit is not None:
        ck.violation(hit["key"], _wit(hit, c, "embedding"))
      else:
        stats["left_unshrunk"] += 1
        key = (f"{c['direction']} | {c['kind']} | {S.sig_skeleton(c['sig'])} | {S.call_skeleton(c['call'])} | "
               f"{c['item']} (not shrunk)")
        ck.violation(key, _wit(None, c, "none"))
  return stats


def _wit(form, c, how):
  w = {"direction": c["direction"], "item": c["item"],
       "original": {"kind": c["kind"], "sig": c["sig"], "call": c["call"], "expr": c["expr"],
                    "def": S.callee_text(c["kind"], c["sig"], 0)[0], "detail": c["detail"]},
       "attributed_by": how}
  if form is not None:
    w.update({"kind": form["kind"], "sig": form["sig"], "call": form["call"], "expr": form["expr"],
              "def": form["def"], "detail": form["detail"]})
  return w


def replay(rec):
  w = rec["witness"]
  status = 0
  for label, case in (("shrunk", w if "sig" in w else None), ("original", w.get("original"))):
    if not case:
      continue
    verdicts, src = judge([(case["kind"], case["sig"], [case["call"]])])
    v = verdicts[0][0]
    print(f"--- {label} case")
    print(src)
    if v:
      print(f"VIOLATION property={PID} replay=<replayed>")
      print(f"  {v['direction']}: {v['items']} :: {v['detail']}")
      status = 1
    else:
      print("no disagreement")
  return status
