"""C11 - stub optimisation only ever widens types and is idempotent.

Oracle (vf/oracle/c11_denote.py): a finite-universe denotation of pytd types
(instances of A, B(A), C(A), D(B,C), E and of int/float/str/bytes/bool/None,
containers two deep, class objects, callables as (arity, result)).
  widen      : every enumerated inhabitant of a constant / parameter / return type of U
               is a member of the corresponding type of Optimize(U, s); functions are
               compared relationally over argument vectors (signature grouping).
  permitted  : with the lossless settings, every inhabitant of the optimised type is
               a member of what the listed rewrites (dedupe, flatten, Any absorbs,
               container merging, max_union collapse) may produce from the input.
  idempotent : Optimize(Optimize(U, s), s) == Optimize(U, s), structurally and as text.
Workloads: generated pytd units x settings vectors; every stub the real pipeline
emits for generated programs (through a record-and-return monitor wrapped around
optimize.Optimize); pytype's bundled stubs through the real loader.
A failing case is shrunk on the AST and keyed by mechanism (which pass still has
work on the second run and which pass created that work).
"""
from __future__ import annotations

import itertools
import json
import os
import random
import time

from vf import common, pool

PID = "C11"

DEFAULTS = {"lossy": False, "use_abcs": False, "max_union": 7, "remove_mutable": False,
            "can_do_lookup": True}
FLAG_ORDER = ["lossy", "use_abcs", "max_union", "remove_mutable", "can_do_lookup"]


def all_settings():
  out = []
  for lossy, abcs, mu, rm, look in itertools.product(
      [False, True], [False, True], [7, 4, 2], [False, True], [True, False]):
    out.append({"lossy": lossy, "use_abcs": abcs, "max_union": mu, "remove_mutable": rm,
                "can_do_lookup": look})
  return out


def label(st):
  parts = []
  for k in FLAG_ORDER:
    if st[k] != DEFAULTS[k]:
      parts.append(f"{k}={st[k]}" if k == "max_union" else
                   (k if st[k] else "no_lookup"))
  return "+".join(parts) if parts else "lossless"


def flags(st):
  """Canonical name of the non-default flags (the value of max_union is not part of it)."""
  parts = []
  for k in FLAG_ORDER:
    if st[k] != DEFAULTS[k]:
      parts.append("max_union<7" if k == "max_union" else (k if st[k] else "no_lookup"))
  return "+".join(parts) if parts else "lossless settings"


def is_lossless(st):
  return all(st[k] == DEFAULTS[k] for k in ("lossy", "use_abcs", "max_union", "remove_mutable"))


# ---------------------------------------------------------------------------
# child side: environment


class Env:
  """One pytype loader per child process."""

  def __init__(self):
    from pytype import config, load_pytd
    from pytype.pyi import parser
    from pytype.pytd import optimize, pytd, pytd_utils, visitors, abc_hierarchy
    from vf.oracle import c11_denote
    self.opts = config.Options.create(python_version=(3, 12))
    self.loader = load_pytd.Loader(self.opts)
    self.parser = parser
    self.popts = parser.PyiOptions.from_toplevel_options(self.opts)
    self.optimize, self.pytd, self.pytd_utils, self.visitors = optimize, pytd, pytd_utils, visitors
    self.abc_hierarchy = abc_hierarchy
    self.dn = c11_denote
    self.real = c11_denote.real_optimize()
    self.n_optimize = 0
    self.deps_super = {}

  def load_text(self, text, name):
    ast = self.parser.parse_string(text, name=name, options=self.popts)
    return self.loader.load_file(name, name + ".pyi", mod_ast=ast)

  def unload(self, name):
    self.loader.remove_name(name)
    self.loader._modules.invalidate_concatenated()   # pylint: disable=protected-access

  def opt(self, unit, deps, st):
    self.n_optimize += 1
    return self.real(unit, deps, **st)

  def text(self, node):
    return self.pytd_utils.Print(node)


def unit_eq(a, b):
  from vf.oracle import c11_denote
  return c11_denote.unit_eq(a, b)


# ---------------------------------------------------------------------------
# diagnostic mirror of the pass pipeline (naming only; verdicts never depend on it)


def mirror_steps(env, node, deps, st):
  """[(pass name, function)] in the order Optimize applies them."""
  o, v = env.optimize, env.visitors
  steps = [
      ("NormalizeGenericSelfTypes", lambda n: n.Visit(o.NormalizeGenericSelfTypes())),
      ("RemoveDuplicates", lambda n: n.Visit(o.RemoveDuplicates())),
      ("SimplifyUnions", lambda n: n.Visit(o.SimplifyUnions())),
      ("CombineReturnsAndExceptions", lambda n: n.Visit(o.CombineReturnsAndExceptions())),
      ("CombineContainers", lambda n: n.Visit(o.CombineContainers())),
      ("SimplifyContainers", lambda n: n.Visit(o.SimplifyContainers())),
  ]
  if deps:
    cache = {}

    def hier(n):
      if "h" not in cache:
        ent = env.deps_super.get(id(deps))
        if ent is None or ent[0] is not deps:
          env.deps_super.clear()
          env.deps_super[id(deps)] = ent = (deps, deps.Visit(v.ExtractSuperClassesByName()))
        sup = dict(ent[1])
        sup.update(n.Visit(v.ExtractSuperClassesByName()))
        if st["use_abcs"]:
          sup.update(env.abc_hierarchy.GetSuperClasses())
        cache["h"] = o.SuperClassHierarchy(sup)
      return cache["h"]
    steps.append(("SimplifyUnionsWithSuperclasses",
                  lambda n: n.Visit(o.SimplifyUnionsWithSuperclasses(hier(n)))))
    if st["lossy"]:
      steps.append(("FindCommonSuperClasses", lambda n: n.Visit(o.FindCommonSuperClasses(hier(n)))))
  if st["max_union"]:
    steps.append(("CollapseLongUnions", lambda n: n.Visit(o.CollapseLongUnions(st["max_union"]))))
  steps.append(("AdjustReturnAndConstantGenericType",
                lambda n: n.Visit(o.AdjustReturnAndConstantGenericType())))
  if st["remove_mutable"]:
    steps += [
        ("AbsorbMutableParameters", lambda n: n.Visit(o.AbsorbMutableParameters())),
        ("CombineContainers", lambda n: n.Visit(o.CombineContainers())),
        ("MergeTypeParameters", lambda n: n.Visit(o.MergeTypeParameters())),
        ("AdjustSelf", lambda n: n.Visit(v.AdjustSelf())),
    ]
  steps.append(("SimplifyContainers", lambda n: n.Visit(o.SimplifyContainers())))
  if deps and st["can_do_lookup"]:
    steps.append(("LookupClasses", lambda n: v.LookupClasses(n, deps, ignore_late_types=True)))
  return steps


def mirror_run(env, node, deps, st, validate=True):
  """States after every pass; None if the mirror does not reproduce Optimize.  Tries one
  sweep first (the historical Optimize) and then sweeps to a fixed point (Optimize since
  2780ba8)."""
  try:
    steps = mirror_steps(env, node, deps, st)
    states = [node]
    for _, f in steps:
      states.append(f(states[-1]))
    if not validate:
      return steps, states
    real = env.opt(node, deps, st)
    if unit_eq(states[-1], real):
      return steps, states
    all_steps = list(steps)
    cur_start = node
    for _ in range(10):
      if unit_eq(states[-1], cur_start):
        break
      cur_start = states[-1]
      more = mirror_steps(env, cur_start, deps, st)
      for _, f in more:
        states.append(f(states[-1]))
      all_steps += more
      if unit_eq(states[-1], real):
        return all_steps, states
    return None, None
  except Exception:   # pylint: disable=broad-except
    return None, None


def trace_idempotence(env, unit, deps, st, validate=True):
  """(P, Q): P = first pass that changes Optimize(U) on the second run, Q = the pass
  of the first run after which P has work to do again (and keeps having it until the
  end of that run)."""
  steps, states = mirror_run(env, unit, deps, st, validate)
  if steps is None:
    return "?", "?"
  o1 = states[-1]
  steps2, states2 = mirror_run(env, o1, deps, st, validate)
  if steps2 is None:
    return "?", "?"
  p_idx = None
  for j in range(1, len(states2)):
    if not unit_eq(states2[j], states2[j - 1]):
      p_idx = j - 1
      break
  if p_idx is None:
    return "?", "?"
  pname, pf = steps2[p_idx]
  last = max(i for i, (n, _) in enumerate(steps) if n == pname)
  # Q = the pass after which P has work that is still there at the end of the first run:
  # walk back from the final state while P would change the state.
  q = "?"
  for j in range(len(steps) - 1, last - 1, -1):
    try:
      s = states[j + 1]
      if unit_eq(pf(s), s):
        break
      q = steps[j][0]
    except Exception:   # pylint: disable=broad-except
      break
  if q == pname:
    q = "itself"
  return pname, q


def trace_compare(env, unit, deps, st, den, what):
  """Name of the first pass whose output shows the problem `what` w.r.t. its input
  (narrowed/dropped) or w.r.t. the original unit (overwide)."""
  steps, states = mirror_run(env, unit, deps, st)
  if steps is None:
    return "?"
  for j in range(1, len(states)):
    ref = unit if what == "overwide" else states[j - 1]
    try:
      c = env.dn.compare_units(ref, states[j], den, lossless=(what == "overwide"),
                               max_union=st["max_union"] or 7)
    except Exception:   # pylint: disable=broad-except
      return "?"
    if any(p["what"] == what for p in c.problems):
      return steps[j - 1][0]
  return "?"


# ---------------------------------------------------------------------------
# AST shrinking


def _strip_class(c):
  return c.Replace(methods=(), constants=(), classes=())


def single_decl_units(unit, paths):
  """Units holding the class skeletons and exactly one declaration of `unit`."""
  skel = tuple(_strip_class(c) for c in unit.classes)
  for k in unit.constants:
    if k.name in paths:
      yield k.name, unit.Replace(constants=(k,), functions=(), classes=skel)
  for f in unit.functions:
    if f.name in paths:
      yield f.name, unit.Replace(constants=(), functions=(f,), classes=skel)
  for i, c in enumerate(unit.classes):
    for k in c.constants:
      p = f"{c.name}.{k.name}"
      if p in paths:
        cc = c.Replace(methods=(), constants=(k,), classes=())
        yield p, unit.Replace(constants=(), functions=(), classes=skel[:i] + (cc,) + skel[i + 1:])
    for f in c.methods:
      p = f"{c.name}.{f.name}"
      if p in paths:
        cc = c.Replace(methods=(f,), constants=(), classes=())
        yield p, unit.Replace(constants=(), functions=(), classes=skel[:i] + (cc,) + skel[i + 1:])


def _type_candidates(env, t, depth=0):
  pytd = env.pytd
  if isinstance(t, pytd.UnionType):
    ms = t.type_list
    for m in ms:
      yield m
    if len(ms) > 2:
      for i in range(len(ms)):
        yield pytd.UnionType(ms[:i] + ms[i + 1:])
    if depth < 3:
      for i, m in enumerate(ms):
        for c in _type_candidates(env, m, depth + 1):
          yield pytd.UnionType(ms[:i] + (c,) + ms[i + 1:])
  elif isinstance(t, pytd.GenericType):
    ps = t.parameters
    for p in ps:
      yield p
    if isinstance(t, (pytd.TupleType, pytd.CallableType)) and len(ps) > 1:
      lo = 0
      hi = len(ps) - 1 if isinstance(t, pytd.CallableType) else len(ps)
      for i in range(lo, hi):
        yield t.Replace(parameters=ps[:i] + ps[i + 1:])
    if depth < 3:
      for i, p in enumerate(ps):
        for c in _type_candidates(env, p, depth + 1):
          yield t.Replace(parameters=ps[:i] + (c,) + ps[i + 1:])


def _decl_candidates(env, decl):
  """Smaller variants of one Constant / Function."""
  pytd = env.pytd
  if isinstance(decl, pytd.Constant):
    for c in _type_candidates(env, decl.type):
      yield decl.Replace(type=c)
    return
  sigs = decl.signatures
  if len(sigs) > 1:
    for i in range(len(sigs)):
      yield decl.Replace(signatures=sigs[:i] + sigs[i + 1:])
  for i, s in enumerate(sigs):
    def put(s2, i=i):
      return decl.Replace(signatures=sigs[:i] + (s2,) + sigs[i + 1:])
    if s.exceptions:
      yield put(s.Replace(exceptions=()))
    if s.starargs is not None:
      yield put(s.Replace(starargs=None))
    if s.starstarargs is not None:
      yield put(s.Replace(starstarargs=None))
    for j, p in enumerate(s.params):
      if p.name != "self":
        yield put(s.Replace(params=s.params[:j] + s.params[j + 1:]))
      if p.mutated_type is not None:
        yield put(s.Replace(params=s.params[:j] + (p.Replace(mutated_type=None),) + s.params[j + 1:]))
        for c in _type_candidates(env, p.mutated_type):
          yield put(s.Replace(params=s.params[:j] + (p.Replace(mutated_type=c),) + s.params[j + 1:]))
      for c in _type_candidates(env, p.type):
        yield put(s.Replace(params=s.params[:j] + (p.Replace(type=c),) + s.params[j + 1:]))
    for c in _type_candidates(env, s.return_type):
      yield put(s.Replace(return_type=c))


def _the_decl(unit):
  """(getter result, setter) for the single declaration of a single-decl unit."""
  if unit.constants:
    return unit.constants[0], lambda d: unit.Replace(constants=(d,))
  if unit.functions:
    return unit.functions[0], lambda d: unit.Replace(functions=(d,))
  for i, c in enumerate(unit.classes):
    if c.constants:
      return c.constants[0], lambda d, i=i, c=c: unit.Replace(
          classes=unit.classes[:i] + (c.Replace(constants=(d,)),) + unit.classes[i + 1:])
    if c.methods:
      return c.methods[0], lambda d, i=i, c=c: unit.Replace(
          classes=unit.classes[:i] + (c.Replace(methods=(d,)),) + unit.classes[i + 1:])
  return None, None


def shrink(env, unit, fails, budget=70):
  """Greedy AST shrinking of a single-declaration unit under predicate `fails`."""
  used = 0
  progress = True
  while progress and used < budget:
    progress = False
    decl, put = _the_decl(unit)
    if decl is None:
      break
    for cand in _decl_candidates(env, decl):
      if used >= budget:
        break
      used += 1
      u2 = put(cand)
      try:
        ok = fails(u2)
      except Exception:   # pylint: disable=broad-except
        ok = False
      if ok:
        unit = u2
        progress = True
        break
  # drop unused class skeletons that nothing refers to (cosmetic)
  return unit


def minimal_settings(st, fails_with):
  cur = dict(st)
  for k in ["can_do_lookup", "remove_mutable", "use_abcs", "lossy", "max_union"]:
    if cur[k] != DEFAULTS[k]:
      trial = dict(cur)
      trial[k] = DEFAULTS[k]
      try:
        if fails_with(trial):
          cur = trial
      except Exception:   # pylint: disable=broad-except
        pass
  return cur


# ---------------------------------------------------------------------------
# judging one (unit, settings)


class Judge:
  """Accumulates observations of one child."""

  def __init__(self, env):
    self.env = env
    self.n = 0
    self.fps = []
    self.samples = []
    self.violations = []
    self.counters = {}
    self.key_cache = {}     # rough key -> final key
    self.per_key = {}
    self.tables = {"settings": {}, "mechanisms": {}}
    self.cpu0 = time.process_time()

  def count(self, k, n=1):
    self.counters[k] = self.counters.get(k, 0) + n

  # .. predicates ..........................................................
  def _not_idempotent(self, unit, deps, st):
    env = self.env
    o1 = env.opt(unit, deps, st)
    o2 = env.opt(o1, deps, st)
    if not unit_eq(o1, o2):
      return True
    return env.text(o1) != env.text(o2)

  def _has_problem(self, unit, deps, st, den, what):
    env = self.env
    o1 = env.opt(unit, deps, st)
    c = env.dn.compare_units(unit, o1, den, lossless=is_lossless(st), max_union=st["max_union"] or 7)
    return any(p["what"] == what for p in c.problems)

  # .. one evaluation ......................................................
  def judge(self, unit, deps, st, den, origin, unit_text=None, feats=(), extra=None,
            count_eval=True):
    """Runs Optimize twice on `unit` and applies the three clauses."""
    env = self.env
    lab = label(st)
    self.ctx = dict(extra or {})
    try:
      o1 = env.opt(unit, deps, st)
    except Exception as e:   # pylint: disable=broad-except
      self.count(f"optimize_raised[{type(e).__name__}]")
      self.count("not_judged_optimize_raised")
      return None
    if count_eval:
      self.n += 1
    self.tables["settings"][lab] = self.tables["settings"].get(lab, 0) + 1
    lossless = is_lossless(st)
    cmp = env.dn.compare_units(unit, o1, den, lossless=lossless, max_union=st["max_union"] or 7)
    self.count("sites_compared", cmp.sites)
    self.count("changed_declarations", cmp.changed_sites)
    self.count("membership_evaluations", cmp.values)
    self.count("signatures_not_judged", cmp.not_judged)
    if lossless:
      self.count("permitted_bound_evaluations")
    changed = not unit_eq(unit, o1)
    t1 = env.text(o1)
    if changed:
      self.fps.append(common.fp([unit_text or env.text(unit), lab, t1]))
      self.count("units_changed_by_optimize")
    # idempotence
    idem_fail = None
    try:
      o2 = env.opt(o1, deps, st)
      self.count("idempotence_reruns")
      if not unit_eq(o1, o2):
        idem_fail = "structure"
      elif env.text(o2) != t1:
        idem_fail = "text"
    except Exception as e:   # pylint: disable=broad-except
      self.count(f"rerun_raised[{type(e).__name__}]")
      idem_fail = f"raises {type(e).__name__}"
      o2 = None
    if len(self.samples) < 2 and changed:
      self.samples.append({"origin": origin, "settings": lab, "features": list(feats)[:12],
                           "changed_declarations": cmp.changed_sites,
                           "optimised_head": t1[:400]})
    seen_what = set()
    for p in cmp.problems:
      if p["what"] in seen_what:
        continue
      seen_what.add(p["what"])
      self._report_compare(unit, deps, st, den, p, origin, unit_text)
    if idem_fail:
      self.count("not_idempotent_cases")
      self._report_idem(unit, deps, st, o1, o2, idem_fail, origin, unit_text)
      if o2 is not None:
        # the second run is an optimisation of a stub too: it must only widen as well
        cmp2 = env.dn.compare_units(o1, o2, den, lossless=False, max_union=st["max_union"] or 7)
        self.count("second_run_widening_checks")
        self.count("membership_evaluations", cmp2.values)
        seen_what = set()
        for p in cmp2.problems:
          if p["what"] not in seen_what:
            seen_what.add(p["what"])
            self._report_compare(o1, deps, st, den, p, origin, unit_text,
                                 stage="re-optimisation")
    return t1

  # .. reporting ...........................................................
  def _diff_paths(self, a, b):
    dn = self.env.dn
    A = {(p, k): n for p, k, n in dn._walk_decls(a)}   # pylint: disable=protected-access
    B = {(p, k): n for p, k, n in dn._walk_decls(b)}   # pylint: disable=protected-access
    return [p for (p, k), n in A.items() if B.get((p, k)) != n]

  def _site(self, o1, o2):
    paths = self._diff_paths(o1, o2)
    if not paths:
      return "text only"
    dn = self.env.dn
    A = {p: n for p, k, n in dn._walk_decls(o1)}   # pylint: disable=protected-access
    B = {p: n for p, k, n in dn._walk_decls(o2)}   # pylint: disable=protected-access
    a, b = A[paths[0]], B.get(paths[0])
    if b is None:
      return "declaration"
    if isinstance(a, self.env.pytd.Constant):
      return "constant"
    if len(a.signatures) != len(b.signatures):
      return "signature list"
    for s, s2 in zip(a.signatures, b.signatures):
      if s != s2:
        if s.params != s2.params or s.starargs != s2.starargs or s.starstarargs != s2.starstarargs:
          return "parameter"
        if s.return_type != s2.return_type:
          return "return"
        return "signature"
    return "?"

  def _emit(self, key, witness):
    for k, v in getattr(self, "ctx", {}).items():
      witness.setdefault(k, v)
    n = self.per_key.get(key, 0)
    self.per_key[key] = n + 1
    if n < 2:
      witness["key"] = key
      self.violations.append(witness)
    self.tables["mechanisms"][key] = self.tables["mechanisms"].get(key, 0) + 1

  def _report_idem(self, unit, deps, st, o1, o2, how, origin, unit_text):
    env = self.env
    if o2 is None:
      self._emit(f"re-optimising an optimised stub {how} [{flags(st)}]",
                 {"origin": origin, "settings": st, "unit_text": unit_text,
                  "after": env.text(o1)[:3000]})
      return
    paths = set(self._diff_paths(o1, o2))
    done = 0
    for path, small in single_decl_units(unit, paths):
      if done >= 2:
        break
      try:
        if not self._not_idempotent(small, deps, st):
          continue
      except Exception:   # pylint: disable=broad-except
        continue
      done += 1
      self._classify_idem(small, deps, st, origin, unit_text, path)
    if not done:
      p, q = trace_idempotence(env, unit, deps, st)
      if is_lossless(st):
        key = f"not idempotent under the lossless settings: {p} has work left after {q}"
      else:
        key = f"not idempotent under non-default settings: {p} has work left on the second run"
      self._emit(key, {"origin": origin, "settings": st, "unit_text": unit_text,
                       "what": "not idempotent",
                       "note": "not reproduced on a single declaration; whole unit traced",
                       "first": env.text(o1)[:4000], "second": env.text(o2)[:4000]})

  def _idem_with_pair(self, unit, deps, st, pair):
    if not self._not_idempotent(unit, deps, st):
      return False
    return trace_idempotence(self.env, unit, deps, st, validate=False) == pair

  def _classify_idem(self, small, deps, st, origin, unit_text, path):
    """P = first pass that changes the optimised unit on the second run, Q = the pass of the
    first run after which P has work again.  If the same pair shows under pytype's lossless
    settings for this declaration the key is (P, Q); otherwise (lossy / remove_mutable /
    max_union<7 needed) the key is P alone - the non-default pipelines re-create work for
    almost every pass, and a closed key set matters more there than the pair.  A rough
    (P, Q, lossy, remove_mutable, max_union<7) is mapped to the final key once per child.
    Shrinking of the smallest witness per key happens later, in a separate task."""
    env = self.env
    p, q = trace_idempotence(env, small, deps, st, validate=False)
    rough = (p, q, st["lossy"], st["remove_mutable"], st["max_union"] != 7)
    ent = self.key_cache.get(rough)
    if ent is None:
      cls = "non-default settings only"
      try:
        if is_lossless(st) or self._idem_with_pair(small, deps, dict(DEFAULTS), (p, q)):
          cls = "lossless settings"
      except Exception:   # pylint: disable=broad-except
        pass
      p2, q2 = trace_idempotence(env, small, deps, st, validate=True)
      if cls == "lossless settings":
        key = f"not idempotent under the lossless settings: {p2} has work left after {q2}"
      else:
        key = f"not idempotent under non-default settings: {p2} has work left on the second run"
      self.key_cache[rough] = ent = key
      self.count("distinct_rough_mechanisms")
    key = ent
    decl, _ = _the_decl(small)
    witness = {"origin": origin, "settings": st, "unit_text": unit_text, "declaration": path,
               "what": "not idempotent", "pass_pair": [p, q],
               "decl_size": len(env.text(decl)) if decl is not None else 10 ** 6}
    self._emit(key, witness)

  def _report_compare(self, unit, deps, st, den, prob, origin, unit_text, stage="first run"):
    """`unit` is the input of the run that shows the problem (for stage "re-optimisation"
    it is the output of the first run)."""
    env = self.env
    what = prob["what"]
    small = None
    for path, cand in single_decl_units(unit, {prob["path"]}):
      try:
        if self._has_problem(cand, deps, st, den, what):
          small = cand
      except Exception:   # pylint: disable=broad-except
        pass
      break
    witness = {"origin": origin, "settings": st, "unit_text": unit_text, "stage": stage,
               "declaration": prob["path"], "problem": prob}
    if small is None:
      pname = trace_compare(env, unit, deps, st, den, what)
      self._emit(self._compare_key(what, pname, st, stage), witness)
      return
    st_min = minimal_settings(st, lambda s: self._has_problem(small, deps, s, den, what))
    if what == "overwide" and not is_lossless(st_min):
      st_min = st
    self.n_shrunk = getattr(self, "n_shrunk", 0) + 1
    if self.n_shrunk <= 6:
      self.count("witnesses_shrunk")
      small2 = shrink(env, small, lambda u: self._has_problem(u, deps, st_min, den, what))
    else:
      small2 = small
    o1 = env.opt(small2, deps, st_min)
    c = env.dn.compare_units(small2, o1, den, lossless=is_lossless(st_min),
                             max_union=st_min["max_union"] or 7)
    probs = [p for p in c.problems if p["what"] == what]
    p2 = probs[0] if probs else prob
    pname = trace_compare(env, small2, deps, st_min, den, what)
    decl, _ = _the_decl(small2)
    d1, _ = _the_decl(o1)
    witness.update(minimal_settings=st_min, minimal_input=env.text(decl),
                   minimal_input_repr=repr(decl)[:1500],
                   optimised=env.text(d1) if d1 is not None else None, minimal_problem=p2)
    witness["minimal_flags"] = flags(st_min)
    self._emit(self._compare_key(what, pname, st_min, stage), witness)

  @staticmethod
  def _compare_key(what, pname, st, stage):
    cls = "lossless settings" if is_lossless(st) else "non-default settings"
    where = "" if stage == "first run" else " when an optimised stub is optimised again"
    if what == "narrowed":
      return f"narrowed by {pname}{where} ({cls})"
    if what == "dropped":
      return f"declaration or signature dropped by {pname}{where} ({cls})"
    return f"wider than the permitted rewrites after {pname}{where} ({cls})"

  def result(self):
    return {"n": self.n, "fps": self.fps, "samples": self.samples, "violations": self.violations,
            "counters": self.counters, "n_optimize": self.env.n_optimize, "tables": self.tables,
            "cpu_s": round(time.process_time() - self.cpu0, 2),
            "lenient": self.env.dn.STATS.get("lenient", 0)}


# ---------------------------------------------------------------------------
# children


def _pick_settings(rng, k, everything=False):
  sts = all_settings()
  if everything:
    return sts
  base = [dict(DEFAULTS)]
  rest = [s for s in sts if s != DEFAULTS]
  return base + rng.sample(rest, k)


def child_gen(arg):
  """Generated units x settings."""
  from vf.gen import pytdtypes
  env = Env()
  J = Judge(env)
  rng = random.Random(arg["seed"])
  feats_seen = {}
  t0 = time.process_time()
  for i in range(arg["count"]):
    name = f"g{arg['seed'] % 100000}x{i}"
    u = pytdtypes.generate_unit(random.Random(f"{arg['seed']}-{i}"), name)
    try:
      ast = env.load_text(u["text"], name)
    except Exception as e:   # pylint: disable=broad-except
      J.count(f"generated_unit_rejected_by_parser[{type(e).__name__}]")
      continue
    try:
      deps = env.loader.concat_all()
      h = env.dn.hierarchy_for(ast, deps)
      den = env.dn.Denote(h, [f"{name}.{c}" for c in pytdtypes.USER])
      for f in u["features"]:
        feats_seen[f] = feats_seen.get(f, 0) + 1
      everything = arg.get("all_every") and i % arg["all_every"] == 0
      for st in _pick_settings(rng, arg["nsettings"], everything):
        J.judge(ast, deps, st, den, {"kind": "generated", "seed": arg["seed"], "index": i},
                unit_text=u["text"], feats=u["features"])
    finally:
      env.unload(name)
    if time.process_time() - t0 > arg.get("soft_budget", 1e9):
      J.count("units_skipped_soft_budget", arg["count"] - i - 1)
      break
  r = J.result()
  r["features"] = feats_seen
  return r


def judge_text(env, J, text, name, settings, origin):
  from vf.gen import pytdtypes
  ast = env.load_text(text, name)
  try:
    deps = env.loader.concat_all()
    h = env.dn.hierarchy_for(ast, deps)
    atoms = [f"{name}.{c}" for c in pytdtypes.USER if f"{name}.{c}" in h.bases]
    atoms += [a for a in env.dn.unit_class_names(ast) if a not in atoms]
    den = env.dn.Denote(h, atoms)
    for st in settings:
      J.judge(ast, deps, st, den, origin, unit_text=text)
  finally:
    env.unload(name)


HAND_WRITTEN = [
    "x: Union[int, int]", "x: Union[int, Any]", "x: Optional[Any]", "x: Union[list[int], list[str]]",
    "x: Union[tuple[int], tuple[int, str]]", "x: Union[tuple[int, ...], tuple[str, str]]",
    "x: Union[Callable[[int], str], Callable[[int, int], int]]", "x: Union[B, A, D]",
    "x: Union[int, bool]", "x: Union[A, B, C, D, E, int, str, bytes]",
    "x: Union[A, E, int, str, bytes, float, None]", "x: type[object]", "x: Union[type[A], type[B]]",
    "x: Union[tuple[None, ...], object, str]", "x: list[object]", "x: dict[Any, Any]",
    "x: Union[list[Union[int, str]], list[list[Union[A, B]]]]",
    "def f(x: int) -> int: ...\ndef f(x: int) -> str: ...",
    "def f(x: int) -> int: ...\ndef f(x: int) -> int: ...",
    "def f(x: int) -> int: ...\ndef f(x: str) -> str: ...",
    "def f(x: Union[int, bool]) -> int: ...\ndef f(x: int) -> str: ...",
    "def f(x: list[Any]) -> int: ...\ndef f(x: list) -> str: ...",
    "def f(x: int) -> int:\n    raise ValueError()\ndef f(x: int) -> int:\n    raise KeyError()",
    "def f(x: list[int]) -> None:\n    x = list[Union[int, str]]",
    "def f(x: T, y: list[T]) -> T: ...",
    "def f(x: Union[A, B], y: Union[tuple[int], tuple[str]]) -> Union[D, C]: ...",
    # signatures that become identical / mergeable only after a later pass
    "def f(x: Union[list[int], list[str]]) -> int: ...\ndef f(x: list[Union[int, str]]) -> int: ...",
    "def f(x: Union[list[int], list[str]]) -> int: ...\ndef f(x: list[Union[int, str]]) -> str: ...",
    "def f(x: list[Any]) -> int: ...\ndef f(x: list) -> int: ...",
    "def f(x: Union[int, bool]) -> int: ...\ndef f(x: int) -> int: ...",
    "def f(x: Union[A, E, int, str, bytes, float, None, complex]) -> int: ...\ndef f(x: Any) -> int: ...",
    "def f(x: Union[A, E, int, str, bytes, float, None, complex]) -> int: ...\ndef f(x: Any) -> str: ...",
    "x: Union[Callable, type[object]]",
    "x: Union[Callable, type[Union[A, E, int, str, bytes, float, None, complex]]]",
    "def f(x: Union[Callable, type[Union[A, E, int, str, bytes, float, None, complex]]]) -> int: ...",
    "x: Union[A, E, int, str, bytes, float, None]",
    "x: Union[A, E, int, str, bytes, float, complex, None]",
    "x: list[Union[A, E, int, str, bytes, float, complex, None]]",
    "x: Union[list[Union[A, E, int, str]], list[Union[bytes, float, complex, None]]]",
    "class K:\n    def m(self, x: int) -> int: ...\n    def m(self, x: Union[int, bool]) -> str: ...",
    "class G(Generic[T]):\n    def m(self: G[int], x: T) -> T: ...",
]


def child_hand(arg):
  """Hand-written declarations under every settings vector."""
  from vf.gen import pytdtypes
  env = Env()
  J = Judge(env)
  for i, d in enumerate(HAND_WRITTEN):
    if i % arg["nshards"] != arg["shard"]:
      continue
    text = pytdtypes.single_decl_unit(d)
    judge_text(env, J, text, f"h{i}", all_settings(), {"kind": "hand-written", "index": i})
  return J.result()


def child_programs(arg):
  """Every stub the real pipeline emits for generated programs, through the monitor."""
  from vf import pt
  from vf.gen import programs
  from vf.oracle import c11_denote as dn
  dn.install_monitor()
  env = Env()
  J = Judge(env)
  n_prog = 0
  shared = None
  sources = [programs.generate(random.Random(f"{arg['seed']}-p{i}")) for i in range(arg["count"])]
  if arg.get("shared_loader"):
    # one loader (hence one cached deps object) for a whole batch of analyses, as
    # io.generate_pyi(src, options, loader) allows; starts with programs that re-use the
    # class names A, B, C with different inheritance
    from pytype import load_pytd
    shared = load_pytd.create_loader(pt.options())
    sources = HISTORY_PROGRAMS + sources + HISTORY_PROGRAMS[::-1]
    J.count("programs_analysed_with_a_shared_loader", len(sources))
  for i, src in enumerate(sources):
    before = len(dn.RECORDS)
    try:
      pt.analyze(src, loader=shared)
    except Exception as e:   # pylint: disable=broad-except
      J.count(f"analysis_failed[{type(e).__name__}]")
      continue
    n_prog += 1
    for rec in dn.RECORDS[before:]:
      _absorb_monitor_record(J, rec, {"kind": "emitted stub", "seed": arg["seed"], "index": i}, src)
    del dn.RECORDS[before:]
  r = J.result()
  r["monitor"] = {k: v for k, v in dn.MONITOR.items() if k in ("calls", "checked", "errors")}
  r["programs"] = n_prog
  return r


def _absorb_monitor_record(J, rec, origin, src):
  if "monitor_error" in rec:
    J.count("monitor_errors")
    J.count("monitor_error[" + rec["monitor_error"][:80] + "]")
    return
  J.n += 1
  J.count("monitor_evaluations")
  J.count("sites_compared", rec.get("sites", 0))
  J.count("membership_evaluations", rec.get("values", 0))
  J.count("changed_declarations", rec.get("changed_sites", 0))
  J.count("idempotence_reruns")
  lab = label(rec["settings"]) + " (in-situ)"
  J.tables["settings"][lab] = J.tables["settings"].get(lab, 0) + 1
  if rec.get("changed_sites"):
    J.fps.append(common.fp([src, "in-situ"]))
  if len(J.samples) < 2 and rec.get("changed_sites"):
    J.samples.append({"origin": origin, "changed_declarations": rec["changed_sites"],
                      "sites": rec.get("sites"), "program_head": src[:300]})
  if rec["problems"] or rec["idempotent"] is False:
    J.count("monitor_alarms")
    node, deps = rec.get("_node"), rec.get("_deps")
    before = sum(J.tables["mechanisms"].values())
    if node is not None:
      dn = J.env.dn
      den = dn.Denote(dn.hierarchy_for(node, deps), dn.unit_class_names(node))
      J.judge(node, deps, rec["settings"], den, origin, extra={"program": src}, count_eval=False)
    after = sum(J.tables["mechanisms"].values())
    if after == before:      # could not be re-derived off-line: report what the monitor saw
      J.ctx = {"program": src}
      for p in rec["problems"]:
        J._emit(J._compare_key(p["what"], "? (in-situ, not re-derived)", rec["settings"], "first run"),   # pylint: disable=protected-access
                {"origin": origin, "problem": p, "before": rec.get("before_text"),
                 "after": rec.get("after_text")})
      if rec["idempotent"] is False:
        J._emit("not idempotent: emitted stub changes when optimised again [in-situ, not re-derived]",   # pylint: disable=protected-access
                {"origin": origin, "first": rec.get("after_text"), "second": rec.get("again_text")})


BUNDLED = ["builtins", "typing", "collections", "enum", "attr", "attrs", "numpy", "mypy_extensions",
           "protocols", "dummy_thread", "encodings", "attr.converters", "attr.exceptions",
           "attr.filters", "attr.setters", "attr.validators", "attr._cmp", "attr._version_info"]


def child_bundled(arg):
  """Bundled stubs through the real loader."""
  env = Env()
  J = Judge(env)
  loaded = {}
  for m in BUNDLED:
    try:
      if m == "builtins":
        ast = env.loader.builtins
      elif m == "typing":
        ast = env.loader.typing
      else:
        ast = env.loader.import_name(m)
      if ast is None:
        J.count("bundled_not_found[" + m + "]")
        continue
      loaded[m] = ast
    except Exception as e:   # pylint: disable=broad-except
      J.count(f"bundled_load_failed[{m}: {type(e).__name__}]")
  deps = env.loader.concat_all()
  rng = random.Random(arg["seed"])
  for m in arg["modules"]:
    ast = loaded.get(m)
    if ast is None:
      continue
    h = env.dn.hierarchy_for(ast, deps)
    den = env.dn.Denote(h, env.dn.unit_class_names(ast, limit=40))
    J.count("bundled_modules")
    for st in _pick_settings(rng, arg["nsettings"], arg.get("everything")):
      J.judge(ast, deps, st, den, {"kind": "bundled stub", "module": m}, unit_text=None)
  return J.result()


HISTORY_KEY = ("Optimize output depends on earlier Optimize calls in the same process "
               "(same unit, same deps content, different result)")
HISTORY_MODULE = "hmod"


def _history_unit(seed, i):
  """Unit i of history sequence `seed`: same module name and class names A..E every time,
  hierarchy variant and contents from the seed (independent of the order of processing)."""
  from vf.gen import pytdtypes
  r = random.Random(f"{seed}-h{i}")
  variant = r.randrange(len(pytdtypes.HIERARCHIES))
  if i % 3 == 0:
    # a small unit whose unions are made of the five class names: sensitive to the hierarchy
    names = pytdtypes.USER
    decls = []
    for k in range(4):
      ms = r.sample(names, r.choice([2, 2, 3, 5]))
      decls.append(f"c{k}: Union[{', '.join(ms)}]")
    ms = r.sample(names, 2)
    decls.append(f"def f(x: Union[{ms[0]}, {ms[1]}], y: list[Union[{ms[1]}, {ms[0]}]]) -> "
                 f"Union[{', '.join(r.sample(names, 3))}]: ...")
    text = pytdtypes.single_decl_unit("\n".join(decls), hierarchy=variant)
    feats = [f"hierarchy{variant}", "class-unions"]
  else:
    u = pytdtypes.generate_unit(r, HISTORY_MODULE, size=r.randint(2, 4), hierarchy=variant)
    text, feats = u["text"], u["features"]
  k = r.choice([1, 2, 2, 3])
  sts = [dict(DEFAULTS)] + r.sample([x for x in all_settings() if x != DEFAULTS], k)
  r.shuffle(sts)
  return text, feats, sts, variant


def child_history(arg):
  """One loader and ONE deps object for a whole sequence of units that re-use the module name
  and the class names A..E with different hierarchies, settings vectors interleaved.  Every
  unit is judged against a universe built from its own class definitions; afterwards every
  (unit, settings) is optimised again with a fresh deps object of the same content and the
  two outputs are compared; the parent compares the outputs of different processing orders."""
  import hashlib
  from vf.gen import pytdtypes
  env = Env()
  J = Judge(env)
  seed, count = arg["seed"], arg["count"]
  deps0 = env.loader.concat_all()          # computed once, used for every unit
  order = list(range(count))
  if arg["order"] == "rev":
    order.reverse()
  elif arg["order"] == "shuf":
    random.Random(f"{seed}-order").shuffle(order)
  feats_seen = {}
  asts, outputs = {}, {}
  for i in order:
    text, feats, sts, variant = _history_unit(seed, i)
    try:
      ast = env.load_text(text, HISTORY_MODULE)
    except Exception as e:   # pylint: disable=broad-except
      J.count(f"generated_unit_rejected_by_parser[{type(e).__name__}]")
      continue
    finally:
      env.unload(HISTORY_MODULE)           # the loader forgets it; deps0 stays what it was
    for f in feats:
      feats_seen[f] = feats_seen.get(f, 0) + 1
    h = env.dn.hierarchy_for(ast, deps0)   # subclass relation from this unit's own classes
    den = env.dn.Denote(h, [f"{HISTORY_MODULE}.{c}" for c in pytdtypes.USER])
    asts[i] = (ast, text, sts)
    for st in sts:
      t1 = J.judge(ast, deps0, st, den,
                   {"kind": "history", "seed": seed, "index": i, "order": arg["order"],
                    "count": count, "hierarchy": variant}, unit_text=text, feats=feats)
      if t1 is not None:
        outputs[(i, label(st))] = t1
  J.count("history_units", len(asts))
  # second phase: the same inputs with a fresh deps object each (same content)
  for i in order:
    if i not in asts:
      continue
    ast, text, sts = asts[i]
    for st in sts:
      if (i, label(st)) not in outputs:
        continue
      env.loader._modules.invalidate_concatenated()   # pylint: disable=protected-access
      fresh = env.loader.concat_all()
      try:
        t2 = env.text(env.opt(ast, fresh, st))
      except Exception as e:   # pylint: disable=broad-except
        J.count(f"optimize_raised[{type(e).__name__}]")
        continue
      J.count("history_fresh_deps_comparisons")
      if t2 != outputs[(i, label(st))]:
        J.ctx = {}
        J._emit(HISTORY_KEY, {   # pylint: disable=protected-access
            "origin": {"kind": "history", "seed": seed, "index": i, "order": arg["order"],
                       "count": count},
            "settings": st, "unit_text": text, "what": "history",
            "with_shared_deps_after_history": _first_diff(outputs[(i, label(st))], t2)[0],
            "with_fresh_deps": _first_diff(outputs[(i, label(st))], t2)[1]})
  r = J.result()
  r["features"] = feats_seen
  r["digests"] = {f"{i}|{lab}": hashlib.sha1(t.encode()).hexdigest()[:16]
                  for (i, lab), t in outputs.items()}
  return r


def _first_diff(a, b):
  la, lb = a.split("\n"), b.split("\n")
  for x, y in zip(la, lb):
    if x != y:
      return x, y
  return a[-300:], b[-300:]


HISTORY_PROGRAMS = [
    "class A: pass\nclass B(A): pass\ndef f(c):\n  return A() if c else B()\nx = [A(), B()]\n",
    "class A: pass\nclass B: pass\ndef f(c):\n  return A() if c else B()\nx = [A(), B()]\n",
    "class B: pass\nclass A(B): pass\ndef f(c):\n  return A() if c else B()\nx = [A(), B()]\n",
    "class A: pass\nclass B: pass\nclass C(A, B): pass\ndef f(c):\n  return B() if c else C()\n"
    "def g(c):\n  return A() if c else B()\n",
    "class C: pass\nclass A(C): pass\nclass B: pass\ndef f(c):\n  return B() if c else C()\n"
    "def g(c):\n  return A() if c else B()\n",
]


def _capture_optimize_input(src):
  """(node, deps, settings) of the Optimize call the real pipeline makes for `src`."""
  from vf import pt
  from pytype.pytd import optimize
  got = []
  cur = optimize.Optimize

  def spy(node, deps=None, *a, **kw):
    if not got:
      got.append((node, deps))
    return cur(node, deps, *a, **kw)
  optimize.Optimize = spy
  try:
    pt.analyze(src)
  finally:
    optimize.Optimize = cur
  return got[0] if got else (None, None)


def reload_unit(env, w):
  """(unit, deps, den, cleanup) for a recorded witness."""
  from vf.gen import pytdtypes
  dn = env.dn
  origin = w.get("origin") or {}
  if w.get("unit_text"):
    name = "w" + common.fp(w["unit_text"])[:8]
    unit = env.load_text(w["unit_text"], name)
    deps = env.loader.concat_all()
    h = dn.hierarchy_for(unit, deps)
    atoms = [f"{name}.{c}" for c in pytdtypes.USER if f"{name}.{c}" in h.bases]
    atoms += [a for a in dn.unit_class_names(unit) if a not in atoms]
    return unit, deps, dn.Denote(h, atoms), (lambda: env.unload(name)), name
  if origin.get("kind") == "bundled stub":
    for m in BUNDLED:
      try:
        if m not in ("builtins", "typing"):
          env.loader.import_name(m)
      except Exception:   # pylint: disable=broad-except
        pass
    m = origin["module"]
    unit = env.loader.builtins if m == "builtins" else (
        env.loader.typing if m == "typing" else env.loader.import_name(m))
    deps = env.loader.concat_all()
    den = dn.Denote(dn.hierarchy_for(unit, deps), dn.unit_class_names(unit, limit=40))
    return unit, deps, den, (lambda: None), m
  if w.get("program"):
    unit, deps = _capture_optimize_input(w["program"])
    if unit is None:
      raise ValueError("the pipeline did not call Optimize")
    den = dn.Denote(dn.hierarchy_for(unit, deps), dn.unit_class_names(unit))
    return unit, deps, den, (lambda: None), unit.name
  raise ValueError("witness cannot be reloaded")


def child_shrink(arg):
  """Shrinks one non-idempotence witness, preserving its pass pair."""
  env = Env()
  J = Judge(env)
  w = arg["witness"]
  unit, deps, _, cleanup, name = reload_unit(env, w)
  out = {"shrunk": False}
  try:
    path = w["declaration"]
    if w.get("unit_text") and "." in path:
      path = name + "." + path.split(".", 1)[1]      # module prefix of the reloaded copy
    small = None
    for _, cand in single_decl_units(unit, {path}):
      small = cand
      break
    if small is None:
      return out
    st = dict(w["settings"])
    pair = tuple(w["pass_pair"])
    if not J._idem_with_pair(small, deps, st, pair):   # pylint: disable=protected-access
      return out
    st = minimal_settings(st, lambda s_: J._idem_with_pair(small, deps, s_, pair))   # pylint: disable=protected-access
    small2 = shrink(env, small, lambda u: J._idem_with_pair(u, deps, st, pair),   # pylint: disable=protected-access
                    budget=arg.get("budget", 250))
    o1 = env.opt(small2, deps, st)
    o2 = env.opt(o1, deps, st)
    decl, _ = _the_decl(small2)
    d1, _ = _the_decl(o1)
    d2, _ = _the_decl(o2)
    st = minimal_settings(st, lambda s_: J._idem_with_pair(small2, deps, s_, pair))   # pylint: disable=protected-access
    out.update(shrunk=True, minimal_settings=st, minimal_flags=flags(st), minimal_input=env.text(decl),
               first_run=env.text(d1) if d1 is not None else None,
               second_run=env.text(d2) if d2 is not None else None,
               site=J._site(o1, o2),   # pylint: disable=protected-access
               pass_pair_validated=list(trace_idempotence(env, small2, deps, st, validate=True)))
  finally:
    cleanup()
  return out


def child(arg):
  return {"gen": child_gen, "hand": child_hand, "programs": child_programs,
          "bundled": child_bundled, "shrink": child_shrink,
          "history": child_history}[arg["kind"]](arg)


# ---------------------------------------------------------------------------
# driver


def _tasks(tier, seed):
  tasks = _all_tasks(tier, seed)
  only = os.environ.get("VERIF_C11_ONLY")     # development aid: e.g. "hand,gen" or "gen:4"
  if only:
    keep = []
    for spec in only.split(","):
      kind, _, lim = spec.partition(":")
      sel = [t for t in tasks if t["id"].startswith(kind + "/")]
      keep += sel[:int(lim)] if lim else sel
    tasks = keep
  return tasks


def _all_tasks(tier, seed):
  rng = random.Random(f"{PID}-{seed}-tasks")
  tasks = []
  if tier == "quick":
    gen_batches, gen_count, nsettings, all_every = 16, 30, 5, 15
    prog_batches, prog_count = 8, 8
    hist_seqs, hist_count = 4, 30
    bundled_sets = [(["builtins"], 3, False), (["typing"], 4, False),
                    ([m for m in BUNDLED if m not in ("builtins", "typing")], 6, False)]
    soft = 45
  else:
    gen_batches, gen_count, nsettings, all_every = 48, 100, 8, 10
    prog_batches, prog_count = 24, 20
    hist_seqs, hist_count = 16, 60
    bundled_sets = [(["builtins"], 0, True), (["typing"], 0, True),
                    ([m for m in BUNDLED if m not in ("builtins", "typing")], 0, True)]
    soft = 600
  for i, (mods, k, everything) in enumerate(bundled_sets):
    tasks.append({"fn": "vf.checks.c11:child", "id": f"bundled/{i}", "timeout": 1500,
                  "arg": {"kind": "bundled", "modules": mods, "nsettings": k,
                          "everything": everything, "seed": rng.randrange(1 << 30)}})
  for b in range(prog_batches):
    tasks.append({"fn": "vf.checks.c11:child", "id": f"programs/{b}", "timeout": 1500,
                  "arg": {"kind": "programs", "count": prog_count, "seed": rng.randrange(1 << 30),
                          "shared_loader": b % 2 == 0}})
  for b in range(hist_seqs):
    hseed = rng.randrange(1 << 30)
    for order in ("fwd", "rev", "shuf"):
      tasks.append({"fn": "vf.checks.c11:child", "id": f"history/{b}/{order}", "timeout": 1500,
                    "arg": {"kind": "history", "count": hist_count, "seed": hseed, "order": order}})
  nsh = 4
  for s in range(nsh):
    tasks.append({"fn": "vf.checks.c11:child", "id": f"hand/{s}", "timeout": 1500,
                  "arg": {"kind": "hand", "shard": s, "nshards": nsh}})
  for b in range(gen_batches):
    tasks.append({"fn": "vf.checks.c11:child", "id": f"gen/{b}", "timeout": 1500,
                  "arg": {"kind": "gen", "count": gen_count, "nsettings": nsettings,
                          "all_every": all_every, "seed": rng.randrange(1 << 30),
                          "soft_budget": soft}})
  return tasks


def run(tier, seed):
  ck = common.Check(
      PID, tier, seed,
      rule=("one evaluation = one (pytd unit, optimiser settings vector): Optimize run twice, every "
            "constant/parameter/return position of the input compared with the output under the "
            "finite-universe denotation (functions relationally over argument vectors), the "
            "permitted-rewrite bound applied under the lossless settings, and the second run compared "
            "with the first structurally and as text. Units: seeded generator over A,B(A),C(A),D(B,C),E "
            "+ builtins; hand-written declarations under all 48 settings vectors; stubs emitted by the "
            "real pipeline for generated programs (in-situ monitor); bundled stubs via the real loader. "
            "non-trivial = the optimiser changed the unit; distinct by hash of (input text, settings, "
            "optimised text)."))
  extra_known = os.environ.get("VERIF_C11_KNOWN")   # development aid: private list of keys
  if extra_known:
    with open(extra_known) as f:
      for k in json.load(f):
        ck.known.setdefault(k, {"key": k})
  tasks = _tasks(tier, seed)
  kinds = {"gen": 0, "hand": 0, "programs": 0, "bundled": 0, "history": 0}
  digests = {}      # history sequence -> order -> {unit|settings: digest}
  monitor = {"calls": 0, "checked": 0, "errors": 0}
  features = {}
  found = []
  cpu = {}
  tables = {"settings": {}, "mechanisms": {}}
  for res in pool.run_tasks(tasks):
    if not res.get("ok"):
      ck.child_failed(res, f"C11 batch {res.get('task')}")
      continue
    r = res["result"]
    kind = str(res.get("task")).split("/")[0]
    kinds[kind] += r["n"]
    ck.merge_cases(r["n"], r["fps"])
    for s in r["samples"]:
      ck.sample(s)
    for k, v in r["counters"].items():
      ck.count(k, v)
    ck.count("optimize_calls_by_harness", r.get("n_optimize", 0))
    cpu[kind] = round(cpu.get(kind, 0) + r.get("cpu_s", 0), 1)
    for tname, tab in (r.get("tables") or {}).items():
      for k, v in tab.items():
        tables[tname][k] = tables[tname].get(k, 0) + v
    ck.count("lenient_membership_answers", r.get("lenient", 0))
    for k, v in (r.get("monitor") or {}).items():
      monitor[k] += v
    if "programs" in r:
      ck.count("programs_analysed", r["programs"])
    for f, n in (r.get("features") or {}).items():
      features[f] = features.get(f, 0) + n
    found.extend(r["violations"])
    if kind == "history":
      _, seq, order = str(res.get("task")).split("/")
      digests.setdefault(seq, {})[order] = (r["digests"], next(
          t["arg"]["seed"] for t in tasks if t["id"] == res.get("task")))
  found.extend(_compare_orders(ck, digests))
  _shrink_and_report(ck, found)
  ck.extra["evaluations_by_workload"] = kinds
  ck.extra["child_cpu_seconds_by_workload"] = cpu
  ck.extra["evaluations_by_settings"] = dict(sorted(tables["settings"].items()))
  ck.extra["cases_by_mechanism"] = dict(sorted(tables["mechanisms"].items()))
  ck.count("settings_vectors_exercised", len([k for k in tables["settings"] if "in-situ" not in k]))
  ck.extra["monitor"] = monitor
  ck.extra["generator_features_seen"] = features
  ck.extra["settings_vectors"] = 48
  ck.exhaustive = False
  ck.assumptions = [
      "the denotation is the oracle: nominal subclassing read from the class bases of unit+deps, "
      "PEP 484 promotions int->float->complex accepted on the optimised side only",
      "callables are (arity, result); argument types of callables are not compared",
      "TypeVars / Literals / generic user classes / unknown names admit everything (counted as lenient)",
      "collapse of a union longer than max_union to Any is treated as a permitted rewrite",
      "inhabitants of a type are enumerated with caps (28 per type, 40 argument vectors per signature)",
  ]
  if kinds["history"] and not ck.counters.get("history_fresh_deps_comparisons"):
    ck.inconclusive("the history workload made no fresh-deps comparison")
  if os.environ.get("VERIF_C11_ONLY"):
    ck.assumptions.append("partial run: VERIF_C11_ONLY=" + os.environ["VERIF_C11_ONLY"])
  elif kinds["gen"] == 0:
    ck.inconclusive("no generated unit was judged")
  elif monitor["checked"] == 0:
    ck.inconclusive("the in-situ monitor on optimize.Optimize never ran")
  if ck.counters.get("idempotence_reruns", 0) == 0:
    ck.inconclusive("no idempotence re-run happened")
  return ck.finish()


def _compare_orders(ck, digests, counts=None):
  """History independence across processes: a unit optimised as the k-th of a sequence must
  give the same text whatever was optimised before it."""
  out = []
  for seq, by_order in sorted(digests.items()):
    orders = sorted(by_order)
    for a in range(len(orders)):
      for b in range(a + 1, len(orders)):
        da, seed = by_order[orders[a]]
        db, _ = by_order[orders[b]]
        for k in sorted(set(da) & set(db)):
          ck.count("history_cross_order_comparisons")
          if da[k] != db[k] and len(out) < 6:
            i, lab = k.split("|")
            text, _, sts, variant = _history_unit(seed, int(i))
            st = next((x for x in sts if label(x) == lab), None)
            out.append({"key": HISTORY_KEY, "what": "history",
                        "origin": {"kind": "history", "seed": seed, "index": int(i),
                                   "count": max(int(x.split("|")[0]) for x in da) + 1,
                                   "orders": [orders[a], orders[b]], "hierarchy": variant},
                        "settings": st, "unit_text": text,
                        "digests": {orders[a]: da[k], orders[b]: db[k]}})
  return out


def _shrink_and_report(ck, found):
  """One witness per unlisted non-idempotence mechanism (the smallest) is shrunk in a
  separate task; then everything is reported under its mechanism key."""
  by_key = {}
  for w in found:
    by_key.setdefault(w["key"], []).append(w)
  tasks = []
  for key, ws in by_key.items():
    ws.sort(key=lambda w: (w.get("decl_size", 10 ** 6), len(w.get("unit_text") or "")))
    if key in ck.known or ws[0].get("what") != "not idempotent" or "pass_pair" not in ws[0]:
      continue
    tasks.append({"fn": "vf.checks.c11:child", "id": key, "timeout": 300,
                  "arg": {"kind": "shrink", "witness": ws[0]}})
  shrunk = {}
  for res in pool.run_tasks(tasks) if tasks else ():
    if res.get("ok") and res["result"].get("shrunk"):
      shrunk[res["task"]] = res["result"]
    else:
      ck.count("witness_shrink_failed")
  for key, ws in sorted(by_key.items()):
    for i, w in enumerate(ws):
      if i == 0 and key in shrunk:
        w = dict(w)
        w["shrunk"] = shrunk[key]
      ck.violation(key, w)


def replay(rec):
  w = rec["witness"]
  env = Env()
  J = Judge(env)
  origin = w.get("origin", {})
  st = w.get("settings") or dict(DEFAULTS)
  if origin.get("kind") == "history":
    # the witness is a position in a sequence: re-run the sequence(s) in fresh processes
    orders = origin.get("orders") or [origin.get("order", "fwd")]
    tasks = [{"fn": "vf.checks.c11:child", "id": f"history/0/{o}", "timeout": 1500,
              "arg": {"kind": "history", "count": origin.get("count", origin["index"] + 1),
                      "seed": origin["seed"], "order": o}} for o in orders]
    digests = {}
    ck = common.Check(PID, "replay", rec.get("seed", 0), rule="replay")
    for res in pool.run_tasks(tasks):
      if res.get("ok"):
        J.violations += res["result"]["violations"]
        digests.setdefault("0", {})[res["task"].split("/")[2]] = (res["result"]["digests"],
                                                                   origin["seed"])
    J.violations += _compare_orders(ck, digests)
  elif w.get("unit_text"):
    judge_text(env, J, w["unit_text"], "replayed", [st], origin)
  elif origin.get("kind") == "bundled stub":
    r = child_bundled({"kind": "bundled", "modules": [origin["module"]], "nsettings": 0,
                       "everything": True, "seed": 0})
    J.violations = r["violations"]
  elif w.get("program"):
    from vf import pt
    from vf.oracle import c11_denote as dn
    dn.install_monitor()
    pt.analyze(w["program"])
    for r in dn.RECORDS:
      _absorb_monitor_record(J, r, origin, w["program"])
  keys = sorted({v["key"] for v in J.violations})
  for k in keys:
    print("  observed:", k)
  if rec.get("key") in keys:
    print(f"VIOLATION property={PID} replay=<replayed>")
    print(f"  mechanism: {rec['key']}")
    return 1
  if keys:
    print("replay: the recorded mechanism did not reappear (others did)")
    return 1
  print("replay: no disagreement")
  return 0
