"""C15 - any source is analysed to a result, never an internal failure.

For every source text T (written to a scratch file and given to
`io.check_or_generate_pyi` exactly like the command line does):

  (1) no exception escapes (utils.UsageError caused by the environment is
      counted, not judged; the per-file watchdog - 60 s / 300 s of CPU time via
      ITIMER_PROF, backed by a wall-clock SIGALRM at 8x - firing is inconclusive
      for that file, never a violation);
  (2) if CPython's own `compile(T, name, 'exec')` raises SyntaxError/ValueError:
      exactly one error, named python-compiler-error, at CPython's lineno;
      if it compiles: a stub text plus an error list, and no compiler error;
  (3) every reported error line L satisfies 1 <= L <= lines(T) (+1 at EOF).

Oracle = CPython's compiler in the same interpreter and the text itself.
Workload = hostile generated programs, token/line mutants of them and of
stdlib files (about half still compile), and a slice of the stdlib as corpus.
A 5 % slice runs with the ASan+UBSan build of the typegraph extension.  The
C16 block-graph monitor stays installed during all VM runs (its counters are
reported as extra information only).
"""
from __future__ import annotations

import collections
import hashlib
import json
import os
import random
import re
import shutil
import signal
import sys
import time
import traceback
import warnings

from vf import boot, common, pool

PID = "C15"
STDLIB = "/root/.pyenv/versions/3.12.1/lib/python3.12"
SCRATCH = os.path.join(boot.BUILD, "scratch")
NUL_KEY = "compile error without line (e.g. NUL byte) reported at line 0"


# minimal reproducers of the findings listed in notes/C15.md (kept in the workload so that a
# repaired mechanism shows up as a vanished KNOWN-FINDING line)
KNOWN_REPRODUCERS = [
    "x = {**[]}\n",                                   # AttributeError constant_folding.visit_code
    "x = [*{}]\n",                                    # TypeError constant_folding.visit_code
    "x = {a: 1, **b, []: 2}\n",                       # TypeError constant_folding.add
    "x = hasattr(*y)\n",                              # IndexError special_builtins.run
    "x = next(**p)\n",                                # IndexError special_builtins._get_args
    "x = abs(*y)\n",                                  # IndexError special_builtins.call
    "def f[T](x=None): pass\n",                       # ConversionError convert.value_to_constant
    "class A:\n    class B[T]:\n        pass\n",      # AssertionError vm.byte_LOAD_FROM_DICT_OR_DEREF
    "G1: [] = []\ndef f():\n    match G1:\n        case list(): pass\n",   # KeyError blocks.get_cell_index
    "import enum\nclass C(enum.Enum):\n    x = [i for i in ()]\n",         # ConversionError get_atomic_value
    "import enum\nclass C1(enum.Enum):\n    A = 1\n    B = ()\nclass C2(C1):\n    pass\n",  # TypeError enum_overlay
    "x = [*42]\n", "x = {**42}\n", "x = {[]}\n",        # ConstantError reported as compiler error
    "from collections.abc import Mapping\n",          # AttributeError typing_overlay.__init__ (empty typeshed only)
    "x = list[int]\nx.y = 1\n",                        # NotImplementedError attribute.set_attribute
    "from typing import Generic, TypeVar\nT = TypeVar('T')\nclass Bad(Generic[T, T]): pass\n",  # ContainerError
    "from typing import List, TypedDict\nclass TD(TypedDict):\n    v: List['TD']\nx: TD = {}\n",  # RecursionError
    "from foo.__init__ import x\n",                    # AssertionError typeshed._is_module_in_typeshed
    "def helper(): pass\nclass Point:\n    x = helper.__class__\n",   # AssertionError output.value_to_pytd_def
    "class A:\n    class B:\n        def __new__(mcs): pass\n",      # TypeError pytd/parse/node.Replace
    "from typing import List\nx = List[r'\\d+']\ny = 1 + ''\n",   # analysed; compiler error names the string annotation
    # FlawedQuery in convert_structural.match_call_record (needs --protocols)
    ("from typing import List\nG0 = 0\nG1: List[int]\ndef helper():\n    open(G1 and G0)\n", {"protocols": True}),
]


class _Timeout(BaseException):
  pass


def _on_alarm(signum, frame):
  raise _Timeout()


# --------------------------------------------------------------------------
# oracle helpers


def nlines(text: str) -> int:
  """Number of lines as CPython counts them (text already in universal-newline form)."""
  if not text:
    return 0
  return text.count("\n") + (0 if text.endswith("\n") else 1)


def cpython_compile(text, name):
  """('ok',) | ('error', lineno, msg, type) | ('unknown', reason)."""
  try:
    with warnings.catch_warnings():
      warnings.simplefilter("ignore")
      compile(text, name, "exec", dont_inherit=True)
    return ("ok",)
  except SyntaxError as e:
    return ("error", e.lineno, str(e.msg), type(e).__name__)
  except ValueError as e:
    return ("error", None, str(e), type(e).__name__)
  except (RecursionError, MemoryError, OverflowError) as e:
    return ("unknown", type(e).__name__)


def norm_msg(m):
  m = str(m).split("\n")[0]
  m = re.sub(r"'[^']*'", "'_'", m)
  m = re.sub(r'"[^"]*"', "'_'", m)
  m = re.sub(r"\d+", "N", m)
  m = re.sub(r", not \w+$", ", not T", m)
  return m[:90]


def crash_key(e: BaseException):
  """Mechanism = exception type + innermost pytype frame (file:function, no line numbers)."""
  tb = traceback.extract_tb(e.__traceback__)
  frames = [f for f in tb if "/pytype/" in f.filename.replace("\\", "/")]

  def lab(f):
    p = f.filename.replace("\\", "/")
    rel = p.split("/pytype/", 1)[1] if "/pytype/" in p else os.path.basename(p)
    return f"{rel}:{f.name}"
  tname = type(e).__name__
  if not frames:
    return f"internal crash: {tname} (no pytype frame)"
  if isinstance(e, RecursionError):
    # name the recursion cycle, independent of where in the cycle the limit was hit: find the
    # period of the frame sequence (ignoring up to 40 innermost frames) and take the
    # alphabetically first function of the cycle
    labels = [lab(f) for f in frames]
    for k in range(0, 40):
      tail = labels[:len(labels) - k]
      for per in range(1, 200):
        if len(tail) >= 3 * per and tail[-per:] == tail[-2 * per:-per] == tail[-3 * per:-2 * per]:
          cyc = sorted(set(tail[-per:]))
          return f"internal crash: RecursionError, cycle of {len(cyc)} function(s) incl. {cyc[0]}"
    c = collections.Counter(labels[-120:])
    return f"internal crash: RecursionError cycling through {c.most_common(1)[0][0]}"
  return f"internal crash: {tname} in {lab(frames[-1])}"


def classify_false_compile_error(text, msg):
  """A compilable source that pytype rejects as python-compiler-error: which mechanism?"""
  try:
    from pytype import preprocess
    aug = preprocess.augment_annotations(text)
    if aug != text and cpython_compile(aug, "<aug>")[0] == "error":
      return ("compilable source rejected as python-compiler-error: preprocess.augment_annotations "
              "appends ' = ...' to a line where that is not valid syntax")
  except Exception:  # pylint: disable=broad-except
    pass
  m = str(msg)
  if m.startswith("Value after *"):
    return ("compilable source rejected as python-compiler-error: constant_folding.ConstantError "
            "'Value after * / ** must be an iterable / a mapping' (literal unpacked in a display; fails only at run time)")
  if m.startswith("TypeError: "):
    return ("compilable source rejected as python-compiler-error: constant_folding.ConstantError "
            "'TypeError: unhashable type' (unhashable literal as set element / dict key; fails only at run time)")
  return "compilable source rejected as python-compiler-error: " + norm_msg(msg)


def judge(text, cp, outcome):
  """Returns (violations[list of (key, detail)], judged: bool)."""
  viol = []
  n = nlines(text)
  kind = outcome["kind"]
  if kind in ("timeout", "usage-error", "resource"):
    return viol, False
  if kind == "crash":
    viol.append((outcome["key"], {"exception": outcome["exc"], "traceback_tail": outcome["tb"]}))
    return viol, True
  errs = outcome["errors"]
  comp = [e for e in errs if e[0] == "python-compiler-error"]
  agreed_compile_line = None
  if cp[0] == "error":
    _, lineno, msg, tname = cp
    if not comp:
      viol.append(("CPython cannot compile the text but no python-compiler-error is reported: " + norm_msg(msg),
                   {"cpython": list(cp), "errors": errs[:5]}))
    elif len(errs) != 1:
      viol.append(("python-compiler-error accompanied by other errors",
                   {"cpython": list(cp), "errors": errs[:5]}))
    else:
      L = comp[0][1]
      if lineno is None:
        if not (isinstance(L, int) and 1 <= L <= n + 1):
          key = NUL_KEY if L == 0 else "compile error without line reported outside the file"
          viol.append((key, {"cpython": list(cp), "reported_line": L, "lines": n}))
        agreed_compile_line = L      # judged here, not again by the bounds clause
      elif L != lineno:
        viol.append(("python-compiler-error line differs from CPython's lineno: " + norm_msg(msg),
                     {"cpython": list(cp), "reported_line": L, "lines": n, "message": comp[0][2][:200]}))
        agreed_compile_line = L
      else:
        agreed_compile_line = L      # CPython itself blames this line (may be EOF+1)
  elif cp[0] == "ok":
    # "not analysed": the result is the compile-failure shape of check_or_generate_pyi (default stub +
    # the compiler error alone).  A python-compiler-error next to a real stub is pytype's name for
    # a string annotation that does not compile (e.g. List[r'\d+']): the file was analysed.
    if comp and (len(errs) == 1 and outcome.get("pyi_is_default")):
      viol.append((classify_false_compile_error(text, comp[0][2]),
                   {"reported": comp[0], "lines": n}))
    elif comp:
      outcome["annotation_string_compile_error"] = True
    if not isinstance(outcome.get("pyi"), str):
      viol.append(("compilable source: no stub text returned", {"pyi_type": str(type(outcome.get("pyi")))}))
  for name, L, msg in errs:
    if name == "python-compiler-error" and L == agreed_compile_line:
      continue
    if not isinstance(L, int):
      viol.append((f"error line outside the file: [{name}] line is {L!r}", {"message": msg[:200], "lines": n}))
    elif L < 1:
      viol.append((f"error line outside the file: [{name}] at line {'0' if L == 0 else '<0'}",
                   {"message": msg[:200], "line": L, "lines": n}))
    elif L > n + (1 if name == "python-compiler-error" else 0):
      # EOF+1 is tolerated for compiler errors only (CPython itself blames that line for some
      # of them); an analysis error has no business past the last line
      where = "beyond EOF+1" if L > n + 1 else "at EOF+1 (one past the last line)"
      viol.append((f"error line outside the file: [{name}] {where}",
                   {"message": msg[:200], "line": L, "lines": n}))
  return viol, True


# --------------------------------------------------------------------------
# child side

_opcounts = collections.Counter()
_dispatches = [0]


def _install_opcode_recorder():
  from pytype import vm
  cls = vm.VirtualMachine
  if getattr(cls.run_instruction, "_c15", False):
    return
  orig = cls.run_instruction

  def run_instruction(self, op, state):
    _opcounts[op.__class__.__name__] += 1
    _dispatches[0] += 1
    return orig(self, op, state)
  run_instruction._c15 = True
  cls.run_instruction = run_instruction


_TAIL_BODIES = [
    "    if {p}:\n        return {v}",
    "    for _i in {p}:\n        return {v}",
    "    while {p}:\n        return {v}",
    "    with {p}:\n        if {p}:\n            return {v}",
    "    try:\n        return {v}\n    except ValueError:\n        pass",
    "    if {p}:\n        return {v}\n    elif {p} is None:\n        {p}()",
    "    {p}()",
    "    match {p}:\n        case 1:\n            return {v}",
]
_TAIL_RET = [("int", "1"), ("str", "'s'"), ("List[int]", "[1]"), ("bool", "True"), ("'Point'", "Point()")]


def trailing_function(rng, method=None):
  """A function with a non-None return annotation that falls off its end - as the LAST thing of a
  file: pytype re-homes the bad-return-type of the implicit `return None` to the function's last
  line, which is then the last line of the file."""
  ann, val = rng.choice(_TAIL_RET)
  body = rng.choice(_TAIL_BODIES).format(p="flag", v=val)
  method = rng.random() < 0.3 if method is None else method
  if method:
    body = "\n".join("    " + l for l in body.split("\n"))
    src = f"class _Tail:\n    def pick(self, flag) -> {ann}:\n{body}"
  else:
    pre = "async " if rng.random() < 0.15 else ""
    src = f"{pre}def _tail_pick(flag) -> {ann}:\n{body}"
  return src + rng.choice(["", "\n", "\n", "\n\n", "  # end"])


def make_text(item):
  """Deterministically produces (text, label) for an item description."""
  from vf.gen import hostile_programs as hp
  k = item["kind"]
  if k == "text":
    return item["text"], "literal"
  if k == "hostile":
    src = hp.generate(random.Random(f"C15-h-{item['seed']}"))
    tr = random.Random(f"C15-tail-{item['seed']}")
    if tr.random() < 0.35:      # separate stream: the generated program itself is unchanged
      return src.rstrip("\n") + "\n" + trailing_function(tr), "hostile+trailing-fallthrough"
    return src, "hostile"
  if k == "tail":
    tr = random.Random(f"C15-tailonly-{item['seed']}")
    head = tr.choice(["", "from typing import List\n", "from typing import List\nclass Point: pass\n\n",
                      "x = 1\n\n\n"])
    return head + trailing_function(tr), "trailing-fallthrough"
  if k == "hostile-mutant":
    base = hp.generate(random.Random(f"C15-h-{item['seed']}"))
    mut, mk = hp.mutate(random.Random(f"C15-m-{item['seed']}-{item['mseed']}"), base)
    return mut, "mutant:" + mk
  if k in ("corpus", "corpus-mutant"):
    with open(item["path"], encoding="utf8") as f:
      base = f.read()
    if k == "corpus":
      return base, "corpus"
    mut, mk = hp.mutate(random.Random(f"C15-cm-{item['path']}-{item['mseed']}"), base)
    return mut, "mutant:" + mk
  raise ValueError(k)


def _is_default_stub(pyi):
  try:
    from pytype.imports import builtin_stubs
    return isinstance(pyi, str) and pyi.startswith(builtin_stubs.DEFAULT_SRC) and (
        pyi == builtin_stubs.DEFAULT_SRC or pyi[len(builtin_stubs.DEFAULT_SRC):].lstrip().startswith("#"))
  except Exception:  # pylint: disable=broad-except
    return False


def _set_cpu_limit(seconds_from_now):
  """Soft RLIMIT_CPU relative to the CPU time already used (None lifts it)."""
  try:
    import resource
    _, hard = resource.getrlimit(resource.RLIMIT_CPU)
    if seconds_from_now is None:
      soft = hard
    else:
      soft = int(time.process_time() + seconds_from_now) + 2
      if hard != resource.RLIM_INFINITY:
        soft = min(soft, hard)
    resource.setrlimit(resource.RLIMIT_CPU, (soft, hard))
  except Exception:  # pylint: disable=broad-except
    pass


def analyze_text(text, workdir, name, opts, watchdog):
  """Writes text to a scratch file, runs the real entry point under the alarm.

  Returns (text as read back, cp verdict, outcome dict)."""
  from vf import pt
  from pytype import utils
  path = os.path.join(workdir, name)
  with open(path, "w", encoding="utf8", newline="") as f:
    f.write(text)
  with open(path, encoding="utf8") as f:      # exactly how pytype reads it
    text_rb = f.read()
  opts = dict(opts)
  if "python_version" in opts:
    opts["python_version"] = tuple(opts["python_version"])
  if opts.get("python_version", (3, 12)) != tuple(sys.version_info[:2]):
    cp = ("unknown", "other bytecode version: host compiler is no oracle")
  else:
    cp = cpython_compile(text_rb, path)
  outcome = {}
  d0 = _dispatches[0]
  t0 = time.time()
  # watchdog: `watchdog` seconds of CPU time of this process (robust against a loaded machine),
  # backed by a wall-clock alarm at 8x for analyses that block without using CPU
  # A Python-level handler only runs between bytecodes: an analysis stuck inside the C++ solver is
  # ended by the kernel instead (RLIMIT_CPU soft limit at 3x the watchdog => SIGXCPU kills the
  # child; the parent names the file from the progress file and counts it as not judged).
  old = signal.signal(signal.SIGALRM, _on_alarm)
  old_prof = signal.signal(signal.SIGPROF, _on_alarm)
  _set_cpu_limit(3 * watchdog)
  signal.setitimer(signal.ITIMER_PROF, float(watchdog), 5.0)
  signal.alarm(int(watchdog) * 8)
  try:
    try:
      res = pt.analyze_file(path, **opts)
      signal.alarm(0)
      signal.setitimer(signal.ITIMER_PROF, 0)
      outcome = {"kind": "result", "errors": [[n, l, str(m)[:300]] for n, l, m in res.errors],
                 "pyi": res.pyi, "pyi_is_default": _is_default_stub(res.pyi)}
    except _Timeout:
      outcome = {"kind": "timeout"}
    except utils.UsageError as e:
      signal.alarm(0)
      signal.setitimer(signal.ITIMER_PROF, 0)
      outcome = {"kind": "usage-error", "message": str(e)[:300]}
    except MemoryError:
      signal.alarm(0)
      signal.setitimer(signal.ITIMER_PROF, 0)
      outcome = {"kind": "resource", "message": "MemoryError under the address-space limit"}
    except KeyboardInterrupt:
      raise
    except BaseException as e:  # pylint: disable=broad-except
      signal.alarm(0)
      signal.setitimer(signal.ITIMER_PROF, 0)
      outcome = {"kind": "crash", "key": crash_key(e), "exc": f"{type(e).__name__}: {str(e)[:300]}",
                 "tb": "".join(traceback.format_tb(e.__traceback__)[-6:])[-2500:]}
  except _Timeout:
    outcome = {"kind": "timeout"}
  finally:
    signal.alarm(0)
    signal.setitimer(signal.ITIMER_PROF, 0)
    _set_cpu_limit(None)
    signal.signal(signal.SIGALRM, old)
    signal.signal(signal.SIGPROF, old_prof)
    try:
      os.unlink(path)
    except OSError:
      pass
  outcome["t"] = round(time.time() - t0, 2)
  outcome["dispatches"] = _dispatches[0] - d0
  return text_rb, cp, outcome


def run_item(item, workdir, watchdog, k):
  """One source -> small JSON record (text only kept for violations)."""
  rec = {"id": item["id"], "kind": item["kind"]}
  try:
    text, label = make_text(item)
  except (OSError, UnicodeDecodeError, ValueError) as e:
    rec.update({"outcome": "skipped", "reason": f"{type(e).__name__}"})
    return rec
  try:
    text.encode("utf8")
  except UnicodeEncodeError:
    rec.update({"outcome": "skipped", "reason": "not utf8-encodable"})
    return rec
  opts = dict(item.get("opts") or {})
  text_rb, cp, out = analyze_text(text, workdir, f"m{k}.py", opts, watchdog)
  viol, judged = judge(text_rb, cp, out)
  n = nlines(text_rb)
  rec.update({
      "label": label, "outcome": out["kind"], "cp": cp[0], "lines": n, "t": out["t"],
      "dispatches": out["dispatches"], "judged": judged,
      "fp": hashlib.sha1(text_rb.encode("utf8")).hexdigest()[:16],
      "nerr": len(out.get("errors") or []),
      "err_names": sorted({e[0] for e in out.get("errors") or []}),
  })
  rec["nontrivial"] = bool(judged and ((cp[0] in ("ok", "unknown") and out["dispatches"] >= 30) or
                                       (cp[0] == "error" and n >= 3)))
  if out.get("annotation_string_compile_error"):
    rec["annotation_string_compile_error"] = True
  if cp[0] == "error":
    rec["cp_line_none"] = cp[1] is None
    rec["compile_error_agreed"] = judged and not viol and out["kind"] == "result"
  if out["kind"] == "usage-error":
    rec["usage"] = out["message"]
  if viol:
    rec["violations"] = [{"key": key, "detail": det, "item": item, "label": label, "opts": opts,
                          "cpython": list(cp), "lines": n,
                          "text": text if len(text) <= 150000 else None} for key, det in viol]
  return rec


def child(arg):
  import faulthandler
  variant = os.environ.get("VERIF_EXT_VARIANT", "plain")
  fault_fh = None
  if arg.get("partial"):
    # Python stacks of a dying child go to a side file so that stderr keeps the native runtime's own
    # last words (e.g. "terminate called after throwing an instance of 'std::bad_alloc'")
    fault_fh = open(arg["partial"] + ".fault", "w")
    faulthandler.enable(file=fault_fh)
  else:
    faulthandler.enable()
  if variant != "asan":
    try:
      import resource
      lim = 8 << 30
      resource.setrlimit(resource.RLIMIT_AS, (lim, lim))
    except Exception:  # pylint: disable=broad-except
      pass
  from vf.oracle import c16_blocks
  c16_blocks.install_monitor()
  _install_opcode_recorder()
  import logging
  logging.disable(logging.CRITICAL)       # pytype logs ERRORs for recoverable oddities
  workdir = os.path.join(SCRATCH, f"c15-{os.getpid()}")
  os.makedirs(workdir, exist_ok=True)
  part = arg.get("partial")
  watchdog = arg["watchdog"] * (5 if variant == "asan" else 1)   # ASan's allocator under memory pressure
  recs = []
  try:
    pf = open(part, "a") if part else None
    for k, item in enumerate(arg["items"]):
      if pf:
        pf.write(json.dumps({"current": item["id"]}) + "\n")
        pf.flush()
      rec = run_item(item, workdir, watchdog, k)
      recs.append(rec)
      if pf:
        pf.write(json.dumps({"done": rec}, default=repr) + "\n")
        pf.flush()
    if pf:
      pf.close()
  finally:
    shutil.rmtree(workdir, ignore_errors=True)
  mon = dict(c16_blocks.counters)
  return {"records": recs, "opcodes": dict(_opcounts), "c16_monitor": mon,
          "c16_violation_samples": c16_blocks.violations[:3]}


# --------------------------------------------------------------------------
# driver side


def corpus_files(max_bytes, min_bytes=200):
  out = []
  for dp, dn, fn in os.walk(STDLIB):
    dn[:] = sorted(d for d in dn if d not in ("test", "tests", "idle_test", "site-packages",
                                               "__pycache__") and not d.startswith("test"))
    for f in sorted(fn):
      if not f.endswith(".py"):
        continue
      p = os.path.join(dp, f)
      try:
        sz = os.path.getsize(p)
      except OSError:
        continue
      if min_bytes <= sz <= max_bytes:
        out.append((p, sz))
  return out


def build_items(tier, seed):
  rng = random.Random(f"C15-{seed}-items")
  items = []
  if tier == "quick":
    n_gen, n_mut_gen, n_mut_corpus, n_corpus = 200, 110, 90, 60
    corpus_cap, mut_cap = 9000, 6000
  else:
    n_gen, n_mut_gen, n_mut_corpus, n_corpus = 2000, 1000, 1000, None
    corpus_cap, mut_cap = 120000, 12000

  def opts():
    o = {}
    x = rng.random()
    if x < 0.25:
      o["quick"] = True
    elif x < 0.4:
      o["protocols"] = True
    return o
  seeds = [rng.randrange(1 << 30) for _ in range(n_gen)]
  for s in seeds:
    items.append({"id": f"h{s}", "kind": "hostile", "seed": s, "opts": opts()})
  for i in range(n_mut_gen):
    s = rng.choice(seeds) if rng.random() < 0.5 else rng.randrange(1 << 30)
    items.append({"id": f"hm{s}-{i}", "kind": "hostile-mutant", "seed": s, "mseed": i, "opts": opts()})
  files = corpus_files(corpus_cap)
  small = [p for p, sz in files if sz <= mut_cap]
  for i in range(n_mut_corpus):
    p = rng.choice(small)
    items.append({"id": f"cm{i}-{os.path.basename(p)}", "kind": "corpus-mutant", "path": p, "mseed": i,
                  "opts": opts()})
  chosen = [p for p, _ in files]
  if n_corpus is not None:
    chosen = rng.sample(chosen, min(n_corpus, len(chosen)))
  for p in chosen:
    items.append({"id": "c-" + os.path.relpath(p, STDLIB), "kind": "corpus", "path": p,
                  "opts": {}})
  for i in range(24 if tier == "quick" else 200):
    items.append({"id": f"tail{i}", "kind": "tail", "seed": rng.randrange(1 << 30), "opts": opts()})
  # fixed regression seeds of the property's corner cases
  for i, t in enumerate(["x = 1\ny = '\0'\n", "", "\n\n", "x = (\n", "def f(:\n", "def f():\n",
                         "if 1:\n\tx = 1\n        y = 2\n", "return\n", "x = 1\r\ny = )\r\n",
                         "def f():\n    x: int; y = 1\n    return y\n", "\x0c\nx = )\n",
                         "class A:\n  def f(self):\n    nonlocal q\n", "x = '''\n", "f'{'\n", "1 +\n",
                         "def pick(flag) -> int:\n    if flag:\n        return 1",
                         "def pick(flag) -> int:\n    if flag:\n        return 1\n",
                         "def pick(flag) -> str:\n    for i in flag:\n        return 's'\n",
                         "class K:\n    def m(self, flag) -> int:\n        with flag:\n            if flag:\n                return 1"]
                        + KNOWN_REPRODUCERS):
    o = {}
    if isinstance(t, tuple):
      t, o = t
    items.append({"id": f"fixed{i}", "kind": "text", "text": t, "opts": dict(o)})
  skipped = []
  if tier == "thorough":
    # other bytecode versions through pytype's own python_exe path: only clauses (1) and (3) are
    # judged there (the CPython oracle of clause (2) is the host compiler)
    for ver in ((3, 10), (3, 11)):
      if other_python_bin(ver) is None:
        skipped.append(f"-V {ver[0]}.{ver[1]}: interpreter not found")
        continue
      for s in seeds[:100]:
        items.append({"id": f"h{s}-v{ver[1]}", "kind": "hostile", "seed": s,
                      "opts": {"python_version": list(ver)}})
  else:
    skipped.append("-V 3.10 / 3.11 slice: thorough tier only")
  rng.shuffle(items)
  return items, skipped


def other_python_bin(ver):
  import glob
  tag = f"{ver[0]}.{ver[1]}"
  c = sorted(glob.glob(f"/root/.pyenv/versions/{tag}.*/bin/python{tag}"))
  return os.path.dirname(c[-1]) if c else None


def make_tasks(items, tier, run_id, round_no=0, asan_fraction=0.05):
  rng = random.Random(f"C15-tasks-{run_id}-{round_no}")
  watchdog = 60 if tier == "quick" else 300
  n_asan = max(2, int(len(items) * asan_fraction)) if round_no == 0 else 0
  asan_items = [it for it in items if it["kind"] in ("hostile", "hostile-mutant", "text", "tail")
                and "python_version" not in (it.get("opts") or {})][:n_asan]
  asan_ids = {it["id"] for it in asan_items}
  plain_items = [it for it in items if it["id"] not in asan_ids]
  tasks = []
  bins = [b for b in (other_python_bin(v) for v in ((3, 10), (3, 11))) if b]
  path_env = os.pathsep.join(bins + [os.environ.get("PATH", "")])

  def add(batch, variant, idx):
    tid = f"r{round_no}/{variant}/{idx}"
    part = os.path.join(SCRATCH, f"c15-part-{run_id}-r{round_no}-{variant}-{idx}.jsonl")
    tasks.append({"fn": "vf.checks.c15:child", "id": tid, "variant": variant, "env": {"PATH": path_env},
                  "timeout": 3600 if tier == "quick" else 3 * 3600,
                  "arg": {"items": batch, "watchdog": watchdog, "partial": part},
                  "_partial": part, "_items": batch})
  nb = 30 if tier == "quick" else 96
  if round_no:
    nb = min(nb, max(1, len(plain_items) // 4))
  # one bytecode version per child process: pytype caches the parsed builtins per process without
  # the version in the key (a 3.12 analysis after a 3.10 one lacks builtins.ExceptionGroup), which
  # is outside C15's quantifier (one text, fresh context) - see notes/C15.md
  native = [it for it in plain_items if "python_version" not in (it.get("opts") or {})]
  for i in range(nb):
    b = native[i::nb]
    if b:
      add(b, "plain", i)
  by_ver = collections.defaultdict(list)
  for it in plain_items:
    v = (it.get("opts") or {}).get("python_version")
    if v:
      by_ver[tuple(v)].append(it)
  idx = nb
  for v in sorted(by_ver):
    for j in range(0, len(by_ver[v]), 50):
      add(by_ver[v][j:j + 50], "plain", idx)
      idx += 1
  na = 2 if tier == "quick" else 8
  for i in range(na):
    b = asan_items[i::na]
    if b:
      add(b, "asan", i)
  return tasks


def _read_tail(path, n):
  try:
    with open(path) as f:
      return f.read()[-n:]
  except OSError:
    return ""


def read_partial(path):
  done, current = [], None
  try:
    with open(path) as f:
      for line in f:
        try:
          d = json.loads(line)
        except ValueError:
          continue
        if "current" in d:
          current = d["current"]
        elif "done" in d:
          done.append(d["done"])
          current = None
  except OSError:
    pass
  return done, current


def run(tier, seed):
  ck = common.Check(
      PID, tier, seed,
      rule=("evaluations = source texts pushed through io.check_or_generate_pyi and judged (crash / compile-"
            "error mapping / stub present / error-line bounds); not judged: per-file watchdog, UsageError from "
            "the environment, resource limit. Non-trivial = compilable text for which the VM dispatched >= 30 "
            "opcodes, or non-compilable text of >= 3 lines; distinct by sha1 of the text. Sources: hostile "
            "generator, token/line mutants of generated programs and of stdlib files, stdlib corpus slice."))
  run_id = f"{os.getpid()}-{seed}"
  items, skipped_slices = build_items(tier, seed)
  by_id = {it["id"]: it for it in items}
  boot.build_ext("asan")
  records = []
  opcodes = collections.Counter()
  mon = collections.Counter()
  mon_samples = []
  pending = items
  died = []
  by_variant = collections.Counter()
  for round_no in range(4):
    if not pending:
      break
    tasks = make_tasks(pending, tier, run_id, round_no)
    meta = {t["id"]: t for t in tasks}
    clean = [{k: v for k, v in t.items() if not k.startswith("_")} for t in tasks]
    pending = []
    for res in pool.run_tasks(clean):
      tid = res.get("task")
      t = meta[tid]
      variant = t["variant"]
      if res.get("ok"):
        r = res["result"]
        records += r["records"]
        by_variant[variant] += len(r["records"])
        opcodes.update(r["opcodes"])
        mon.update(r["c16_monitor"])
        mon_samples += r["c16_violation_samples"]
        if pool.sanitizer_report(res):
          ck.violation("sanitizer-report", {"task": tid, "report": res["stderr"][-6000:]})
      else:
        done, current = read_partial(t["_partial"])
        records += done
        by_variant[variant] += len(done)
        done_ids = {d["id"] for d in done}
        rest = [it for it in t["_items"] if it["id"] not in done_ids and it["id"] != current]
        pending += rest
        rep = pool.sanitizer_report(res)
        culprit = by_id.get(current)
        info = {"task": tid, "item": culprit, "rc": res.get("rc"), "error": res.get("error"),
                "stderr_tail": (res.get("stderr") or "")[-3000:]}
        if rep:
          ck.violation("sanitizer-report", dict(info, report=rep[-6000:]))
        elif res.get("timeout"):
          ck.count("files_not_judged: batch watchdog fired", 1)
          died.append(("timeout", current))
        elif res.get("rc") in (-24, 152):
          ck.count("files_not_judged: hard CPU limit (analysis stuck in native code)", 1)
          died.append(("SIGXCPU", current))
        elif res.get("rc") in (-6, 134) and any(m in (res.get("stderr") or "") for m in (
            "bad_alloc", "MemoryError", "Cannot allocate memory", "out of memory")):
          # the native solver ran into the 8 GiB address-space limit of the child: resource, not verdict
          ck.count("files_not_judged: native code aborted on the address-space limit (std::bad_alloc)", 1)
          died.append(("bad_alloc", current))
        elif res.get("rc") in (-11, -6, -7, -8, -4, 139, 134):
          info["python_stack"] = _read_tail(t["_partial"] + ".fault", 4000)
          try:
            if culprit:
              info["text"] = make_text(culprit)[0][:150000]
          except Exception:  # pylint: disable=broad-except
            pass
          ck.violation(f"child process died with signal {abs(res.get('rc'))} during analysis", info)
        else:
          ck.count("files_not_judged: worker failed for another reason", 1)
          died.append((str(res.get("error")), current))
          if current is None and not done:
            ck.inconclusive(f"batch {tid} failed before analysing anything: {res.get('error')} "
                            f"{(res.get('traceback') or res.get('stderr') or '')[-800:]}")
      for pth in (t["_partial"], t["_partial"] + ".fault"):
        try:
          os.unlink(pth)
        except OSError:
          pass
  if pending:
    ck.count("files_not_judged: not re-run after repeated worker failures", len(pending))

  # ---- aggregate
  err_classes = collections.Counter()
  not_judged_items = []
  usage = collections.Counter()
  tmax = 0.0
  for rec in records:
    oc = rec.get("outcome")
    ck.count(f"outcome[{rec['kind']}]: {oc}" + (f"/cpython-{rec.get('cp')}" if oc == "result" else ""))
    if oc == "skipped":
      continue
    if rec.get("judged"):
      ck.case(rec["fp"], rec.get("nontrivial", False))
    else:
      ck.count("files_not_judged: " + str(oc))
      not_judged_items.append({"id": rec["id"], "kind": rec["kind"], "label": rec.get("label"),
                               "why": oc, "t": rec.get("t")})
    for n in rec.get("err_names") or []:
      err_classes[n] += 1
    if rec.get("cp") == "error":
      ck.count("compile_error_cases_judged" if rec.get("judged") else "compile_error_cases_not_judged")
      if rec.get("compile_error_agreed"):
        ck.count("compile_error_cases_agreeing_with_cpython_line")
      if rec.get("cp_line_none"):
        ck.count("compile_error_cases_where_cpython_gives_no_line")
    if rec.get("annotation_string_compile_error"):
      ck.count("compilable_sources_with_python-compiler-error_for_a_string_annotation(analysed, not judged)")
    if rec.get("cp") == "unknown":
      ck.count("cpython_compile_verdict_unknown")
    if rec.get("label", "").startswith("mutant"):
      ck.count("mutants_compiling" if rec.get("cp") == "ok" else "mutants_not_compiling")
    if "usage" in rec:
      usage[rec["usage"][:120]] += 1
    tmax = max(tmax, rec.get("t", 0))
    for w in rec.get("violations") or []:
      ck.violation(w["key"], w)
    if rec.get("outcome") == "result" and len(ck.samples) < 6 and rec["kind"] != "text":
      ck.sample({k: rec.get(k) for k in ("id", "kind", "label", "cp", "lines", "nerr", "err_names", "t",
                                         "dispatches")})
  ck.count("sources_total", len(records))
  ck.count("vm_opcode_dispatches", sum(opcodes.values()))
  ck.count("distinct_opcode_classes_dispatched", len(opcodes))
  ck.count("distinct_error_classes_reported", len(err_classes))
  ck.extra["opcode_classes_dispatched"] = sorted(opcodes)
  ck.extra["error_classes_reported"] = dict(err_classes)
  ck.extra["usage_errors_from_environment"] = dict(usage)
  ck.extra["sources_by_build"] = dict(by_variant)
  ck.extra["slowest_file_s"] = tmax
  ck.extra["skipped_slices"] = skipped_slices
  ck.extra["workers_died"] = died[:10]
  ck.extra["not_judged_items"] = not_judged_items[:20]
  # C16 in-situ monitor: extra information only (never a C15 violation)
  ck.extra["c16_monitor"] = {k: v for k, v in mon.items()}
  ck.extra["c16_monitor_violation_samples"] = mon_samples[:3]
  ck.count("c16_monitor_code_objects_checked", mon.get("code_objects", 0))
  ck.count("c16_monitor_violations(info only)", sum(v for k, v in mon.items() if k.startswith("violation: ")))
  ck.extra["sanitizer_reports"] = sum(1 for k, _ in ck.violations if k == "sanitizer-report")
  ck.exhaustive = False
  ck.assumptions = [
      "CPython 3.12's compile() in the same interpreter defines 'cannot compile' and the blamed line",
      "the source text is what open(path, encoding='utf8') returns (universal newlines), as pytype reads it",
      "empty typeshed: non-bundled imports are [import-error] + Any (a legitimate stub + error report)",
      "a per-file watchdog (60 s quick / 300 s thorough of CPU time, wall-clock alarm at 8x) firing is not judged; non-termination is not decidable here"]
  judged = sum(1 for r in records if r.get("judged"))
  notj = sum(1 for r in records if r.get("outcome") in ("timeout", "resource"))
  if judged == 0:
    ck.inconclusive("no source was judged")
  elif notj > 0.05 * max(1, len(records)):
    ck.inconclusive(f"{notj} of {len(records)} files hit the watchdog/resource limit")
  if by_variant.get("asan", 0) == 0:
    ck.inconclusive("sanitizer slice produced no observations")
  if sum(opcodes.values()) == 0:
    ck.inconclusive("opcode recorder never fired (VM did not run)")
  return ck.finish()


def replay(rec):
  w = rec["witness"]
  item = w.get("item")
  text = w.get("text")
  if text is None and item:
    text = make_text(item)[0]
  if text is None:
    print("witness without text (sanitizer / dead child): re-run the check")
    return 2
  from vf.oracle import c16_blocks
  c16_blocks.install_monitor()
  _install_opcode_recorder()
  import logging
  logging.disable(logging.CRITICAL)
  workdir = os.path.join(SCRATCH, f"c15-replay-{os.getpid()}")
  os.makedirs(workdir, exist_ok=True)
  try:
    text_rb, cp, out = analyze_text(text, workdir, "replay.py", w.get("opts") or {}, 600)
  finally:
    shutil.rmtree(workdir, ignore_errors=True)
  viol, judged = judge(text_rb, cp, out)
  print("cpython:", cp)
  print("outcome:", {k: v for k, v in out.items() if k != "pyi"})
  known = common.load_known(PID)
  bad = [k for k, _ in viol if k not in known]
  for k, d in viol:
    print("mechanism:", k)
  if bad:
    print(f"VIOLATION property={PID} replay=<replayed>")
    return 1
  print("replay: no (unlisted) violation" if judged else "replay: not judged")
  return 0
