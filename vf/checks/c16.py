"""C16 - every compiled code object becomes a well-formed ordered block graph.

Oracle: vf/oracle/c16_blocks.py (seven structural invariants + a reference
cross-check of resolved jump targets against CPython's `dis`), evaluated on the
result of the real `blocks.process_code` for every code object (recursively
through consts).

Workloads
  (a) the whole CPython 3.12 standard library (non-test files that compile)
  (b) hostile generated programs and their still-compiling mutants
  (c) a syntactic nesting enumerator: every chain of control constructs to
      depth 2 (quick) / 3 (thorough) with return/break/continue/raise/yield/
      await placed innermost
  (d) thorough: bytecode of other interpreters (-V 3.8..3.11) through pytype's
      own python_exe compile path, when those interpreters exist
"""
from __future__ import annotations

import collections
import glob
import os
import random
import warnings

from vf import common, pool

PID = "C16"
STDLIB = "/root/.pyenv/versions/3.12.1/lib/python3.12"
SKIP_DIRS = ("test", "tests", "idle_test", "site-packages", "__pycache__", "lib2to3/tests/data")
OTHER = {(3, 8): "3.8", (3, 9): "3.9", (3, 10): "3.10", (3, 11): "3.11"}


def stdlib_files(root=STDLIB):
  out = []
  for dp, dn, fn in os.walk(root):
    rel = os.path.relpath(dp, root)
    dn[:] = sorted(d for d in dn if d not in SKIP_DIRS and not d.startswith("test")
                   and os.path.join(rel, d).lstrip("./") not in SKIP_DIRS)
    for f in sorted(fn):
      if f.endswith(".py"):
        out.append(os.path.join(dp, f))
  return out


def other_interpreter(version):
  tag = OTHER[version]
  c = sorted(glob.glob(f"/root/.pyenv/versions/{tag}.*/bin/python{tag}"))
  return c[-1] if c else None


def mechanism_key(w):
  """Mechanism string for a violation record of the oracle."""
  d = w.get("detail") or {}
  op = None
  for k in ("instr", "last", "a", "first"):
    if d.get(k):
      op = str(d[k]).split(":", 1)[-1].split("->")[0]
      break
  v = ".".join(str(x) for x in w.get("version") or ())
  extra = ""
  if "direction" in d:
    extra = " " + d["direction"]
  inv = w["inv"]
  if inv.startswith("I9 "):
    op = None            # which instruction is lost first is incidental
  if inv.startswith("I2 instruction in two blocks"):
    inv = "I2 instruction in two blocks"      # of order / of the split: same mechanism
  return f"{inv} [{op or '-'}{extra}] py{v}"


# --------------------------------------------------------------------------
# child side


class Acc:
  def __init__(self):
    from vf.oracle import c16_blocks as cb
    self.cb = cb
    self.rep = cb.Report()
    self.sources = 0
    self.skipped = collections.Counter()
    self.samples = []
    self.keys_seen = collections.Counter()
    self.viol = []

  def run_source(self, src, name, version=(3, 12), exe=None, tag="", keep_src=True):
    from pytype.pyc import pyc
    try:
      with warnings.catch_warnings():
        warnings.simplefilter("ignore")
        code = pyc.compile_src(src, name, version, exe)
    except pyc.CompileError:
      self.skipped["does_not_compile:" + tag.split("/")[0]] += 1
      return None
    except Exception as e:  # pylint: disable=broad-except
      self.skipped[f"compile_raised_{type(e).__name__}:" + tag.split("/")[0]] += 1
      return None
    try:
      ordered, _, cap = self.cb.process_with_capture(code)
    except Exception as e:  # pylint: disable=broad-except
      # process_code itself blowing up on compilable code: no block graph at all
      import traceback
      tb = traceback.extract_tb(e.__traceback__)
      fr = [f for f in tb if "/pytype/" in f.filename]
      where = f"{os.path.basename(fr[-1].filename)}:{fr[-1].name}" if fr else "?"
      w = {"inv": f"process_code raised {type(e).__name__} in {where}", "code": "<module>",
           "version": list(version), "detail": {"message": str(e)[:300]}, "tag": tag,
           "source_name": name}
      if keep_src:
        w["src"] = src if len(src) < 20000 else None
      self.viol.append(w)
      return None
    rep = self.cb.check_tree(ordered, cap, code)
    self.sources += 1
    for w in rep.violations:
      k = mechanism_key(w)
      self.keys_seen[k] += 1
      if self.keys_seen[k] <= 3:
        w = dict(w, tag=tag, source_name=name)
        if keep_src and len(src) < 20000:
          w["src"] = src
        w["exe"] = exe
        self.viol.append(w)
    rep.violations = []
    self.rep.merge(rep)
    return rep

  def result(self):
    j = self.rep.as_json()
    j.pop("violations")
    j.update({"sources": self.sources, "skipped": dict(self.skipped), "samples": self.samples,
              "violations": self.viol, "extra_violation_counts": dict(self.keys_seen)})
    return j


def _native_ok(src):
  try:
    with warnings.catch_warnings():
      warnings.simplefilter("ignore")
      compile(src, "<c16>", "exec", dont_inherit=True)
    return True
  except (SyntaxError, ValueError, RecursionError, MemoryError, OverflowError):
    return False


def nesting_modules(depth, lo, hi, per_module=40):
  """Groups the compilable nesting cases with index in [lo,hi) into module sources."""
  from vf.gen import hostile_programs as hp
  cur, labels, n_skip = [], [], 0
  for idx, (chain, leaf) in enumerate(hp.nesting_chains(depth)):
    if idx < lo:
      continue
    if idx >= hi:
      break
    name = f"f{idx}"
    label = hp.chain_label(chain, leaf)
    src = hp.render_chain(chain, leaf, name)
    if not _native_ok(src):
      src2 = hp.render_chain(chain, leaf, name, bare_return=True)
      if _native_ok(src2):
        src = src2
      else:
        n_skip += 1
        continue
    cur.append(src)
    labels.append(label)
    if len(cur) >= per_module:
      yield "\n".join(cur), labels, 0
      cur, labels = [], []
  if cur:
    yield "\n".join(cur), labels, 0
  yield None, [], n_skip


def child(arg):
  from vf.gen import hostile_programs as hp
  acc = Acc()
  kind = arg["kind"]
  version = tuple(arg.get("version", (3, 12)))
  exe = [arg["exe"]] if arg.get("exe") else None
  if kind == "files":
    for path in arg["files"]:
      try:
        with open(path, encoding="utf8") as f:
          src = f.read()
      except (OSError, UnicodeDecodeError, ValueError):
        acc.skipped["unreadable:files"] += 1
        continue
      rep = acc.run_source(src, path, version, exe, tag=f"files/{os.path.basename(path)}",
                           keep_src=False)
      if rep is not None and len(acc.samples) < 1:
        acc.samples.append({"kind": "stdlib file", "path": path, "code_objects": rep.n_code,
                            "blocks": rep.n_blocks, "version": list(version)})
  elif kind == "hostile":
    for s in arg["seeds"]:
      rng = random.Random(f"C16-h-{s}")
      src = hp.generate(rng)
      rep = acc.run_source(src, f"hostile_{s}.py", version, exe, tag=f"hostile/{s}")
      if rep is not None and len(acc.samples) < 1:
        acc.samples.append({"kind": "hostile program", "seed": s, "lines": src.count("\n"),
                            "code_objects": rep.n_code, "blocks": rep.n_blocks,
                            "head": src.split("\n")[17:23]})
      for m in range(arg.get("mutants", 2)):
        mut, mk = hp.mutate(rng, src)
        if exe is None and not _native_ok(mut):
          acc.skipped["mutant_does_not_compile:hostile"] += 1
          continue
        acc.run_source(mut, f"hostile_{s}_m{m}.py", version, exe, tag=f"hostile-mutant/{s}/{mk}")
  elif kind == "nesting":
    for src, labels, nskip in nesting_modules(arg["depth"], arg["lo"], arg["hi"]):
      if src is None:
        acc.skipped["chain_not_compilable:nesting"] += nskip
        continue
      rep = acc.run_source(src, "nesting.py", version, exe, tag=f"nesting/{labels[0]}..")
      if rep is None and exe is not None:
        acc.skipped["module_not_compilable_for_version:nesting"] += 1
      if rep is not None:
        acc.rep.evals["nesting_functions"] += len(labels)
        if len(acc.samples) < 1:
          acc.samples.append({"kind": "nesting module", "first_chain": labels[0],
                              "functions": len(labels), "blocks": rep.n_blocks,
                              "version": list(version)})
  else:
    raise ValueError(kind)
  return acc.result()


# --------------------------------------------------------------------------
# driver side


def _chunks(xs, n):
  return [xs[i::n] for i in range(n) if xs[i::n]]


def _count_chains(depth):
  from vf.gen import hostile_programs as hp
  return sum(1 for _ in hp.nesting_chains(depth))


def _tasks(tier, seed):
  rng = random.Random(f"C16-{seed}")
  tasks = []
  files = stdlib_files()
  rng.shuffle(files)
  for i, ch in enumerate(_chunks(files, 16)):
    tasks.append({"fn": "vf.checks.c16:child", "id": f"stdlib/{i}", "timeout": 1500,
                  "arg": {"kind": "files", "files": ch}})
  n_h = 160 if tier == "quick" else 1600
  seeds = [rng.randrange(1 << 30) for _ in range(n_h)]
  for i, ch in enumerate(_chunks(seeds, 8 if tier == "quick" else 16)):
    tasks.append({"fn": "vf.checks.c16:child", "id": f"hostile/{i}", "timeout": 1500,
                  "arg": {"kind": "hostile", "seeds": ch, "mutants": 2}})
  depth = 2 if tier == "quick" else 3
  total = _count_chains(depth)
  nsh = 8 if tier == "quick" else 32
  step = (total + nsh - 1) // nsh
  for i in range(nsh):
    tasks.append({"fn": "vf.checks.c16:child", "id": f"nesting/{i}", "timeout": 1500,
                  "arg": {"kind": "nesting", "depth": depth, "lo": i * step, "hi": (i + 1) * step}})
  skipped = []
  if tier == "thorough":
    for version in sorted(OTHER):
      exe = other_interpreter(version)
      if not exe:
        skipped.append(f"-V {OTHER[version]}: interpreter not found")
        continue
      lib = os.path.join(os.path.dirname(os.path.dirname(exe)), "lib", f"python{OTHER[version]}")
      vfiles = stdlib_files(lib)
      rng.shuffle(vfiles)
      vfiles = vfiles[:200]
      for i, ch in enumerate(_chunks(vfiles, 8)):
        tasks.append({"fn": "vf.checks.c16:child", "id": f"v{OTHER[version]}/files/{i}", "timeout": 1500,
                      "arg": {"kind": "files", "files": ch, "version": list(version), "exe": exe}})
      if version >= (3, 10):       # the enumerator uses `match`
        tot2 = _count_chains(2)
        st2 = (tot2 + 3) // 4
        for i in range(4):
          tasks.append({"fn": "vf.checks.c16:child", "id": f"v{OTHER[version]}/nesting/{i}",
                        "timeout": 1500,
                        "arg": {"kind": "nesting", "depth": 2, "lo": i * st2, "hi": (i + 1) * st2,
                                "version": list(version), "exe": exe}})
  else:
    skipped.append("-V 3.8..3.11 bytecode: thorough tier only")
  return tasks, skipped, total


def run(tier, seed):
  ck = common.Check(
      PID, tier, seed,
      rule=("evaluations = code objects (module, function, lambda, comprehension, class body, generator, "
            "coroutine) whose OrderedCode was checked against all invariants; non-trivial = code object with "
            ">= 3 blocks in order; distinct by hash of its opcode-name sequence (+ bytecode version). Sources: "
            "whole CPython 3.12 stdlib (non-test), hostile generated programs and their compiling mutants, "
            "every nesting chain of 21 statement slots x 3 expression constructs x 7 terminators to depth "
            + ("2" if tier == "quick" else "3") + "."))
  tasks, skipped, total_chains = _tasks(tier, seed)
  evals = collections.Counter()
  notjudged = collections.Counter()
  removed = collections.Counter()
  skips = collections.Counter()
  opnames = set()
  by_version_sources = collections.Counter()
  nest_complete = True
  for res in pool.run_tasks(tasks):
    tid = str(res.get("task"))
    if not res.get("ok"):
      ck.child_failed(res, f"C16 batch {tid}")
      if tid.startswith("nesting"):
        nest_complete = False
      continue
    r = res["result"]
    ck.merge_cases(r["n_code"], r["fps"])
    evals.update(r["evals"])
    notjudged.update(r["notjudged"])
    removed.update(r["removed"])
    skips.update(r["skipped"])
    opnames.update(r["opnames"])
    ck.count("sources_processed", r["sources"])
    ck.count("code_objects_with_>=3_blocks", r["n_nontrivial"])
    ck.count("code_objects_with_exception_table", r["n_exc_table"])
    ck.count("code_objects_with_SEND", r["n_send"])
    ck.count("blocks_in_order", r["n_blocks"])
    ck.count("instructions_in_order", r["n_instr"])
    by_version_sources[tid.split("/")[0] if tid.startswith("v") else "3.12"] += r["sources"]
    for s in r["samples"]:
      ck.sample(s)
    for w in r["violations"]:
      ck.violation(mechanism_key(w), w)
    for k, n in r["extra_violation_counts"].items():
      ck.count("violating code objects: " + k, n)
  ck.extra["invariant_evaluations"] = dict(evals)
  ck.extra["not_judged"] = dict(notjudged)
  ck.extra["instructions_outside_every_block_by_documented_surgery"] = dict(removed)
  ck.extra["skipped"] = dict(skips)
  ck.extra["skipped_slices"] = skipped
  ck.extra["opcode_classes_seen"] = sorted(opnames)
  ck.count("opcode_classes_seen", len(opnames))
  ck.extra["sources_by_bytecode_version"] = dict(by_version_sources)
  ck.extra["nesting_chains_enumerated"] = total_chains
  ck.extra["nesting_enumeration_complete"] = nest_complete
  ck.exhaustive = False
  ck.assumptions = [
      "CPython's dis decoding of jump targets is the reference for invariant J (native 3.12 bytecode only)",
      "the pre-order split is the list handed to cfg_utils.order_nodes by blocks.compute_order",
      "instructions the 3.12 async-for/SEND surgery deliberately leaves outside every block are not counted "
      "as partition violations (classes listed in evidence)"]
  for inv in ("I1", "I2", "I3", "I4", "I5", "I6", "I7", "I8", "I9", "J"):
    if not evals.get(inv):
      ck.inconclusive(f"invariant {inv} was never evaluated")
  return ck.finish()


def replay(rec):
  w = rec["witness"]
  src = w.get("src")
  if not src:
    p = w.get("source_name")
    if p and os.path.exists(p):
      with open(p, encoding="utf8") as f:
        src = f.read()
  if not src:
    print("witness without source: re-run the check")
    return 2
  acc = Acc()
  version = tuple(w.get("version") or (3, 12))
  exe = w.get("exe")
  acc.run_source(src, w.get("source_name") or "replay.py", version, exe, tag="replay")
  known = common.load_known(PID)
  bad = [v for v in acc.viol if mechanism_key(v) not in known]
  for v in acc.viol:
    print(mechanism_key(v), {k: x for k, x in v.items() if k != "src"})
  if bad:
    print(f"VIOLATION property={PID} replay=<replayed>")
    return 1
  print("replay: no (unlisted) violation")
  return 0
