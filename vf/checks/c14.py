"""C14 - errors on ground code are real; plain type mistakes are caught.

Enumeration with the interpreter as oracle.  Statements `_vN = <expr>` over the
ground value grammar of vf/gen/ground.py (one per line, class definitions
first, ~1100 lines per module) are analysed by pytype; each expression is also
evaluated ALONE by CPython in the worker (fresh namespace holding only the
generated classes and named constants).

  false alarm : pytype reports any error on the line, CPython evaluates it
                without TypeError/AttributeError (another exception => the
                statement is not judged).
  miss        : only for the advertised mistakes -
                  attr      a.name raising AttributeError, a an instance of a
                            builtin or generated class
                  attrcall  a.name() raising AttributeError (missing method) or
                            "object is not callable" (existing non-callable)
                  call      a() / a(1) raising "object is not callable"
                  binop     a + - * / b raising TypeError, a and b builtin values
                  unary     -a raising TypeError, a a builtin value
                  subscript a[k] raising TypeError, a and k builtin values
                and pytype reports nothing on the line.  Every other failing
                statement that pytype leaves unflagged is only counted.

Every false alarm / miss is confirmed by analysing the statement again in a
module of its own; one that does not reproduce alone is reported as
`context-dependent|<verdict>|<kind>` (with the module as witness).

Mechanism keys: verdict|kind|operator|operand classes; for attribute loads and
method calls verdict|kind|<owner skeleton>.<attribute name> with owner skeleton
in builtin-instance, builtin-object (len, int), user-instance,
user-getattr-instance.
"""
from __future__ import annotations

import collections
import random
import signal
import warnings

from vf import common, pool
from vf.gen import ground

PID = "C14"
MODULE_LINES = 1100


# ---------------------------------------------------------------------------
# statement enumeration (parent side, no pytype involved)


def _label(v):
  return ("2:" + v.cls) if v.group == "derived" else v.cls


def _owner(v):
  """Class skeleton used in attribute keys (the attribute NAME is kept exactly)."""
  if v.group == "derived":
    return "2:builtin-instance"
  if v.builtin:
    return "builtin-instance" if v.instance else "builtin-object"
  return "user-getattr-instance" if v.cls in ground.GETATTR_CLASSES else "user-instance"


def _stmt(kind, expr, op, classes, adv, level, form="lit", owner=None):
  d = {"kind": kind, "expr": expr, "op": op, "cls": classes, "adv": adv, "level": level,
       "form": form}
  if owner:
    d["owner"] = owner
  return d


def statements(tier):
  V = ground.C14_VALUES
  D = ground.C14_DERIVED_QUICK + (ground.C14_DERIVED if tier == "thorough" else [])
  out = []
  basic = ground.BASIC_BINOPS
  ops = basic + (ground.MORE_BINOPS if tier == "thorough" else [])

  def binop(a, b, op, level):
    adv = level == 1 and op in basic and a.builtin and b.builtin
    out.append(_stmt("binop", f"{a.expr} {op} {b.expr}", op, [_label(a), _label(b)], adv, level))
    if level == 1 and a.named and b.named:
      out.append(_stmt("binop", f"{a.named} {op} {b.named}", op, [_label(a), _label(b)], adv,
                       level, "named"))

  for a in V:
    for b in V:
      for op in ops:
        binop(a, b, op, 1)
  for a in D:
    for b in V + D:
      for op in basic:
        binop(a, b, op, 2)
  for a in V:
    for b in D:
      for op in basic:
        binop(a, b, op, 2)
  for a in V + D:
    level = 2 if a.group == "derived" else 1
    for op in ground.UNARY:
      adv = level == 1 and op == "-" and a.builtin
      out.append(_stmt("unary", f"{op}{a.expr}", op, [_label(a)], adv, level))
      if a.named:
        out.append(_stmt("unary", f"{op}{a.named}", op, [_label(a)], adv, level, "named"))
    for k, kcls in ground.SUBSCRIPTS:
      adv = level == 1 and a.builtin
      out.append(_stmt("subscript", f"{a.expr}[{k}]", "[]", [_label(a), kcls], adv, level))
      if a.named:
        out.append(_stmt("subscript", f"{a.named}[{k}]", "[]", [_label(a), kcls], adv, level,
                         "named"))
    # a class with __getattr__ has no statically missing attribute: a failure is
    # raised inside its __getattr__ body, not by the lookup (false alarms only)
    inst_scope = level == 1 and a.instance and a.cls not in ground.GETATTR_CLASSES
    for name in ground.ATTRS:
      # `1.real` does not tokenise; parenthesise every operand
      out.append(_stmt("attr", f"({a.expr}).{name}", name, [_label(a)], inst_scope, level,
                       owner=_owner(a)))
      out.append(_stmt("attrcall", f"({a.expr}).{name}()", name, [_label(a)], inst_scope, level,
                       owner=_owner(a)))
    for args in ("", "1"):
      out.append(_stmt("call", f"({a.expr})({args})", f"call/{1 if args else 0}", [_label(a)],
                       level == 1, level))
  return out


def key_of(verdict, s):
  kind = s["kind"]
  if kind == "binop":
    return f"{verdict}|binop|{s['op']}|{s['cls'][0]}|{s['cls'][1]}"
  if kind == "unary":
    return f"{verdict}|unary|{s['op']}|{s['cls'][0]}"
  if kind == "subscript":
    return f"{verdict}|subscript|{s['cls'][0]}|{s['cls'][1]}"
  if kind in ("attr", "attrcall"):
    name = s["op"]
    if s["owner"] == "user-getattr-instance":
      # with __getattr__ every name resolves the same way at run time; only dunder-ness matters
      name = "<dunder>" if name.startswith("__") and name.endswith("__") else "<plain>"
    return f"{verdict}|{kind}|{s['owner']}.{name}"
  return f"{verdict}|{s['op']}|{s['cls'][0]}"


# ---------------------------------------------------------------------------
# child side


PRELUDE = ground.C14_CLASSES + ground.C14_NAMED


def build_module(stmts):
  lines = PRELUDE.rstrip("\n").split("\n")
  first = len(lines) + 1
  for i, s in enumerate(stmts):
    lines.append(f"_v{i} = {s['expr']}")
  return "\n".join(lines) + "\n", first


def runtime_namespace():
  ns = {}
  exec(PRELUDE, ns)  # pylint: disable=exec-used
  return ns


class _EvalTimeout(Exception):
  pass


def _on_alarm(signum, frame):
  raise _EvalTimeout()


def run_alone(expr, limit=0.5):
  """Evaluates expr alone under CPython. -> (outcome, exception class, message)

  A statement that does not finish within `limit` seconds of CPU time (`'a' in GetItem()`
  iterates __getitem__ forever) is not judged.
  """
  ns = runtime_namespace()
  old = signal.signal(signal.SIGVTALRM, _on_alarm)
  try:
    with warnings.catch_warnings():
      warnings.simplefilter("ignore")
      code = compile(expr, "<stmt>", "eval")
      signal.setitimer(signal.ITIMER_VIRTUAL, limit)
      try:
        eval(code, ns)  # pylint: disable=eval-used
      except (TypeError, AttributeError) as e:
        return "fails", type(e).__name__, str(e)[:200]
      except _EvalTimeout:
        return "other", "Timeout", f"no result within {limit}s"
      except Exception as e:  # pylint: disable=broad-except
        return "other", type(e).__name__, str(e)[:200]
      finally:
        signal.setitimer(signal.ITIMER_VIRTUAL, 0)
    return "clean", None, None
  finally:
    signal.signal(signal.SIGVTALRM, old)


def advertised(s, exc, msg):
  """Is this failing statement one of the mistakes pytype advertises to catch?"""
  if not s["adv"]:
    return False
  kind = s["kind"]
  if kind == "attr":
    return exc == "AttributeError"
  if kind == "attrcall":
    return exc == "AttributeError" or (exc == "TypeError" and "object is not callable" in msg)
  if kind == "call":
    return exc == "TypeError" and "object is not callable" in msg
  return exc == "TypeError"      # binop / unary minus / subscript between builtin values


def judge(s, flagged_errors, outcome, exc, msg):
  """-> verdict in TP TN false-alarm miss unflagged-outside not-judged"""
  if outcome == "other":
    return "not-judged"
  if outcome == "clean":
    return "false-alarm" if flagged_errors else "TN"
  if flagged_errors:
    return "TP"
  return "miss" if advertised(s, exc, msg) else "unflagged-outside"


def judge_module(stmts):
  from vf import pt
  src, first = build_module(stmts)
  res = pt.analyze(src)
  by_line = collections.defaultdict(list)
  for name, line, msg in res.errors:
    by_line[line].append((name, msg))
  stray = sorted({(n, l) for n, l, _ in res.errors if l < first})
  out = []
  for i, s in enumerate(stmts):
    errs = by_line.get(first + i, [])
    outcome, exc, msg = run_alone(s["expr"])
    v = judge(s, errs, outcome, exc, msg)
    out.append((v, exc, msg, errs))
  return out, stray


def child(arg):
  stmts = arg["stmts"]
  counts = collections.Counter()
  kinds = collections.Counter()
  err_classes = collections.Counter()
  exc_classes = collections.Counter()
  violations, outside, fps, samples = [], [], [], []
  strays = []
  size = arg.get("module_lines", MODULE_LINES)
  for k in range(0, len(stmts), size):
    chunk = stmts[k:k + size]
    results, stray = judge_module(chunk)
    strays.extend(stray)
    for s, (v, exc, msg, errs) in zip(chunk, results):
      counts[v] += 1
      kinds[f"{s['kind']}:{v}"] += 1
      if exc:
        exc_classes[exc] += 1
      for n, _ in errs:
        err_classes[n] += 1
      if v != "not-judged":
        nontrivial = v in ("TP", "miss", "unflagged-outside") or (
            len(s["cls"]) == 2 and s["cls"][0] != s["cls"][1])
        if nontrivial:
          fps.append(common.fp(s["expr"]))
      if v in ("false-alarm", "miss"):
        violations.append({"key": key_of(v, s), "stmt": s, "cpython": [exc, msg],
                           "pytype": [[n, m[:200]] for n, m in errs]})
      elif v == "unflagged-outside":
        outside.append(key_of("unflagged", s))
    if chunk and len(samples) < 3:
      s = chunk[len(chunk) // 2]
      v, exc, msg, errs = results[len(chunk) // 2]
      samples.append({"stmt": s["expr"], "cpython": exc or "clean", "pytype": [n for n, _ in errs],
                      "verdict": v})
  return {"n": len(stmts), "counts": dict(counts), "kinds": dict(kinds),
          "err_classes": dict(err_classes), "exc_classes": dict(exc_classes),
          "violations": violations, "outside": outside, "fps": fps, "samples": samples,
          "strays": strays}


def child_isolated(arg):
  """Each statement in a module of its own (prelude + one line)."""
  out = []
  for s in arg["stmts"]:
    results, _ = judge_module([s])
    v, exc, msg, errs = results[0]
    out.append({"expr": s["expr"], "verdict": v, "pytype": [[n, m[:200]] for n, m in errs]})
  return {"stmts": out}


# ---------------------------------------------------------------------------
# parent side


RULE = ("every statement of the grid value x {binary operators, unary operators, subscripts, "
        "attribute loads, method calls, calls} (quick: + - * /, one-level operands; thorough: 17 "
        "binary operators and two-level operands), each analysed on its own line and evaluated alone "
        "by CPython; evaluations = judged statements (CPython outcome clean or TypeError/"
        "AttributeError); non-trivial = judged statement that fails under CPython or whose two "
        "operands have different classes; distinct by expression text")


def run(tier, seed):
  ck = common.Check(PID, tier, seed, rule=RULE)
  stmts = statements(tier)
  rng = random.Random(f"{PID}-{seed}-order")
  rng.shuffle(stmts)       # module membership depends on the seed; verdicts must not
  nmod = (len(stmts) + MODULE_LINES - 1) // MODULE_LINES
  per_child = MODULE_LINES      # one module per worker
  tasks = []
  for b, k in enumerate(range(0, len(stmts), per_child)):
    tasks.append({"fn": "vf.checks.c14:child", "id": f"b{b}", "timeout": 7200,
                  "arg": {"stmts": stmts[k:k + per_child], "module_lines": MODULE_LINES}})
  outside = collections.Counter()
  judged = 0
  pending = []
  batches = {t["id"]: t["arg"]["stmts"] for t in tasks}
  for res in pool.run_tasks(tasks):
    if not res.get("ok"):
      ck.child_failed(res, f"batch {res.get('task')}")
      continue
    r = res["result"]
    nj = r["counts"].get("not-judged", 0)
    judged += r["n"] - nj
    ck.merge_cases(r["n"] - nj, r["fps"])
    for k, n in r["counts"].items():
      ck.count("verdict_" + k, n)
    for k, n in r["kinds"].items():
      ck.count("kind_" + k, n)
    for k, n in r["err_classes"].items():
      ck.count("pytype_error_" + k, n)
    for k, n in r["exc_classes"].items():
      ck.count("cpython_" + k, n)
    for s in r["samples"]:
      ck.sample(s)
    for k in r["outside"]:
      outside[k] += 1
    if r["strays"]:
      ck.inconclusive(f"pytype reported errors in the prelude: {r['strays'][:3]}")
    for w in r["violations"]:
      w["module"] = res.get("task")
      pending.append(w)
  # phase 2: every disagreeing statement again, in a module of its own
  alone = {}
  if pending:
    todo = sorted({w["stmt"]["expr"]: w["stmt"] for w in pending}.values(), key=lambda s: s["expr"])
    n2 = min(16, len(todo))
    per2 = (len(todo) + n2 - 1) // n2
    tasks2 = [{"fn": "vf.checks.c14:child_isolated", "id": f"iso{b}", "timeout": 7200,
               "arg": {"stmts": todo[k:k + per2]}}
              for b, k in enumerate(range(0, len(todo), per2))]
    for res in pool.run_tasks(tasks2):
      if not res.get("ok"):
        ck.child_failed(res, f"isolation batch {res.get('task')}")
        continue
      for d in res["result"]["stmts"]:
        alone[d["expr"]] = d
  for w in sorted(pending, key=lambda w: w["stmt"]["expr"]):
    key = w.pop("key")
    a = alone.get(w["stmt"]["expr"])
    verdict = key.split("|", 1)[0]
    if a is None:
      ck.inconclusive(f"no isolated re-run for {w['stmt']['expr']}")
      continue
    if a["verdict"] != verdict:
      # pytype's report for this line depends on the other lines of the module
      ck.count("context_dependent_" + verdict)
      w["verdict_alone"] = a
      w["module_stmts"] = batches.get(w.pop("module"), [])
      ck.violation(f"context-dependent|{verdict}|{w['stmt']['kind']}", w)
      continue
    w.pop("module", None)
    w["program"] = build_module([w["stmt"]])[0]
    ck.violation(key, w)
  ck.count("statements_generated", len(stmts))
  ck.count("modules", nmod)
  ck.extra["unflagged_failures_outside_converse_clause"] = {
      "distinct_skeletons": len(outside), "top": dict(outside.most_common(25))}
  ck.exhaustive = False
  ck.extra["exhaustive_slice"] = ("the whole statement grid of this tier is enumerated (no sampling); "
                                  "the seed only permutes module membership")
  ck.assumptions = [
      "CPython 3.12 evaluating the expression alone is the ground truth; only TypeError and "
      "AttributeError count as the failure pytype should predict",
      "the converse clause is limited to the advertised mistake kinds listed in the module docstring",
  ]
  if judged == 0:
    ck.inconclusive("no statement was judged")
  return ck.finish()


def replay(rec):
  w = rec["witness"]
  s = w["stmt"]
  if str(rec.get("key", "")).startswith("context-dependent"):
    ms = w.get("module_stmts") or []
    idx = [i for i, t in enumerate(ms) if t["expr"] == s["expr"]]
    if not idx:
      print("witness without its module: re-run the check with the same seed")
      return 2
    results, _ = judge_module(ms)
    v = results[idx[0]][0]
    va = judge_module([s])[0][0][0]
    print({"stmt": s["expr"], "verdict_in_module": v, "verdict_alone": va})
    if v in ("false-alarm", "miss") and rec.get("key") not in common.load_known(PID):
      print(f"VIOLATION property={PID} replay=<replayed>")
      print(f"  mechanism: {rec.get('key')}")
      return 1
    print("replay: no (unlisted) disagreement")
    return 0
  results, _ = judge_module([s])
  v, exc, msg, errs = results[0]
  print({"stmt": s["expr"], "cpython": [exc, msg], "pytype": errs, "verdict": v})
  if v in ("false-alarm", "miss") and rec.get("key") not in common.load_known(PID):
    print(f"VIOLATION property={PID} replay=<replayed>")
    print(f"  mechanism: {key_of(v, s)}")
    return 1
  print("replay: no (unlisted) disagreement")
  return 0
