"""C05 - every stub pytype emits is valid and a fixed point of parse∘print.

Workloads (all judged by vf/oracle/c05_roundtrip.check_text):
  programs   stubs emitted by io.generate_pyi for (a) vf.gen.programs programs,
             (b) the same with deliberately wrong statements appended ("junk"),
             (c) feature programs assembled from annotated snippets (generics,
             NamedTuple, Enum, TypedDict, Callable, Literal, overloads, ...).
             They are judged IN SITU: the Layer-A monitor on pytd_utils.Print sees
             the very AST io prints, so the structural comparison is against what
             was printed, not a reconstruction.
  units      TypeDeclUnits built directly by vf/gen/stubs.py in the emitted dialect,
             printed with the real printer, text judged as an emitted stub, both as
             NamedType ASTs and resolved through loader.resolve_ast (ClassType).
Children run under PYTHONHASHSEED 0 and 1.
"""
from __future__ import annotations

import collections
import hashlib
import random

from vf import common, pool

PID = "C05"
RULE = ("case = one stub text judged end to end (parse, VerifyVisitor, Print(parse(t))==t, second "
        "print fixed point, ASTeq of fresh parses, canonical_pyi idempotent, structural summary of "
        "the printed AST vs the re-read AST).  non-trivial = the printed AST has >=3 distinct pytd "
        "node kinds besides NamedType/ClassType/TypeDeclUnit; distinct = by node-kind multiset + "
        "sha1 of the text.")

# ---------------------------------------------------------------------------
# feature programs: annotated snippets whose stubs exercise output.py


# program-text spellings of values (raw strings: what appears in the analysed source)
ENUM_VALUES = ["1", "2", "'b'", r'"it' + "'" + r's"', r"""'say "x"'""", "b'x'", "(1, 2)", "None", "1.5",
               r"'café'", r"'new\nline'", "-1", "True"]
LITERAL_STRINGS = ["'a'", "'b c'", r'"it' + "'" + r's"', r"""'say "x"'""", r"'back\\slash'", "''",
                   r"'café'", "']'", "'['", "','", "'#c'", "'None'"]


def _snippets():
  S = []

  def add(f):
    S.append(f)
    return f

  @add
  def generic_class(r, k):
    b = r.choice(["", ", bound=int", ", int, str"])
    return f'''
T{k} = TypeVar('T{k}'{b})
class Box{k}(Generic[T{k}]):
  def __init__(self, x: T{k}) -> None:
    self.x = x
  def get(self) -> T{k}: return self.x
  @property
  def prop(self) -> {r.choice(["int", "Optional[str]", "List[T%d]" % k, "Tuple[int, ...]"])}: return {r.choice(["1", "None"])}
  @staticmethod
  def sm(a, b={r.choice(["1", "None", "'s'"])}): return a
  @classmethod
  def cm(cls, a: int = 3) -> 'Box{k}[int]': return cls(a)
  class Inner{k}:
    z = {r.choice(["1", "'a'", "b'x'", "[1]", "(1, 'a')"])}
    def f(self): return Box{k}.Inner{k}()
class Sub{k}(Box{k}[{r.choice(["int", "str", "List[int]"])}]):
  pass
b{k} = Box{k}({r.choice(["1", "'s'", "[1]", "None"])})
'''

  @add
  def namedtuples(r, k):
    return f'''
class NT{k}(NamedTuple):
  a: int
  b: {r.choice(["str", "Optional[int]", "List[str]", "Callable[[int], str]"])} = {r.choice(["'x'", "None"])}
  def meth(self): return self.a
NTf{k} = collections.namedtuple('NTf{k}', ['p', 'q'])
nt{k} = NT{k}(1)
ntf{k} = NTf{k}(1, 'a')
def use_nt{k}(x: NT{k}): return x.b
'''

  @add
  def enums(r, k):
    vals = r.sample(ENUM_VALUES, 3)
    return f'''
class Color{k}(enum.Enum):
  RED = {vals[0]}
  BLUE = {vals[1]}
  GREEN = {vals[2]}
  def describe(self): return self.name
class Num{k}(enum.IntEnum):
  ONE = 1
  TWO = 2
col{k} = Color{k}.RED
def pick{k}(c: Color{k}): return c.value
lit_e{k}: Literal[Color{k}.RED] = Color{k}.RED
'''

  @add
  def typeddicts(r, k):
    return f'''
class TD{k}(TypedDict{r.choice(["", ", total=False"])}):
  k: int
  v: {r.choice(["str", "Optional[int]", "List['TD%d']" % k, "Dict[str, int]"])}
TDf{k} = TypedDict('TDf{k}', {{'a': int, 'b': str}})
def mk_td{k}() -> TD{k}: return {{'k': 1, 'v': None}}
def use_tdf{k}(x: TDf{k}): return x['a']
'''

  @add
  def callables(r, k):
    return f'''
cb_a{k}: Callable[[int, str], bool] = lambda a, b: True
cb_b{k}: Callable[..., int] = lambda *a: 1
cb_c{k}: Callable[[], None] = lambda: None
cb_d{k}: Callable[[Callable[[int], str]], Optional[Callable[[], int]]] = lambda f: None
cb_e{k}: Optional[Callable[[Union[int, str]], Union[None, int]]] = None
cb_f{k}: Callable = len
cb_g{k}: List[Callable[[int], Callable[[str], Tuple[int, str]]]] = []
def hof{k}(f: Callable[[int], {r.choice(["int", "str", "None", "List[int]"])}], *fs: Callable[..., Any]): return f(1)
def mkf{k}(n):
  def inner(a, b=2): return a
  return inner
fn{k} = mkf{k}(1)
lam{k} = lambda x, y: (x, y)
'''

  @add
  def literals(r, k):
    strs = r.sample(LITERAL_STRINGS, 3)
    mix = r.choice(["1, 2", "True, False", "0, 'zero'", "b'x', b''", "-1, 255", "None, 1"])
    return f'''
lit_s{k}: Literal[{strs[0]}, {strs[1]}] = {strs[0]}
lit_t{k}: Literal[{strs[2]}] = {strs[2]}
lit_m{k}: Literal[{mix}] = {mix.split(",")[0]}
lit_b{k}: Literal[b'x'] = b'x'
def flag{k}(mode: Literal['r', 'w'] = 'r', n: Literal[1, 2, 3] = 1) -> Literal[True]: return True
def opt_lit{k}(x: Optional[Literal['a', 1]]) -> List[Literal[0]]: return [0]
'''

  @add
  def overloads(r, k):
    return f'''
@overload
def ov{k}(x: int) -> int: ...
@overload
def ov{k}(x: str, y: int = ...) -> str: ...
@overload
def ov{k}(x: None) -> None: ...
def ov{k}(x, y=0): return x
class Ov{k}:
  @overload
  def m(self, a: int) -> int: ...
  @overload
  def m(self, a: bytes, *rest: int) -> bytes: ...
  def m(self, a, *rest): return a
'''

  @add
  def params(r, k):
    return f'''
def star_a{k}(a, /, b, *args: int, c=1, d, **kw: str) -> None: pass
def star_b{k}(*, c=1): pass
def star_c{k}(*args, **kwargs): return args, kwargs
def star_d{k}(a: int = 1, /, b: str = 'x', *, c: Optional[int] = None): return (a, b, c)
def star_e{k}(print, list=1, str: int = 2, type=None, match=1): return list
def star_f{k}(*a: Tuple[int, str], **k: Dict[str, int]): return a
def dflt{k}(a=(), b=[], c={{}}, d=None, e=..., f=-1, g=1.5, h=b'x', i=int): return a
'''

  @add
  def tuples(r, k):
    return f'''
tup_a{k}: Tuple[()] = ()
tup_b{k}: Tuple[int] = (1,)
tup_c{k}: Tuple[int, ...] = (1,)
tup_d{k}: Tuple[int, str] = (1, 'a')
tup_e{k}: Tuple[Tuple[()], Tuple[int, ...], Tuple[Tuple[int, str], ...]] = ((), (1,), ())
tup_f{k} = (1, ('a', b'b', (None,)), [(1, 2)])
tup_g{k} = ()
def tup_h{k}(*args): return args
tup_i{k} = tup_h{k}(1, 'a')
'''

  @add
  def types_and_aliases(r, k):
    return f'''
class Base{k}: pass
class Der{k}(Base{k}): pass
ty_a{k}: Type[Base{k}] = Base{k}
ty_b{k}: Type[Union[int, str]] = int
ty_c{k}: Type[Any] = int
ty_d{k} = Der{k}
ty_e{k} = type(Der{k}())
Alias_a{k} = Union[int, str]
Alias_b{k} = List[Dict[str, Optional[int]]]
Alias_c{k} = Callable[[int], Optional[Base{k}]]
Alias_d{k} = Tuple[int, ...]
Alias_e{k} = Optional[Base{k}]
def ret_cls{k}(): return Base{k} if __random__ else Der{k}
def ret_inst{k}(f: bool): return Base{k}() if f else None
'''

  @add
  def unions(r, k):
    return f'''
def un_a{k}(x: int):
  if x: return 1
  elif x > 2: return 'a'
  elif x > 3: return None
  return [1.5]
def un_b{k}(x: Union[int, float, complex], y: Union[bytes, bytearray, memoryview] = b''): return x
def un_c{k}(x: Optional[Union[int, str]] = None) -> Union[None, List[int], Dict[str, Union[int, None]]]: return None
un_d{k} = [1, 'a', None, 2.5]
un_e{k} = {{1: 'a', 'b': 2}}
un_f{k} = 1 if __random__ else ('a' if __random__ else None)
'''

  @add
  def protocols(r, k):
    return f'''
class Proto{k}(Protocol):
  def m(self) -> int: ...
  x: int
TP{k} = TypeVar('TP{k}')
class GProto{k}(Protocol[TP{k}]):
  def get(self) -> TP{k}: ...
class Meta{k}(type):
  def __call__(cls, *a): return 1
class WithMeta{k}(metaclass=Meta{k}): pass
def takes_proto{k}(p: Proto{k}, g: GProto{k}[int]): return p.m()
'''

  @add
  def finals(r, k):
    return f'''
fin_a{k}: Final = 3
fin_b{k}: Final[int] = 3
fin_c{k}: Final[List[str]] = []
class Cv{k}:
  cv: ClassVar[int] = 1
  cw: ClassVar[Dict[str, List[int]]] = {{}}
  fz: Final = 'z'
  def __init__(self): self.inst = [self.cv]
@final
class Fin{k}:
  @final
  def m(self): return 1
'''

  @add
  def gens(r, k):
    return f'''
def gen_a{k}():
  yield 1
  return 'a'
def gen_b{k}(n: int) -> Iterator[str]:
  yield str(n)
async def co_a{k}(): return 1
async def co_b{k}(x: int) -> List[int]: return [x]
async def agen{k}():
  yield b'x'
def nr{k}() -> NoReturn: raise ValueError()
'''

  @add
  def slots_and_new(r, k):
    return f'''
class Sl{k}:
  __slots__ = ('a', 'b')
  def __init__(self): self.a = 1; self.b = 'x'
class SlEmpty{k}:
  __slots__ = ()
class SlEmptySub{k}(SlEmpty{k}):
  __slots__ = []
  def m(self): return 1
class Nw{k}:
  def __new__(cls, x): return super().__new__(cls)
  def __init_subclass__(cls, **kw): pass
  def __eq__(self, o): return True
  def __enter__(self): return self
  def __exit__(self, *a): return None
  def chain(self): return self
class Nw2{k}(Nw{k}): pass
nw{k} = Nw2{k}(1).chain()
'''

  @add
  def clashes(r, k):
    n = r.choice(["type", "match", "case", "print", "id", "nothing", "Any_", "property"])
    return f'''
{n} = {r.choice(["1", "'s'", "[1]"])}
class Shadow{k}:
  {n} = 2
  list = [1]
  def str(self): return 's'
  def uses(self, x: int) -> List[int]: return [x]
def clash{k}({n}=1): return {n}
'''

  @add
  def modules(r, k):
    return f'''
dd{k} = collections.defaultdict(int)
dq{k} = collections.deque([1])
od{k} = collections.OrderedDict([(1, 'a')])
ct{k} = collections.Counter('abc')
def mod_a{k}(x: collections.OrderedDict[str, int], y: 'collections.deque[bytes]'): return x
mod_b{k} = collections
mod_c{k} = enum.Enum
'''

  @add
  def typevars(r, k):
    return f'''
K{k} = TypeVar('K{k}', bound='TvBase{k}')
S{k} = TypeVar('S{k}', int, str)
class TvBase{k}:
  def me(self: K{k}) -> K{k}: return self
  @classmethod
  def make(cls: Type[K{k}]) -> K{k}: return cls()
def ident{k}(x: S{k}) -> S{k}: return x
def anystr{k}(x: AnyStr, y: AnyStr) -> AnyStr: return x
def first{k}(xs: Sequence[K{k}]) -> K{k}: return xs[0]
def pair{k}(a, b): return (b, a)
tv{k} = ident{k}
'''

  @add
  def containers(r, k):
    return f'''
ca{k}: Dict[str, List[Tuple[int, Optional[Set[bytes]]]]] = {{}}
cb{k}: FrozenSet[Tuple[int, ...]] = frozenset()
cc{k}: Mapping[str, Sequence[Iterable[int]]] = {{}}
cd{k} = [[], [[1]], {{}}]
ce{k} = {{'a': [], 'b': [()]}}
cf{k} = []
cg{k} = {{}}
ch{k} = set()
def ci{k}(x: Iterator[int], y: Generator[int, str, bytes], z: Awaitable[None]): return list(x)
'''

  @add
  def hidden_bases(r, k):
    # classes whose base is NOT visible at module scope: output._class_to_def folds the
    # base into the subclass (pytd_utils.MergeBaseClass); overridden and inherited members,
    # same and different types, 1-2 levels, optionally next to a visible base
    v1, v2 = r.sample(["1", "'s'", "b'x'", "[1]", "1.5", "None", "(1, 'a')"], 2)
    same = r.choice([v1, v1, v2])
    ret1, ret2 = r.sample(["1", "'s'", "[self]", "None", "b''", "{'k': 1}"], 2)
    how = r.choice(["factory", "factory_arg", "local_alias", "nested_in_class", "two_level"])
    visible = r.choice(["", "", f", Vis{k}"])
    parts = [f'''
class Vis{k}:
  vis_attr = 0
  def vis_m(self): return 0
  def shared{k}(self, a): return a
''']
    hidden_body = f'''
    limit = {v1}
    keep = {v2}
    def size(self): return {ret1}
    def label(self, x=1): return str(x)
    def shared{k}(self, a, b=2): return b
    @staticmethod
    def st(a): return a
    @classmethod
    def cm(cls): return cls
    @property
    def pr(self): return {ret1}
'''
    if how == "factory":
      parts.append(f"def make{k}():\n  class H{k}:{hidden_body}  return H{k}\n")
      base = f"make{k}()"
    elif how == "factory_arg":
      parts.append(f"def make{k}(flag):\n  class H{k}:{hidden_body}  return H{k}\n")
      base = f"make{k}(True)"
    elif how == "local_alias":
      parts.append(f"def make{k}():\n  class H{k}:{hidden_body}  return H{k}\n_Hidden{k} = make{k}()\n")
      parts.append(f"del_later{k} = 1\n")
      base = f"_Hidden{k}"
    elif how == "nested_in_class":
      ind = hidden_body.replace("\n    ", "\n      ")
      parts.append(f"class Outer{k}:\n  @staticmethod\n  def make():\n    class H{k}:{ind}    return H{k}\n")
      base = f"Outer{k}.make()"
    else:
      parts.append(f"def make{k}():\n  class G{k}:\n    deep = {v2}\n    limit = {v2}\n    def size(self): return {ret2}\n"
                   f"    def deep_m(self): return 1\n  class H{k}(G{k}):{hidden_body}  return H{k}\n")
      base = f"make{k}()"
    over = []
    if r.random() < 0.8:
      over.append(f"  def size(self): return {r.choice([ret1, ret2])}")
    if r.random() < 0.5:
      over.append(f"  limit = {r.choice([same, v2])}")
    if r.random() < 0.3:
      over.append(f"  def label(self, x=1, y=2): return y")
    if r.random() < 0.3:
      over.append(f"  @property\n  def pr(self): return {ret2}")
    if r.random() < 0.3:
      over.append(f"  @staticmethod\n  def st(a, b=1): return b")
    if r.random() < 0.3:
      over.append(f"  def shared{k}(self, a): return [a]")
    if r.random() < 0.3:
      over.append(f"  own = {v1}\n  def own_m(self): return self.limit")
    if not over:
      over.append("  pass")
    parts.append(f"class Widget{k}({base}{visible}):\n" + "\n".join(over) + "\n")
    if r.random() < 0.5:
      parts.append(f"class Sub{k}(Widget{k}):\n  def size(self): return 2.5\n  limit = 2.5\n")
    parts.append(f"w{k} = Widget{k}()\nws{k} = w{k}.size()\nwl{k} = w{k}.label()\n")
    if how == "local_alias":
      parts.append(f"del _Hidden{k}\n")
    return "".join(parts)

  return S


_SNIPPETS = None
FEATURE_HEADER = '''import collections
import enum
from typing import (Any, AnyStr, Awaitable, Callable, ClassVar, Dict, Final, FrozenSet, Generator, Generic,
                    Iterable, Iterator, List, Literal, Mapping, NamedTuple, NoReturn, Optional, Protocol,
                    Sequence, Set, Tuple, Type, TypeVar, TypedDict, Union, final, overload)
'''
RARE_DEFECT_SNIPPETS = [
    # each of these hits one genuine defect (see notes/C05.md); kept rare so that most
    # stubs are judged end to end
    "import collections as cc_{k}\nrare_a{k} = cc_{k}.deque([1])\n",
    "rare_b{k}: Literal[True, 1, 'x'] = 1\n",
    "RareTD{k} = TypedDict('RareTD{k}', {{'a-b': int, 'ok': str}})\ndef rare_c{k}(x: RareTD{k}): return x\n",
    "def rare_d{k}(f: Callable[[NoReturn], int]): return f\n",
    "tuple = 1\ndef rare_e{k}(*a: int): return a\n",
]


SHADOWED_TYPING_NAMES = ["Literal", "Optional", "Union", "Callable", "Any", "List"]


def shadow_program(name: str, form: int) -> str:
  """A module that defines its own `name` and reaches the typing construct of that name through `typing.`: the
  printer must fall back to `import typing` + `typing.<name>[...]` and the parser must read that back (seed C05-e)."""
  own = [f"class {name}:\n  pass", f"{name} = 3", f"def {name}(): return 1"][form % 3]
  use = f"own_inst = {name}()" if form % 3 == 0 else f"own_inst = {name}"
  return f'''import typing
{own}
def own_f(mode: typing.Literal['r', 'w'] = 'r', o: typing.Optional[int] = None) -> typing.Literal[True]: return True
own_x: typing.Literal[1, 2] = 1
own_y: typing.Optional[typing.List[int]] = None
def own_g(f: typing.Callable[[int], str], u: typing.Union[int, str]) -> typing.Any: return f
{use}
'''


def feature_program(rng: random.Random) -> str:
  global _SNIPPETS
  if _SNIPPETS is None:
    _SNIPPETS = _snippets()
  n = rng.choice([1, 2, 3, 4])
  parts = [FEATURE_HEADER]
  for k, f in enumerate(rng.sample(_SNIPPETS, n)):
    parts.append(f(rng, k))
  if rng.random() < 0.15:
    # hidden (folded-in) base classes: output._class_to_def / MergeBaseClass
    hb = next(f for f in _SNIPPETS if f.__name__ == "hidden_bases")
    parts.append(hb(rng, 8))
  if rng.random() < 0.05:
    parts.append(rng.choice(RARE_DEFECT_SNIPPETS).format(k=9))
  return "\n".join(parts)


JUNK = [
    "bad_a = 1 + 'a'", "undefined_name_zz", "bad_b = None.foo", "def bad_c(x: 3): return x",
    "from typing import List\nbad_d: List[int, int] = []", "class Bad_e(1): pass", "bad_f = [1]['a']",
    "def bad_g(x: 'Unknown_zz') -> 'AlsoUnknown_zz': return x", "import nonexistent_mod_zz",
    "from nonexistent_pkg_zz import thing_zz\nbad_h = thing_zz.attr", "bad_i = len(1, 2, 3)",
    "class Bad_j:\n  def m(self): return self.missing_attr\nbad_k = Bad_j().m().q",
    "bad_l: int = 'str'", "def bad_m(*, a): pass\nbad_m(1)", "bad_n = {[]: 1}",
    "def bad_o() -> int: return 'x'", "class Bad_p(Bad_p): pass" if False else "bad_p = bad_p_undefined + 1",
    "from typing import Dict\ndef bad_q(x: Dict[int]): return x", "bad_r = (lambda: 1)(2)",
    "import os\nbad_s = os.path.join('a', 1)", "def bad_t(x=bad_t_undefined): return x",
    "class Bad_u:\n  x: 'NoSuch_zz' = 1\n  def f(self) -> 'Bad_u.Nope': return self",
    "from typing import TypeVar\nTbad = TypeVar('Tbad', bound=3)\ndef bad_v(x: Tbad) -> Tbad: return x",
    "from typing import Generic, TypeVar\nTb2 = TypeVar('Tb2')\nclass Bad_w(Generic[Tb2, Tb2]): pass",
    "bad_x = int('a', 'b', 'c')", "for bad_y in 5: pass", "with 3 as bad_z: pass",
    "from typing import Callable\nbad_aa: Callable[int, str] = None", "assert_type(1, str)",
    "from typing import Literal\nbad_ab: Literal[1.5] = 1.5", "bad_ac: 'list[' = []",
    "class Bad_ad(int, str): pass", "def bad_ae(self): return super().x\nbad_ae(1)",
    "bad_af = __any_object__.foo.bar[0]()", "del bad_ag_undefined", "bad_ah = 1\nbad_ah.attr = 2",
]


def junk_program(rng: random.Random) -> str:
  from vf.gen import programs
  src = programs.generate(random.Random(rng.randrange(1 << 30)))
  extra = rng.sample(JUNK, rng.choice([2, 3, 4, 6]))
  lines = src.split("\n")
  # put some junk at top level between statements and some at the end
  out = []
  pending = list(extra)
  for ln in lines:
    if pending and ln and not ln[0].isspace() and not ln.startswith(("else", "elif", "except", "finally")) \
        and rng.random() < 0.08:
      out.append(pending.pop())
    out.append(ln)
  out.extend(pending)
  return "\n".join(out) + "\n"


# ---------------------------------------------------------------------------
# children


def _fp_of(unit, text):
  from vf.gen import stubs
  kinds = stubs.node_kinds(unit)
  for k in ("NamedType", "ClassType", "TypeDeclUnit"):
    kinds.pop(k, None)
  nontrivial = len(kinds) >= 3
  return (common.fp([sorted(kinds.items()), hashlib.sha1(text.encode()).hexdigest()]),
          nontrivial, kinds)


def _strip(w, limit=6000):
  """Keeps witnesses replayable but bounded."""
  out = {}
  for k, v in w.items():
    if isinstance(v, str) and len(v) > limit:
      v = v[:limit] + "...<cut>"
    out[k] = v
  return out


def child(arg):
  """kind = programs | units."""
  from vf.oracle import c05_roundtrip as rt
  kind = arg["kind"]
  out = {"n": 0, "fps": [], "violations": [], "samples": [], "counters": {}, "kinds": {},
         "errors_seen": {}}
  cnt = collections.Counter()
  kinds_seen = collections.Counter()
  errs = collections.Counter()

  if kind == "programs":
    from vf import pt
    from vf.gen import programs
    from pytype.pytd import pytd_utils
    captured = []
    rt.install_monitor()
    # capture the (unit, text) pairs the monitor judged, for fingerprints
    mon_print = pytd_utils.Print

    def tap(ast, multiline_args=False):
      text = mon_print(ast, multiline_args)
      from pytype.pytd import pytd
      if isinstance(ast, pytd.TypeDeclUnit) and not getattr(rt._state, "busy", False):  # pylint: disable=protected-access
        captured.append((ast, text))
      return text

    pytd_utils.Print = tap
    try:
      for spec in arg["cases"]:
        flavour, seed = spec
        rng = random.Random(seed)
        if flavour == "gen":
          src = programs.generate(rng)
        elif flavour == "junk":
          src = junk_program(rng)
        elif flavour == "shadow":
          src = shadow_program(SHADOWED_TYPING_NAMES[seed % len(SHADOWED_TYPING_NAMES)],
                               seed // len(SHADOWED_TYPING_NAMES))
        else:
          src = feature_program(rng)
        del captured[:]
        before = rt.COUNTERS["evaluations"]
        try:
          res = pt.analyze(src)
        except Exception as e:  # pylint: disable=broad-except
          cnt["analysis_raised_not_judged"] += 1
          cnt["analysis_raised:" + type(e).__name__] += 1
          rt.drain()
          continue
        cnt["programs_analysed:" + flavour] += 1
        if "class Widget" in src:
          cnt["programs_with_hidden_base_class"] += 1
        for name, _, _ in res.errors:
          errs[name] += 1
        if res.errors:
          cnt["programs_with_errors"] += 1
        vs = rt.drain()
        judged = rt.COUNTERS["evaluations"] - before
        if judged == 0:
          # the monitor was bypassed: judge the returned text directly
          cnt["monitor_missed"] += 1
          vs = rt.check_text(res.pyi, emitted=True, unit=res.ast, counters=rt.COUNTERS)
          captured.append((res.ast, res.pyi))
          judged = 1
        # what generate_pyi returned must be the judged text + "\n"
        if captured and captured[-1][1] + "\n" != res.pyi and not res.pyi.startswith("# (generated"):
          cnt["returned_text_differs_from_printed"] += 1
        out["n"] += judged
        for unit, text in captured:
          fp, nontrivial, kinds = _fp_of(unit, text)
          kinds_seen.update(kinds.keys())
          if nontrivial:
            out["fps"].append(fp)
        for w in vs:
          w = _strip(w)
          w.update({"source": flavour, "program": src, "seed": seed, "hashseed": arg.get("hashseed")})
          out["violations"].append(w)
        if len(out["samples"]) < 2 and flavour != "gen":
          out["samples"].append({"source": flavour, "errors": sorted({e[0] for e in res.errors}),
                                 "stub_head": res.pyi[:600]})
    finally:
      pytd_utils.Print = mon_print
    cnt.update({"monitor:" + k: v for k, v in rt.COUNTERS.items()})
  elif kind == "units":
    from vf.gen import stubs
    from pytype.pytd import pytd_utils
    from pytype import load_pytd
    from vf import pt
    loader = None
    for i in range(arg["count"]):
      seed = f"{arg['seed']}-{i}"
      rng = random.Random(seed)
      try:
        unit = stubs.generate_unit(rng, canonical=rng.random() < 0.85)
      except Exception as e:  # pylint: disable=broad-except
        cnt["generator_error"] += 1
        cnt["generator_error:" + type(e).__name__] += 1
        continue
      variants = [("named", unit)]
      if arg.get("resolve") and i % 2 == 0:
        try:
          if loader is None:
            loader = load_pytd.create_loader(pt.options())
          variants.append(("resolved", stubs.resolve_unit(unit, loader)))
        except Exception as e:  # pylint: disable=broad-except
          cnt["resolve_failed_not_judged"] += 1
          cnt["resolve_failed:" + type(e).__name__] += 1
      for vname, u in variants:
        try:
          text = pytd_utils.Print(u)
        except Exception as e:  # pylint: disable=broad-except
          cnt["printer_rejected_unit(generator error)"] += 1
          cnt["printer_rejected:" + type(e).__name__] += 1
          continue
        vs = rt.check_text(text, emitted=True, unit=u, counters=cnt)
        out["n"] += 1
        cnt["units_judged:" + vname] += 1
        fp, nontrivial, kinds = _fp_of(u, text)
        kinds_seen.update(kinds.keys())
        if nontrivial:
          out["fps"].append(fp)
        for w in vs:
          w = _strip(w)
          w.update({"source": "unit/" + vname, "seed": seed, "hashseed": arg.get("hashseed")})
          out["violations"].append(w)
        if i < 1 and vname == "named":
          out["samples"].append({"source": "unit", "seed": seed, "stub_head": text[:600]})
  out["counters"] = dict(cnt)
  out["kinds"] = dict(kinds_seen)
  out["errors_seen"] = dict(errs)
  return out


# ---------------------------------------------------------------------------
# driver


def _tasks(tier, seed):
  rng = random.Random(f"{PID}-{seed}-{tier}")
  if tier == "quick":
    n_prog_batches, per_batch, n_unit_batches, units_per = 12, 14, 8, 45
  else:
    n_prog_batches, per_batch, n_unit_batches, units_per = 48, 42, 32, 200
  tasks = []
  for b in range(n_prog_batches):
    cases = []
    for j in range(per_batch):
      flavour = ("gen", "junk", "feat", "feat")[j % 4]
      cases.append([flavour, rng.randrange(1 << 40)])
    hs = str(b % 2)
    tasks.append({"fn": "vf.checks.c05:child", "id": f"prog{b}", "timeout": 2400, "hashseed": hs,
                  "arg": {"kind": "programs", "cases": cases, "hashseed": hs}})
  # fixed batch, the same in both tiers and for every seed: every shadowed typing name x every defining form
  tasks.append({"fn": "vf.checks.c05:child", "id": "shadow", "timeout": 2400, "hashseed": "0",
                "arg": {"kind": "programs", "hashseed": "0",
                        "cases": [["shadow", i] for i in range(3 * len(SHADOWED_TYPING_NAMES))]}})
  for b in range(n_unit_batches):
    hs = str(b % 2)
    tasks.append({"fn": "vf.checks.c05:child", "id": f"unit{b}", "timeout": 2400, "hashseed": hs,
                  "arg": {"kind": "units", "seed": f"{PID}-{seed}-{tier}-u{b}", "count": units_per,
                          "resolve": True, "hashseed": hs}})
  return tasks


def run(tier, seed) -> int:
  ck = common.Check(PID, tier, seed, rule=RULE)
  kinds = collections.Counter()
  errs = collections.Counter()
  for res in pool.run_tasks(_tasks(tier, seed)):
    if not res.get("ok"):
      ck.child_failed(res, "batch " + str(res.get("task")))
      continue
    r = res["result"]
    ck.merge_cases(r["n"], r["fps"])
    for s in r["samples"]:
      ck.sample(s)
    for k, v in r["counters"].items():
      ck.count(k, v)
    kinds.update(r["kinds"])
    errs.update(r["errors_seen"])
    for w in r["violations"]:
      ck.violation(w["key"], w)
  ck.extra["pytd_node_kinds_seen_in_printed_asts"] = dict(kinds)
  ck.extra["pytype_error_classes_in_analysed_programs"] = dict(errs)
  ck.assumptions = [
      "parse_string is called as parser.canonical_pyi calls it (no module name, python_version 3.12)",
      "typeshed is empty: only builtins/typing/collections/enum/attr stubs resolve; other imports are Any",
      "the structural summary normalises only: builtins./module prefix, self/cls abbreviation, union order, "
      "PEP 484 numeric shortening in parameters, Never==nothing, __new__ kind, sole base object, plain imports "
      "added by the printer",
  ]
  mon = ck.counters.get("monitor:evaluations", 0)
  if mon == 0:
    ck.inconclusive("the pytd_utils.Print monitor never evaluated an emitted stub")
  if not any(k.startswith("units_judged") for k in ck.counters):
    ck.inconclusive("no generated unit was judged")
  if ck.counters.get("structure_checked", 0) + ck.counters.get("monitor:structure_checked", 0) == 0:
    ck.inconclusive("the structural comparison never ran")
  return ck.finish()


def replay(rec) -> int:
  from vf import boot
  boot.activate()
  from vf.oracle import c05_roundtrip as rt
  w = rec["witness"]
  unit = None
  text = w.get("text")
  if str(w.get("source", "")).startswith("unit"):
    from vf.gen import stubs
    from pytype.pytd import pytd_utils
    rng = random.Random(w["seed"])
    unit = stubs.generate_unit(rng, canonical=rng.random() < 0.85)
    if w["source"].endswith("resolved"):
      from pytype import load_pytd
      from vf import pt
      unit = stubs.resolve_unit(unit, load_pytd.create_loader(pt.options()))
    text = pytd_utils.Print(unit)
    vs = rt.check_text(text, emitted=True, unit=unit)
  elif w.get("program"):
    from vf import pt
    rt.install_monitor()
    res = pt.analyze(w["program"])
    vs = rt.drain() or rt.check_text(res.pyi, emitted=True, unit=res.ast)
  else:
    vs = rt.check_text(text, emitted=True)
  hit = [x for x in vs if x["key"] == rec["key"]]
  print(f"replay C05: {len(vs)} violation(s), {len(hit)} with the recorded mechanism")
  for x in vs[:5]:
    print("  mechanism:", x["key"])
  if hit:
    print("VIOLATION property=C05 replay=<replayed>")
    print("  mechanism:", rec["key"])
    return 1
  return 0
