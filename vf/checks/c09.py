"""C09 - CFG reachability answers equal true graph reachability at all times.

Monitor: shadow edge list + BFS (from scratch, no incremental closure) compared
with Program.is_reachable for all ordered pairs after insertion steps; the
single-binding fast path of Variable.Bindings(viewpoint) is compared too.
Workloads run once against the plain build and once under ASan+UBSan.
"""
from __future__ import annotations

import itertools
import random

from vf import common, pool

PID = "C09"
SIZES = [3, 8, 63, 64, 65, 127, 128, 129, 200, 400]


# --------------------------------------------------------------------------
# child side


class Shadow:
  """Independent model: adjacency sets, BFS on demand."""

  def __init__(self):
    self.succ = []

  def add_node(self):
    self.succ.append(set())
    return len(self.succ) - 1

  def add_edge(self, a, b):
    self.succ[a].add(b)

  def reach_from(self, a):
    seen = {a}
    stack = [a]
    while stack:
      x = stack.pop()
      for y in self.succ[x]:
        if y not in seen:
          seen.add(y)
          stack.append(y)
    return seen


class Driver:
  """Applies an op list to a real Program and a Shadow in lock step."""

  def __init__(self):
    from pytype.typegraph import cfg
    self.p = cfg.Program()
    self.nodes = []
    self.sh = Shadow()
    self.ops = []
    self.pair_checks = 0
    self.compare_points = 0
    self.nontrivial_points = 0
    self.binding_checks = 0

  def apply(self, op):
    self.ops.append(op)
    k = op[0]
    if k == "n":
      self.nodes.append(self.p.NewCFGNode(f"n{len(self.nodes)}"))
      self.sh.add_node()
    elif k == "e":
      _, a, b = op
      self.nodes[a].ConnectTo(self.nodes[b])
      self.sh.add_edge(a, b)
    elif k == "c":  # ConnectNew from a
      _, a = op
      self.nodes.append(self.nodes[a].ConnectNew(f"n{len(self.nodes)}"))
      b = self.sh.add_node()
      self.sh.add_edge(a, b)
    else:
      raise ValueError(op)

  def compare(self, rows=None):
    """Returns a witness dict on disagreement, else None."""
    n = len(self.nodes)
    self.compare_points += 1
    srcs = range(n) if rows is None else rows
    isr = self.p.is_reachable
    nodes = self.nodes
    some_reach = some_unreach = False
    for a in srcs:
      exp = self.sh.reach_from(a)
      na = nodes[a]
      for b in range(n):
        got = isr(na, nodes[b])
        want = b in exp
        if got != want:
          return {"ops": self.ops, "src": a, "dst": b, "got": got, "expected": want,
                  "what": "is_reachable"}
        if want and a != b:
          some_reach = True
        if not want:
          some_unreach = True
      self.pair_checks += n
    if some_reach and some_unreach:
      self.nontrivial_points += 1
    return None

  def compare_single_binding(self, rng, k=6):
    """Variable.Bindings(viewpoint) with one binding == any origin node reaches viewpoint."""
    n = len(self.nodes)
    if n == 0:
      return None
    for _ in range(k):
      v = self.p.NewVariable()
      where = sorted(rng.sample(range(n), rng.choice([1, 1, 2, 3]) if n >= 3 else 1))
      data = object()
      b = None
      for w in where:
        b = v.AddBinding(data, [], self.nodes[w])
      reach_any = set()
      for w in where:
        reach_any |= self.sh.reach_from(w)
      for vp in (rng.sample(range(n), min(n, 12))):
        got = len(v.Bindings(self.nodes[vp])) == 1
        want = vp in reach_any
        self.binding_checks += 1
        if got != want:
          return {"ops": self.ops, "origins": where, "viewpoint": vp, "got": got,
                  "expected": want, "what": "Variable.Bindings single-binding fast path"}
    return None


def _bucket(n):
  return (n + 63) // 64


def run_ops(ops, every=1, rows_rng=None, full_limit=130, check_bindings=None):
  d = Driver()
  since = 0
  for op in ops:
    d.apply(op)
    since += 1
    if since >= every:
      since = 0
      n = len(d.nodes)
      rows = None
      if n > full_limit and rows_rng is not None:
        rows = rows_rng.sample(range(n), 12)
      w = d.compare(rows)
      if w:
        return d, w
  n = len(d.nodes)
  rows = None
  if n > 260 and rows_rng is not None:
    rows = rows_rng.sample(range(n), 60)
  w = d.compare(rows)
  if w:
    return d, w
  if check_bindings is not None:
    w = d.compare_single_binding(check_bindings)
    if w:
      return d, w
  return d, None


def gen_exhaustive(max_nodes, max_len):
  """All op sequences of length<=max_len over <=max_nodes nodes (self/dup edges included)."""
  def rec(prefix, n, remaining):
    yield prefix
    if not remaining:
      return
    if n < max_nodes:
      yield from rec(prefix + [("n",)], n + 1, remaining - 1)
      if n:
        for a in range(n):
          yield from rec(prefix + [("c", a)], n + 1, remaining - 1)
    for a in range(n):
      for b in range(n):
        yield from rec(prefix + [("e", a, b)], n, remaining - 1)
  yield from rec([], 0, max_len)


def gen_random(rng, n, style):
  ops = []
  if style == "plain":
    ops = [("n",)] * n
    m = rng.choice([n // 2, n, 2 * n, 3 * n])
    for _ in range(m):
      ops.append(("e", rng.randrange(n), rng.randrange(n)))
  elif style == "interleaved":
    cur = 0
    while cur < n:
      r = rng.random()
      if cur == 0 or r < 0.35:
        ops.append(("n",)); cur += 1
      elif r < 0.55:
        ops.append(("c", rng.randrange(cur))); cur += 1
      else:
        ops.append(("e", rng.randrange(cur), rng.randrange(cur)))
    for _ in range(n // 2):
      ops.append(("e", rng.randrange(n), rng.randrange(n)))
  elif style == "two_components_bridge":
    ops = [("n",)] * n
    h = n // 2
    for _ in range(n):
      ops.append(("e", rng.randrange(h), rng.randrange(h)))
      ops.append(("e", h + rng.randrange(n - h), h + rng.randrange(n - h)))
    ops.append(("e", rng.randrange(h), h + rng.randrange(n - h)))
    if rng.random() < 0.5:
      ops.append(("e", h + rng.randrange(n - h), rng.randrange(h)))
  elif style == "chain_backwards":
    ops = [("n",)] * n
    order = list(range(n))
    rng.shuffle(order)
    for i in range(n - 2, -1, -1):
      ops.append(("e", order[i], order[i + 1]))
    if rng.random() < 0.5:
      ops.append(("e", order[-1], order[0]))  # close the cycle
  elif style == "cycles":
    ops = [("n",)] * n
    i = 0
    while i < n:
      L = rng.randrange(1, 8)
      cyc = list(range(i, min(n, i + L)))
      for a, b in zip(cyc, cyc[1:] + cyc[:1]):
        ops.append(("e", a, b))
      i += L
    for _ in range(max(1, n // 8)):
      ops.append(("e", rng.randrange(n), rng.randrange(n)))
  elif style == "dag_dense":
    ops = [("n",)] * n
    pairs = [(a, b) for a in range(n) for b in range(a + 1, n) if rng.random() < min(1.0, 6.0 / n)]
    rng.shuffle(pairs)
    ops += [("e", a, b) for a, b in pairs]
  else:
    raise ValueError(style)
  return ops


STYLES = ["plain", "interleaved", "two_components_bridge", "chain_backwards", "cycles", "dag_dense"]


def child(arg):
  """One batch. arg: {kind, ...}. Returns stats and witnesses."""
  kind = arg["kind"]
  out = {"histories": 0, "pair_checks": 0, "compare_points": 0, "nontrivial_points": 0,
         "binding_checks": 0, "violations": [], "fps": [], "buckets": {}, "samples": []}

  def account(d, w, tag):
    out["histories"] += 1
    out["pair_checks"] += d.pair_checks
    out["compare_points"] += d.compare_points
    out["nontrivial_points"] += d.nontrivial_points
    out["binding_checks"] += d.binding_checks
    b = str(_bucket(len(d.nodes)))
    out["buckets"][b] = out["buckets"].get(b, 0) + 1
    if d.nontrivial_points:
      out["fps"].append(common.fp(d.ops))
    if w:
      w["tag"] = tag
      out["violations"].append(w)

  if kind == "exhaustive":
    for ops in gen_exhaustive(arg["max_nodes"], arg["max_len"]):
      if arg.get("shard") is not None:
        if hash(tuple(ops)) % arg["nshards"] != arg["shard"]:
          continue
      d, w = run_ops(ops, every=1)
      account(d, w, "exhaustive")
    out["samples"].append({"kind": "exhaustive", "ops": [list(o) for o in ops]})
  elif kind == "digraph4":
    rng = random.Random(arg["seed"])
    n = 4
    edges = [(a, b) for a in range(n) for b in range(n) if a != b]
    lo, hi = arg["range"]
    for mask in range(lo, hi):
      es = [e for i, e in enumerate(edges) if mask >> i & 1]
      orders = [es, es[::-1]]
      for _ in range(arg["orders"]):
        o = es[:]
        rng.shuffle(o)
        orders.append(o)
      for o in orders:
        ops = [("n",)] * n + [("e", a, b) for a, b in o]
        d, w = run_ops(ops, every=1)
        account(d, w, "digraph4")
  elif kind == "random":
    rng = random.Random(arg["seed"])
    for i in range(arg["count"]):
      n = arg["sizes"][i % len(arg["sizes"])]
      style = rng.choice(STYLES)
      ops = gen_random(rng, n, style)
      every = 1 if n <= 8 else max(1, len(ops) // arg.get("points", 6))
      d, w = run_ops(ops, every=every, rows_rng=rng, check_bindings=rng)
      account(d, w, f"random/{style}/n={n}")
      if i < 2:
        out["samples"].append({"kind": style, "n": n, "ops_head": [list(o) for o in ops[-6:]],
                               "n_ops": len(ops)})
  return out


# --------------------------------------------------------------------------
# driver side


def _tasks(tier, seed):
  tasks = []
  rng = random.Random(f"C09-{seed}")
  if tier == "quick":
    ex = [("exhaustive", 3, 4)]
    dig_orders, rnd_batches, rnd_count = 1, 12, 10
    sizes = SIZES
  else:
    ex = [("exhaustive", 3, 5)]
    dig_orders, rnd_batches, rnd_count = 6, 64, 30
    sizes = SIZES + [191, 192, 193, 256, 257, 320]
  for variant in ("plain", "asan"):
    for kind, mn, ml in ex:
      nsh = 4 if tier == "quick" else 16
      if variant == "asan" and tier == "quick":
        ml = 4
      for s in range(nsh):
        tasks.append({"fn": "vf.checks.c09:child", "variant": variant, "timeout": 1500,
                      "id": f"{variant}/exh{mn}x{ml}/{s}",
                      "arg": {"kind": kind, "max_nodes": mn, "max_len": ml, "shard": s, "nshards": nsh}})
    step = 1024
    for lo in range(0, 4096, step):
      tasks.append({"fn": "vf.checks.c09:child", "variant": variant, "timeout": 1500,
                    "id": f"{variant}/dig4/{lo}",
                    "arg": {"kind": "digraph4", "range": [lo, lo + step], "orders": dig_orders,
                            "seed": rng.randrange(1 << 30)}})
    nb = rnd_batches if variant == "plain" else max(4, rnd_batches // 3)
    for b in range(nb):
      tasks.append({"fn": "vf.checks.c09:child", "variant": variant, "timeout": 1500,
                    "id": f"{variant}/rnd/{b}",
                    "arg": {"kind": "random", "count": rnd_count, "sizes": sizes,
                            "seed": rng.randrange(1 << 30)}})
  return tasks


def run(tier, seed):
  ck = common.Check(
      PID, tier, seed,
      rule=("insertion histories (NewCFGNode/ConnectNew/ConnectTo incl. self and duplicate edges): "
            "all op sequences over <=3 nodes up to a length bound, all digraphs on 4 nodes in several "
            "insertion orders, random histories with node counts crossing 1..7 64-bit buckets in six "
            "adversarial styles; after insertion steps every ordered pair is compared with a from-scratch "
            "BFS over the shadow edge list. evaluations = compared histories; non-trivial = history with a "
            "comparison point having both a reachable non-identical pair and an unreachable pair; distinct "
            "by op-list hash. Repeated under ASan+UBSan."))
  from vf import boot
  boot.build_ext("asan")
  tasks = _tasks(tier, seed)
  ex_complete = True
  by_variant = {"plain": 0, "asan": 0}
  for res in pool.run_tasks(tasks):
    if not res.get("ok"):
      ck.child_failed(res, f"C09 batch {res.get('task')}")
      if "exh" in str(res.get("task")):
        ex_complete = False
      continue
    if pool.sanitizer_report(res):
      ck.violation("sanitizer-report", {"task": res.get("task"), "report": res["stderr"]})
    r = res["result"]
    variant = str(res.get("task")).split("/")[0]
    by_variant[variant] += r["histories"]
    ck.merge_cases(r["histories"], r["fps"])
    ck.count("pair_checks", r["pair_checks"])
    ck.count("compare_points", r["compare_points"])
    ck.count("nontrivial_compare_points", r["nontrivial_points"])
    ck.count("single_binding_checks", r["binding_checks"])
    for b, n in r["buckets"].items():
      ck.count(f"histories_ending_with_{b}_bucket(s)", n)
    for s in r["samples"]:
      ck.sample(s)
    for w in r["violations"]:
      ck.violation(f"{w['what']} disagrees with BFS", w)
  ck.extra["histories_by_build"] = by_variant
  ck.extra["sanitizer_reports"] = sum(1 for k, _ in ck.violations if k == "sanitizer-report")
  ck.extra["exhaustive_slice"] = "all op sequences over <=3 nodes, length <= %d" % (4 if tier == "quick" else 5)
  ck.exhaustive = False
  ck.extra["exhaustive_slice_complete"] = ex_complete
  ck.assumptions = ["BFS over the shadow edge list is the definition of reachability",
                    "ASan red zones miss intra-object and far out-of-bounds accesses"]
  if ck.counters["pair_checks"] == 0:
    ck.inconclusive("no pair was compared")
  if by_variant["asan"] == 0:
    ck.inconclusive("sanitizer build produced no observations")
  return ck.finish()


def replay(rec):
  w = rec["witness"]
  if "ops" not in w:
    print("sanitizer witness: re-run the check")
    return 2
  ops = [tuple(o) for o in w["ops"]]
  d, w2 = run_ops(ops, every=1)
  if w2:
    print(f"VIOLATION property={PID} replay=<replayed>")
    print(w2)
    return 1
  print("replay: no disagreement")
  return 0
