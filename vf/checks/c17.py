"""C17 - boolean-equation terms: construction and simplification preserve meaning.

Oracle (vf/oracle/c17_eval.py): an independent brute-force evaluator that reads
only the data attributes of real booleq terms and computes their truth table over
ALL assignments variables -> values of a small universe.

Driver B (enumeration, public constructors booleq.Eq/And/Or only):
  level 0 = TRUE, FALSE, Eq(x, y) for every variable x and every variable or value
            y in both argument orders (reflexive and variable-variable included);
  level k = And([s, t]) / Or([s, t]) for s, t among the distinct results of the
            levels below (distinct by an own canonical form, not by the code's
            __eq__/__hash__).
  (1) truth(result) == connective(truth(s), truth(t)) under every assignment;
  (2) an _And/_Or result has no TRUE/FALSE and no term of its own kind as an
      immediate sub-term;
  (3) for tables P (a non-empty subset of the values for every variable):
      truth(t) == truth(t.simplify(P)) under every assignment drawn from P.
  extract_equalities / extract_pivots are observed (counters), not judged.
Layer A: the same monitors are hooked into booleq.And/Or/Eq and the three
simplify methods while booleq.Solver.solve runs on generated constraint systems
shaped like the ones convert_structural/type_match build; the solver's result is
compared with brute force as an observation (not judged: the property statement
is about terms).
Children run with PYTHONHASHSEED 0, 1, 2 because terms hold Python sets.
"""
from __future__ import annotations

import itertools
import random

from vf import common, pool
from vf.oracle import c17_eval as E

PID = "C17"

UNIVERSES = {
    "2x2": (["~a", "~b"], ["v1", "v2"]),
    "3x3": (["~a", "~b", "~c"], ["v1", "v2", "v3"]),
}
HASHSEEDS = ["0", "1", "2"]
MAXV = 12        # witnesses kept per child


# ---------------------------------------------------------------------------
# child side: enumeration


ABORT_AFTER = 300


class Abort(Exception):
  def __init__(self, ctx):
    super().__init__("too many violations")
    self.ctx = ctx


class Ctx:
  """Per-child state: universe, evaluator, counters, witnesses."""

  def __init__(self, uname, hashseed):
    from pytype.pytd import booleq as B
    self.B = B
    self.uname = uname
    self.hashseed = hashseed
    vs, vals = UNIVERSES[uname]
    self.u = E.Universe(vs, vals)
    self.ev = E.Evaluator(B, self.u)
    self.c = {}
    self.violations = []
    self.nviol = 0
    self.samples = []
    self.tables = None
    self.cases = 0      # oracle evaluations
    self.nt = 0         # distinct-by-construction non-trivial cases

  def count(self, k, n=1):
    self.c[k] = self.c.get(k, 0) + n

  def viol(self, key, **w):
    self.nviol += 1
    if len(self.violations) < MAXV:
      w.update({"key": key, "universe": self.uname, "hashseed": self.hashseed})
      self.violations.append(w)
    if self.nviol >= ABORT_AFTER:
      raise Abort(self)   # a broken tree can make the term space explode: report what we have

  def first_diff(self, m1, m2, within=None):
    d = m1 ^ m2
    if within is not None:
      d &= within
    i = (d & -d).bit_length() - 1
    return self.u.assignment(i)

  def all_tables(self):
    if self.tables is None:
      subsets = []
      vals = self.u.vals
      for r in range(1, len(vals) + 1):
        subsets += [list(c) for c in itertools.combinations(vals, r)]
      out = []
      for combo in itertools.product(subsets, repeat=len(self.u.vars)):
        tab = {x: set(vs) for x, vs in zip(self.u.vars, combo)}
        out.append((tab, self.u.table_mask(tab), {x: sorted(v) for x, v in tab.items()}))
      self.tables = out
    return self.tables


def _argkinds(args):
  return ",".join(sorted({type(a).__name__ for a in args})) or "no arguments"


def check_construct(ctx, opname, args, exprs, container="list", fresh=False, count=True):
  """Guard: any RecursionError while judging means some term has become cyclic (contains itself),
  which only a constructor mutating an earlier-built term can cause."""
  try:
    return _check_construct(ctx, opname, args, exprs, container, fresh, count)
  except RecursionError:
    ctx.viol(f"{opname}(...): a term built by the public constructors has become cyclic (contains itself): "
             "an earlier-built term was mutated by a constructor", expr=[opname, exprs], container=container)
    return None


def _check_construct(ctx, opname, args, exprs, container="list", fresh=False, count=True):
  """One call of And/Or on already-built terms; returns the result (or None).

  fresh: this (op, ordered argument list) is visited exactly once by the enumeration
  (counts towards distinct_nontrivial if the arguments mention >= 2 variables)."""
  B, ev = ctx.B, ctx.ev
  if count:
    ctx.cases += 1
    if fresh:
      vs = set()
      for a in args:
        vs |= ev.variables_of(a)
      ctx.nt += len(vs) >= 2
  op = B.And if opname == "And" else B.Or
  masks = [ev.mask(a) for a in args]
  if container == "list":
    inp = list(args)
  elif container == "tuple":
    inp = tuple(args)
  elif container == "generator":
    inp = (a for a in args)
  elif container == "set":
    inp = set(args)
  else:
    raise ValueError(container)
  if count:
    ctx.count("construct_evals")
  try:
    r = op(inp)
  except Exception as e:  # pylint: disable=broad-except
    ctx.viol(f"{opname} raised {type(e).__name__} on terms built by the public constructors",
             expr=[opname, exprs], container=container, error=repr(e))
    return None
  # the call must not change the meaning of the terms it was given (they were built by the
  # public constructors too and are still in use)
  for a, m0 in zip(args, masks):
    try:
      m1 = ev.shallow_mask(a)
    except RecursionError:
      m1 = None
    if m1 != m0:
      ctx.viol(f"{opname}(...) mutated one of its argument terms: an earlier-built term changed meaning",
               expr=[opname, exprs], container=container, argument=repr(a)[:300],
               before=m0, after=m1)
      ev.memo.pop(id(a), None)
      return None
  if opname == "And":
    want = ctx.u.full
    for m in masks:
      want &= m
  else:
    want = 0
    for m in masks:
      want |= m
  try:
    got = ev.mask(r, store=False)
    bad = ev.malformed(r, deep=True)
  except RecursionError:
    ctx.viol(f"{opname}(...) produced a cyclic term (a term that contains itself): some earlier-built term "
             "was mutated by a constructor", expr=[opname, exprs], container=container)
    return None
  except TypeError as e:
    ctx.viol(f"{opname} returned something that is not a boolean term", expr=[opname, exprs],
             error=repr(e))
    return None
  if got != want:
    ctx.viol(f"{opname}(...) is not equivalent to the plain connective of its arguments "
             f"(argument kinds: {_argkinds(args)})",
             expr=[opname, exprs], container=container, result=repr(r),
             assignment=ctx.first_diff(got, want), container_kind=container)
  if bad:
    ctx.viol(f"{opname}(...) result breaks the structural promise: "
             f"{_generic_shape(bad)}", expr=[opname, exprs], result=repr(r), detail=bad)
  if count:
    ctx.count("result_kind_" + type(r).__name__)
  return r


def _generic_shape(reason):
  # mechanism text without the concrete sub-term
  if "directly nests" in reason:
    return reason
  if "TRUE" in reason:
    return reason.split(" has ")[0] + " has TRUE as an immediate sub-term"
  return reason.split(" has ")[0] + " has FALSE as an immediate sub-term"


def check_simplify(ctx, t, mt, expr, table, tmask, tjson, observe_pivots=False, distinct_nt=False):
  ev = ctx.ev
  ctx.count("simplify_evals")
  ctx.cases += 1
  ctx.nt += distinct_nt
  try:
    r = t.simplify(table)
  except Exception as e:  # pylint: disable=broad-except
    ctx.viol(f"{type(t).__name__}.simplify raised {type(e).__name__} on a complete table",
             expr=expr, table=tjson, error=repr(e))
    return None
  try:
    mr = ev.mask(r, store=False)
  except TypeError as e:
    ctx.viol(f"{type(t).__name__}.simplify returned something that is not a boolean term",
             expr=expr, table=tjson, error=repr(e))
    return None
  if (mr ^ mt) & tmask:
    rk = "FALSE" if r is ctx.B.FALSE else ("TRUE" if r is ctx.B.TRUE else type(r).__name__)
    ctx.viol(f"{type(t).__name__}.simplify changes the truth value under an assignment drawn "
             f"from the table (result is {rk})",
             expr=expr, table=tjson, term=repr(t), result=repr(r),
             assignment=ctx.first_diff(mr, mt, tmask))
  if r is t:
    ctx.count("simplify_returned_self")
  elif r is ctx.B.FALSE or r is ctx.B.TRUE:
    ctx.count("simplify_to_constant")
  else:
    ctx.count("simplify_rebuilt_a_nonconstant_term")
  if ev.malformed(r, deep=True):
    ctx.count("simplify_result_not_flat(observed, not judged)")
  if observe_pivots:
    observe_pivots_of(ctx, t, mt, table, tmask)
  return r


def observe_pivots_of(ctx, t, mt, table, tmask):
  """extract_pivots: observed only.  'sound' = every satisfying assignment drawn
  from the table gives each reported variable a reported value."""
  try:
    piv = t.extract_pivots(table)
  except Exception:  # pylint: disable=broad-except
    ctx.count("extract_pivots_raised(observed)")
    return
  ctx.count("extract_pivots_observed")
  sat = mt & tmask
  sound = True
  for x, vals in piv.items():
    if x not in ctx.u.varset:
      continue
    allowed = 0
    for v in vals:
      allowed |= ctx.u.valmask.get((x, v), 0)
    if sat & ~allowed:
      sound = False
  ctx.count("extract_pivots_cover_all_satisfying_assignments" if sound else
            "extract_pivots_exclude_a_satisfying_assignment(observed, not judged)")


def observe_equalities(ctx, t):
  try:
    got = set(t.extract_equalities())
  except Exception:  # pylint: disable=broad-except
    ctx.count("extract_equalities_raised(observed)")
    return
  ctx.count("extract_equalities_observed")
  if got != ctx.ev.equalities_of(t):
    ctx.count("extract_equalities_differs_from_leaves(observed, not judged)")


def level0(ctx, check):
  """Eq over every (variable, variable-or-value) in both orders, plus TRUE/FALSE."""
  B, u, ev = ctx.B, ctx.u, ctx.ev
  terms = {("T",): (B.TRUE, ["T"]), ("F",): (B.FALSE, ["F"])}
  pairs = []
  for x in u.vars:
    for y in u.vars + u.vals:
      pairs.append((x, y))
      if y in u.vals:
        pairs.append((y, x))
  for l, r in pairs:
    expr = ["Eq", l, r]
    try:
      t = B.Eq(l, r)
    except Exception as e:  # pylint: disable=broad-except
      if check:
        ctx.viol(f"Eq raised {type(e).__name__}", expr=expr, error=repr(e))
      continue
    if check:
      ctx.count("construct_evals")
      ctx.count("eq_evals")
      ctx.cases += 1
      ctx.nt += (l in u.varset and r in u.varset and l != r)
      want = u.eq_mask(l, r)          # from the ARGUMENTS, not from the result
      got = ev.mask(t, store=False)
      if got != want:
        kind = "reflexive" if l == r else ("variable-variable" if r in u.varset and l in u.varset
                                           else "variable-value")
        ctx.viol(f"Eq(x, y) is not equivalent to x == y ({kind})", expr=expr, result=repr(t),
                 assignment=ctx.first_diff(got, want))
      if type(t) is B._Eq:  # pylint: disable=protected-access,unidiomatic-typecheck
        if t.left in u.varset:
          ctx.count("eq_variable_on_the_left")
        else:
          ctx.count("eq_variable_not_on_the_left(observed)")
    k = ev.key(t)
    terms.setdefault(k, (t, expr))
  return terms


def close_level(ctx, terms, check, below=(), rng=None):
  """One closure step: And/Or over all ORDERED pairs of the given distinct terms.

  below: canonical keys of the level under `terms`; a pair with both members in it
  was already a case of the previous step (not counted as distinct again)."""
  ev = ctx.ev
  keys = sorted(terms, key=repr)
  cur = [terms[k] for k in keys]
  old = [k in below for k in keys]
  new = dict(terms)
  for (s, es), so in zip(cur, old):
    for (t, et), to in zip(cur, old):
      for opname in ("And", "Or"):
        if check:
          r = check_construct(ctx, opname, [s, t], [es, et], fresh=not (so and to))
        else:
          r = (ctx.B.And if opname == "And" else ctx.B.Or)([s, t])
        if r is None:
          continue
        k = ev.key(r)
        if k not in new:
          new[k] = (r, [opname, [es, et]])
  if check:
    # other arities and container kinds (results are members of the next level anyway)
    for opname in ("And", "Or"):
      check_construct(ctx, opname, [], [])
      for s, es in cur:
        check_construct(ctx, opname, [s], [es])
        check_construct(ctx, opname, [s, s, s], [es, es, es])
    if len(cur) <= 30:
      for (s, es), (t, et), (w, ew) in itertools.product(cur, repeat=3):
        for opname in ("And", "Or"):
          check_construct(ctx, opname, [s, t, w], [es, et, ew])
      for (s, es), (t, et) in itertools.product(cur, repeat=2):
        for opname in ("And", "Or"):
          for cont in ("tuple", "generator", "set"):
            check_construct(ctx, opname, [s, t], [es, et], cont)
    else:
      for _ in range(4000):
        k = rng.choice([3, 3, 4])
        pick = [rng.choice(cur) for _ in range(k)]
        check_construct(ctx, rng.choice(["And", "Or"]), [p[0] for p in pick], [p[1] for p in pick],
                        rng.choice(["list", "tuple", "generator", "set"]))
  return new


def build_levels(ctx, upto, check, rng):
  levels = [level0(ctx, check)]
  for _ in range(1, upto + 1):
    below = set(levels[-2]) if len(levels) >= 2 else ()
    levels.append(close_level(ctx, levels[-1], check, below=below, rng=rng))
  return levels


def sorted_terms(ctx, terms):
  """Deterministic (hash-seed independent) indexing of a level."""
  keys = sorted(terms, key=repr)
  T = [terms[k][0] for k in keys]
  X = [terms[k][1] for k in keys]
  M = [ctx.ev.mask(t) for t in T]
  VS = [frozenset(ctx.ev.variables_of(t)) for t in T]
  return keys, T, X, M, VS


def child_levels(arg):
  try:
    return _child_levels(arg)
  except Abort as a:
    ctx = a.ctx
    ctx.count("aborted_after_many_violations")
    return {"n": ctx.cases, "nontrivial": 0, "counters": ctx.c, "violations": ctx.violations,
            "nviol": ctx.nviol, "samples": ctx.samples[:2], "info": {"aborted": True}, "fps": []}


def _child_levels(arg):
  """Enumeration child.

  arg: universe, hashseed, seed, what in
    'low'      : levels 0..2 with all checks + simplify of every level<=simplify_upto term x all tables
    'simplify2': simplify of the level-2 terms with index = shard mod nshards x all tables
    'level3'   : And/Or over pairs of level-2 terms, rows i = shard mod nshards (ordered: all j;
                 else j >= i, argument order by parity) + simplify of every result x all tables
                 (simplify_all) or of every simplify_every-th pair against one table
    'sample3'  : `count` sampled ordered pairs of level-2 terms (distinct within the shard's residue class)
  """
  ctx = Ctx(arg["universe"], arg.get("hashseed", "0"))
  rng = random.Random(arg.get("seed", 0))
  what = arg["what"]
  B, ev, u = ctx.B, ctx.ev, ctx.u

  levels = build_levels(ctx, 2, check=(what == "low"), rng=rng)
  keys, T, X, M, VS = sorted_terms(ctx, levels[2])
  n = len(T)
  in1 = [k in levels[1] for k in keys]
  tables = ctx.all_tables()
  info = {"level_sizes": [len(l) for l in levels], "tables": len(tables), "assignments": u.n}

  if what in ("low", "simplify2"):
    if what == "low":
      # self-check of the oracle: vectorised evaluation == pointwise evaluation
      for i in range(0, n, max(1, n // 400)):
        ctx.count("oracle_selfcheck_pointwise")
        if ev.mask_pointwise(T[i]) != M[i]:
          raise AssertionError("oracle self-check failed: mask != pointwise evaluation")
      upto = arg.get("simplify_upto", 1)
      todo = [i for i in range(n) if upto >= 2 or in1[i]]
      dense = True
    else:
      todo = [i for i in range(arg["shard"], n, arg["nshards"]) if not in1[i]]   # level<=1: done by 'low'
      dense = False
    for i in todo:
      observe_equalities(ctx, T[i])
      nt = len(VS[i]) >= 2
      for ti, (tab, tmask, tjson) in enumerate(tables):
        check_simplify(ctx, T[i], M[i], X[i], tab, tmask, tjson,
                       observe_pivots=dense or ((i + ti) % 16 == 0), distinct_nt=nt)
    if todo:
      i = todo[len(todo) // 2]
      tab = tables[(len(tables) * 2) // 3]
      ctx.samples.append({"universe": ctx.uname, "simplify_of": E.show(X[i]), "table": tab[2],
                          "result": repr(T[i].simplify(tab[0]))})

  elif what in ("level3", "sample3"):
    cAnd, cOr = B._And, B._Or  # pylint: disable=protected-access
    TRUE, FALSE, full = B.TRUE, B.FALSE, u.full
    memo = ev.memo
    And, Or = B.And, B.Or
    simplify_all = arg.get("simplify_all", False)
    simplify_every = arg.get("simplify_every", 0)
    ordered = arg.get("ordered", False)
    ntab = len(tables)
    st = {"cases": 0, "nt": 0}

    def result_mask(r):
      """Truth table + structural promise of a level-3 result (children are memoised
      sub-terms of the inputs; anything else is evaluated from scratch)."""
      tr = type(r)
      if tr is cAnd:
        m = full
        for e in r.exprs:
          if type(e) is cAnd or e is TRUE or e is FALSE:  # pylint: disable=unidiomatic-typecheck
            return None
          g = memo.get(id(e))
          m &= g[1] if (g is not None and g[0] is e) else ev.mask(e, store=False)
        return m
      if tr is cOr:
        m = 0
        for e in r.exprs:
          if type(e) is cOr or e is TRUE or e is FALSE:  # pylint: disable=unidiomatic-typecheck
            return None
          g = memo.get(id(e))
          m |= g[1] if (g is not None and g[0] is e) else ev.mask(e, store=False)
        return m
      return ev.mask(r, store=False)

    def one(i, j, k):
      a = [T[i], T[j]]
      # pairs inside level 1 were cases of the level-2 step already
      nt = (len(VS[i] | VS[j]) >= 2) and not (in1[i] and in1[j])
      for opname, op, want in (("And", And, M[i] & M[j]), ("Or", Or, M[i] | M[j])):
        try:
          r = op(a)
          got = result_mask(r)
        except Exception:  # pylint: disable=broad-except
          got = r = None
        if got != want:
          # slow path produces the witness (and the precise mechanism)
          check_construct(ctx, opname, a, [X[i], X[j]], count=False)
          continue
        if simplify_all:
          for tab, tmask, tjson in tables:
            check_simplify(ctx, r, got, [opname, [X[i], X[j]]], tab, tmask, tjson)
        elif simplify_every and k % simplify_every == 0:
          tab, tmask, tjson = tables[(k // simplify_every * 7919 + i + j) % ntab]
          check_simplify(ctx, r, got, [opname, [X[i], X[j]]], tab, tmask, tjson, observe_pivots=True)
      st["cases"] += 2
      st["nt"] += 2 * nt

    k = 0
    sh, nsh = arg["shard"], arg["nshards"]
    if what == "level3":
      for i in range(sh, n, nsh):
        for j in (range(n) if ordered else range(i, n)):
          if ordered or (i + j) & 1 == 0:
            one(i, j, k)
          else:
            one(j, i, k)
          k += 1
      ctx.count("level3_pairs", k)
    else:
      space = (n * n - sh + nsh - 1) // nsh
      for mm in rng.sample(range(space), min(arg["count"], space)):
        idx = sh + nsh * mm
        one(idx // n, idx % n, k)
        k += 1
      ctx.count("level3_pairs_sampled", k)
    ctx.count("construct_evals", st["cases"])
    ctx.cases += st["cases"]
    ctx.nt += st["nt"]
    if k:
      ctx.samples.append({"universe": ctx.uname, "level": 3,
                          "term": E.show(["Or", [X[(7 * k) % n], X[(13 * k + 5) % n]]])})
  else:
    raise ValueError(what)

  # tables must not have been modified by simplify (they are shared between calls)
  for tab, _, tjson in tables:
    if {x: sorted(v) for x, v in tab.items()} != tjson:
      ctx.viol("simplify modified the table of possible values it was given", table=tjson)
      break
  return {"n": ctx.cases, "nontrivial": ctx.nt if arg.get("count_nontrivial", True) else 0,
          "counters": ctx.c, "violations": ctx.violations, "nviol": ctx.nviol,
          "samples": ctx.samples[:2], "info": info, "fps": []}


# ---------------------------------------------------------------------------
# Layer A: the monitors hooked into booleq while Solver.solve runs


class Monitor:
  """Recording wrappers around booleq.And/Or/Eq and the simplify methods.

  Never raises into the code under test; evaluates with the evaluator of the
  constraint system that is currently being solved."""

  def __init__(self, B):
    self.B = B
    self.ev = None
    self.sysops = None
    self.c = {}
    self.violations = []
    self.nviol = 0
    self.installed = False
    self.depth = 0

  def count(self, k, n=1):
    self.c[k] = self.c.get(k, 0) + n

  def viol(self, key, **w):
    self.nviol += 1
    if len(self.violations) < MAXV:
      w.update({"key": key, "system": self.sysops, "in_situ": True})
      self.violations.append(w)

  def install(self):
    B = self.B
    mon = self
    self.orig = {"And": B.And, "Or": B.Or, "Eq": B.Eq,
                 "_Eq": B._Eq.simplify, "_And": B._And.simplify, "_Or": B._Or.simplify}  # pylint: disable=protected-access

    def wrap_ctor(opname):
      orig = self.orig[opname]

      def ctor(exprs):
        ev = mon.ev
        if ev is None:
          return orig(exprs)
        args = list(exprs)
        r = orig(args)
        try:
          mon.count("in_situ_constructor_evals")
          want = ev.u.full if opname == "And" else 0
          for a in args:
            want = (want & ev.mask(a, store=False)) if opname == "And" else (want | ev.mask(a, store=False))
          got = ev.mask(r, store=False)
          if got != want:
            mon.viol(f"{opname}(...) is not equivalent to the plain connective of its arguments "
                     f"(argument kinds: {_argkinds(args)})", args=[repr(a) for a in args],
                     result=repr(r))
          bad = ev.malformed(r)
          if bad:
            mon.viol(f"{opname}(...) result breaks the structural promise: {_generic_shape(bad)}",
                     args=[repr(a) for a in args], result=repr(r))
        except Exception as e:  # pylint: disable=broad-except
          mon.count("monitor_internal_error:" + type(e).__name__)
        return r
      return ctor

    def eq(left, right):
      r = self.orig["Eq"](left, right)
      ev = mon.ev
      if ev is not None:
        try:
          mon.count("in_situ_constructor_evals")
          if ev.mask(r, store=False) != ev.u.eq_mask(left, right):
            mon.viol("Eq(x, y) is not equivalent to x == y (in situ)", args=[left, right], result=repr(r))
        except Exception as e:  # pylint: disable=broad-except
          mon.count("monitor_internal_error:" + type(e).__name__)
      return r

    def wrap_simplify(cname):
      orig = self.orig[cname]

      def simplify(term, assignments):
        ev = mon.ev
        if ev is None:
          return orig(term, assignments)
        try:
          tmask = ev.u.table_mask(assignments)
          tjson = {x: sorted(v) for x, v in assignments.items()}
          mt = ev.mask(term, store=False)
        except Exception as e:  # pylint: disable=broad-except
          mon.count("monitor_internal_error:" + type(e).__name__)
          return orig(term, assignments)
        r = orig(term, assignments)
        try:
          mon.count("in_situ_simplify_evals")
          if tmask:
            mon.count("in_situ_simplify_evals_with_nonempty_table")
          mr = ev.mask(r, store=False)
          if (mr ^ mt) & tmask:
            rk = "FALSE" if r is mon.B.FALSE else ("TRUE" if r is mon.B.TRUE else type(r).__name__)
            mon.viol(f"{cname}.simplify changes the truth value under an assignment drawn from the "
                     f"table (result is {rk})", term=repr(term), table=tjson, result=repr(r))
        except Exception as e:  # pylint: disable=broad-except
          mon.count("monitor_internal_error:" + type(e).__name__)
        return r
      return simplify

    B.And, B.Or, B.Eq = wrap_ctor("And"), wrap_ctor("Or"), eq
    B._Eq.simplify = wrap_simplify("_Eq")  # pylint: disable=protected-access
    B._And.simplify = wrap_simplify("_And")  # pylint: disable=protected-access
    B._Or.simplify = wrap_simplify("_Or")  # pylint: disable=protected-access
    self.installed = True

  def uninstall(self):
    B = self.B
    B.And, B.Or, B.Eq = self.orig["And"], self.orig["Or"], self.orig["Eq"]
    B._Eq.simplify, B._And.simplify, B._Or.simplify = (  # pylint: disable=protected-access
        self.orig["_Eq"], self.orig["_And"], self.orig["_Or"])
    self.installed = False


SOLVER_VALUES = ["c0", "c1", "c2"]


def gen_formula(rng, variables, values, depth):
  """Random construction expression shaped like type_match's output."""
  r = rng.random()
  if depth == 0 or r < 0.35:
    x = rng.choice(variables)
    if rng.random() < 0.25 and len(variables) > 1:
      y = rng.choice([v for v in variables if v != x])
      return ["Eq", x, y] if rng.random() < 0.5 else ["Eq", y, x]
    return ["Eq", x, rng.choice(values)]
  if r < 0.42:
    return ["T"]
  if r < 0.47:
    return ["F"]
  k = rng.choice([1, 2, 2, 3])
  return [rng.choice(["And", "Or"]), [gen_formula(rng, variables, values, depth - 1) for _ in range(k)]]


def gen_system(rng):
  """Ops of one constraint system, shaped like convert_structural.TypeSolver.solve:
  'unknown' variables with one implication per (unknown, class), auxiliary
  type-parameter variables without implications, some ground truths."""
  nmain = rng.choice([1, 2, 2, 3])
  naux = rng.choice([0, 0, 1, 2])
  values = SOLVER_VALUES[: rng.choice([2, 3, 3])]
  main = [f"~u{i}" for i in range(nmain)]
  aux = [f"~u{rng.randrange(nmain)}.T{i}" for i in range(naux)]
  variables = main + aux
  ops = [["var", v] for v in variables]
  complete = rng.random() < 0.7
  for x in main:
    for v in values:
      if not complete and rng.random() < 0.3:
        continue
      r = rng.random()
      if r < 0.3:
        f = ["F"]
      elif r < 0.45:
        f = ["T"]
      else:
        f = gen_formula(rng, variables, values, 2)
      ops.append(["implies", x, v, f])
  for _ in range(rng.choice([0, 0, 1, 1, 2])):
    ops.append(["always", gen_formula(rng, variables, values, 2)])
  rng.shuffle(ops)
  ops.sort(key=lambda o: o[0] != "var")      # registrations first (stable)
  return ops


def run_system(B, mon, ops, counters):
  """Builds and solves one system with the monitors on; compares with brute force.

  Returns the (observed, not judged) classification of the solver result."""
  variables = [o[1] for o in ops if o[0] == "var"]
  values = sorted({o[2] for o in ops if o[0] == "implies"} | set(SOLVER_VALUES[:2]))
  u = E.Universe(variables, values + [B.Solver.ANY_VALUE])
  ev = E.Evaluator(B, u)
  mon.ev, mon.sysops = ev, ops
  try:
    solver = B.Solver()
    impl = {}
    ground = []
    for o in ops:
      if o[0] == "var":
        solver.register_variable(o[1])
      elif o[0] == "implies":
        f = E.build(B, o[3])
        impl.setdefault(o[1], {})[o[2]] = f
        solver.implies(B.Eq(o[1], o[2]), f)
      elif o[0] == "always":
        f = E.build(B, o[1])
        if f is B.FALSE:
          counters["ground_truth_false_skipped"] = counters.get("ground_truth_false_skipped", 0) + 1
          continue                     # always_true() asserts formula is not FALSE
        ground.append(f)
        solver.always_true(f)
    result = solver.solve()
  finally:
    mon.ev = None
  # -- observation: union of brute-force solutions vs the solver's sets
  sol = u.full
  for g in ground:
    sol &= ev.mask(g)
  constrained = [x for x in variables if impl.get(x)]
  for x in constrained:
    mx = 0
    for v, f in impl[x].items():
      mx |= u.valmask[(x, v)] & ev.mask(f)
    sol &= mx
  verdict = "solver_result_contains_every_solution_value"
  exact = True
  for x in constrained:
    used = {v for v in u.vals if sol & u.valmask[(x, v)]}
    got = set(result.get(x, ()))
    if not used <= got:
      verdict = "solver_result_misses_a_solution_value(observed, not judged)"
    if got - used:
      exact = False
  if verdict.startswith("solver_result_contains") and not exact:
    verdict = "solver_result_is_a_strict_superset(observed, not judged)"
  counters[verdict] = counters.get(verdict, 0) + 1
  if len(constrained) < len(variables):
    counters["systems_with_unconstrained_variables(those variables not compared)"] = counters.get(
        "systems_with_unconstrained_variables(those variables not compared)", 0) + 1
  return verdict, {x: sorted(v) for x, v in result.items()}


def child_solver(arg):
  from pytype.pytd import booleq as B
  rng = random.Random(arg["seed"])
  mon = Monitor(B)
  mon.install()
  counters = {}
  fps, samples, missed = [], [], []
  n_sys = 0
  try:
    for i in range(arg["count"]):
      ops = gen_system(rng)
      before = mon.c.get("in_situ_simplify_evals", 0)
      try:
        verdict, result = run_system(B, mon, ops, counters)
      except AssertionError as e:
        # Solver.implies asserts on duplicate/illegal equations; generator avoids them
        counters["solver_assertion(not judged):" + str(e)[:40]] = counters.get(
            "solver_assertion(not judged):" + str(e)[:40], 0) + 1
        continue
      except Exception as e:  # pylint: disable=broad-except
        mon.viol(f"Solver.solve raised {type(e).__name__} on a well-formed system (terms from the "
                 f"public constructors)", error=repr(e))
        continue
      n_sys += 1
      nvars = sum(1 for o in ops if o[0] == "var")
      nontrivial = nvars >= 2 and mon.c.get("in_situ_simplify_evals", 0) > before
      if nontrivial:
        fps.append(common.fp(ops))
      if i < 2:
        samples.append({"solver_system": [o if o[0] == "var" else o[:-1] + [E.show(o[-1])] for o in ops],
                        "result": result, "observation": verdict})
      if verdict.startswith("solver_result_misses") and len(missed) < 2:
        missed.append({"system": [o if o[0] == "var" else o[:-1] + [E.show(o[-1])] for o in ops],
                       "result": result})
  finally:
    mon.uninstall()
  counters.update(mon.c)
  counters["solver_systems"] = n_sys
  evals = mon.c.get("in_situ_constructor_evals", 0) + mon.c.get("in_situ_simplify_evals", 0)
  return {"n": evals, "nontrivial": 0, "fps": fps, "counters": counters, "violations": mon.violations,
          "nviol": mon.nviol, "samples": samples, "info": {"missed_examples": missed}}


def child(arg):
  if arg["what"] == "solver":
    return child_solver(arg)
  if arg["what"] == "replay":
    return child_replay(arg)
  return child_levels(arg)


# ---------------------------------------------------------------------------
# replay (in a child so that the hash seed of the witness can be reproduced)


def child_replay(arg):
  from pytype.pytd import booleq as B
  w = arg["witness"]
  out = []
  if w.get("in_situ") or (w.get("system") and "expr" not in w):
    mon = Monitor(B)
    mon.install()
    try:
      try:
        run_system(B, mon, w["system"], {})
      except Exception as e:  # pylint: disable=broad-except
        out.append({"key": f"Solver.solve raised {type(e).__name__}", "error": repr(e)})
    finally:
      mon.uninstall()
    out += mon.violations
    return {"violations": out}
  ctx = Ctx(w["universe"], arg.get("hashseed", "0"))
  expr = w["expr"]
  if "table" in w and w["table"] is not None:
    try:
      t = E.build(B, expr)
    except Exception as e:  # pylint: disable=broad-except
      return {"violations": [{"key": "construction raised", "error": repr(e)}]}
    tab = {x: set(v) for x, v in w["table"].items()}
    check_simplify(ctx, t, ctx.ev.mask(t), expr, tab, ctx.u.table_mask(tab), w["table"])
  elif expr[0] == "Eq":
    level0(ctx, True)
  else:
    args = [E.build(B, e) for e in expr[1]]
    check_construct(ctx, expr[0], args, expr[1], w.get("container", "list"))
  return {"violations": ctx.violations}


def replay(rec):
  w = rec["witness"]
  tasks = [{"fn": "vf.checks.c17:child", "arg": {"what": "replay", "witness": w, "hashseed": hs},
            "id": f"replay/{hs}", "hashseed": hs, "timeout": 300} for hs in HASHSEEDS]
  still = []
  for res in pool.run_tasks(tasks):
    if not res.get("ok"):
      print(f"replay child failed: {res.get('error')}")
      continue
    for v in res["result"]["violations"]:
      still.append((res.get("task"), v))
  known = common.load_known(PID)
  bad = [(t, v) for t, v in still if v.get("key") not in known]
  if bad:
    print(f"VIOLATION property={PID} replay=<replayed>")
    for t, v in bad[:3]:
      print(f"  [{t}] {v.get('key')}")
      print("   ", {k: x for k, x in v.items() if k not in ('key', 'system')})
    return 1
  print("replay: no (unlisted) disagreement under PYTHONHASHSEED 0,1,2")
  return 0


# ---------------------------------------------------------------------------
# driver side


class _Distinct(set):
  """Distinct non-trivial cases: explicit fingerprints plus cases that are distinct
  by construction (index tuples of an enumeration that never repeats)."""
  bulk = 0

  def __len__(self):
    return set.__len__(self) + self.bulk


def _tasks(tier, seed):
  rng = random.Random(f"{PID}-{seed}")
  tasks = []

  def add(arg, tid, hs, timeout=None):
    timeout = timeout or (900 if tier == "quick" else 3000)
    arg = dict(arg)
    arg["hashseed"] = hs
    arg.setdefault("seed", rng.randrange(1 << 30))
    # a case is counted as distinct only once, under one designated hash seed
    tasks.append({"fn": "vf.checks.c17:child", "arg": arg, "id": tid, "hashseed": hs, "timeout": timeout})

  quick = tier == "quick"
  plan = {}
  # --- small universe: complete to level 3, every result simplified against every table
  nsh = 6 if quick else 12
  for hs in HASHSEEDS:
    add({"universe": "2x2", "what": "low", "simplify_upto": 2, "count_nontrivial": hs == "0"}, f"2x2/low/hs{hs}", hs)
  for s in range(nsh):
    seeds = [HASHSEEDS[s % 3]] if quick else HASHSEEDS
    for hs in seeds:
      add({"universe": "2x2", "what": "level3", "shard": s, "nshards": nsh, "ordered": True,
           "simplify_all": True, "count_nontrivial": hs == seeds[0]}, f"2x2/level3/{s}/hs{hs}", hs)
  plan["2x2"] = "levels 0-3 over ordered pairs, every level-3 result x all 9 tables"
  # --- 3x3 universe: levels 0-2 complete with all 343 tables
  for hs in HASHSEEDS:
    add({"universe": "3x3", "what": "low", "count_nontrivial": hs == "0"}, f"3x3/low/hs{hs}", hs)
  nsh = 12 if quick else 16
  for s in range(nsh):
    seeds = [HASHSEEDS[s % 3]] if quick else HASHSEEDS
    for hs in seeds:
      add({"universe": "3x3", "what": "simplify2", "shard": s, "nshards": nsh,
           "count_nontrivial": hs == seeds[0]}, f"3x3/simplify2/{s}/hs{hs}", hs)
  # --- 3x3 level 3
  if quick:
    nsh = 9
    for s in range(nsh):
      add({"universe": "3x3", "what": "sample3", "shard": s, "nshards": nsh, "count": 50000,
           "simplify_every": 4}, f"3x3/sample3/{s}", HASHSEEDS[s % 3])
    plan["3x3"] = ("levels 0-2 over ordered pairs, every level<=2 term x all 343 tables; level 3: "
                   "450000 sampled ordered pairs")
  else:
    nsh = 96
    for s in range(nsh):
      add({"universe": "3x3", "what": "level3", "shard": s, "nshards": nsh, "ordered": False,
           "simplify_every": 24}, f"3x3/level3/{s}", HASHSEEDS[s % 3], timeout=5000)
    plan["3x3"] = ("levels 0-2 over ordered pairs, every level<=2 term x all 343 tables; level 3: every "
                   "unordered pair of level-2 terms (argument order by index parity), 1/24 of the results "
                   "simplified against one table")
  # --- Layer A
  nb, cnt = (6, 500) if quick else (24, 2500)
  for b in range(nb):
    add({"what": "solver", "count": cnt}, f"solver/{b}", HASHSEEDS[b % 3])
  return tasks, plan


def run(tier, seed):
  ck = common.Check(
      PID, tier, seed,
      rule=("cases: (a) one call of booleq.Eq/And/Or on arguments that are themselves results of the public "
            "constructors (level k = And/Or of two distinct-by-canonical-form results of lower levels), judged "
            "against the truth tables of the arguments over all assignments and against the structural promise; "
            "(b) one term.simplify(table) call judged on every assignment drawn from the table; (c) one "
            "constructor/simplify call made by booleq.Solver.solve on a generated constraint system (in situ). "
            "evaluations = such calls judged. non-trivial = the arguments (a), the term (b) mention >= 2 distinct "
            "variables, (c) a solved system with >= 2 variables in which simplify ran; distinct: (a),(b) by "
            "construction - every (universe, op, i, j[, table]) index tuple of the enumeration is visited once "
            "and counted under one designated hash seed only; (c) by hash of the system's op list."))
  ck.distinct = _Distinct()
  tasks, plan = _tasks(tier, seed)
  failed = []
  agg = {}
  by_seed = {hs: 0 for hs in HASHSEEDS}
  sizes = {}
  missed = []
  for res in pool.run_tasks(tasks):
    tid = str(res.get("task"))
    if not res.get("ok"):
      ck.child_failed(res, f"{PID} batch {tid}")
      failed.append(tid)
      continue
    r = res["result"]
    ck.merge_cases(r["n"], r["fps"])
    ck.distinct.bulk += r["nontrivial"]
    for k, v in r["counters"].items():
      agg[k] = agg.get(k, 0) + v
    for s in r["samples"]:
      ck.sample(s)
    if r["info"].get("level_sizes"):
      sizes[tid.split("/")[0]] = r["info"]
    missed += r["info"].get("missed_examples", [])
    for w in r["violations"]:
      ck.violation(w["key"], w)
    if r["nviol"] > len(r["violations"]):
      ck.count("violations_not_kept_as_witness", r["nviol"] - len(r["violations"]))
  for t in tasks:
    by_seed[t["hashseed"]] += 1
  for k, v in agg.items():
    ck.count(k, v)
  ck.extra["children_by_hashseed"] = by_seed
  ck.extra["enumerated_space"] = plan
  ck.extra["universe_sizes"] = sizes
  ck.extra["solver_result_observation_examples(not judged)"] = missed[:3]
  enumerated = not failed
  ck.exhaustive = bool(enumerated)
  ck.extra["exhaustive_scope"] = (
      "universe 2x2 (2 variables, 2 values, variable-variable and reflexive equalities): every And/Or of an "
      "ordered pair of level-2 terms (= all terms to depth 3), 4 assignments, every result simplified against "
      "all 9 tables; universe 3x3: the same to depth 2 with all 343 tables"
      + ("; depth 3 over all unordered pairs" if tier != "quick" else "; depth 3 sampled"))
  ck.assumptions = [
      "a term's meaning is its truth table over all assignments variables->values of the universe; values "
      "outside the universe are not considered",
      "tables given to simplify contain every variable (booleq._Eq.simplify indexes the table by the variable)",
      "level-3 results are evaluated through memoised truth tables of their (immutable) sub-terms",
  ]
  if agg.get("construct_evals", 0) == 0 or agg.get("simplify_evals", 0) == 0:
    ck.inconclusive("constructor or simplify oracle never ran")
  if agg.get("in_situ_simplify_evals", 0) == 0:
    ck.inconclusive("in-situ monitors never saw Solver.solve simplify a term")
  return ck.finish()
