"""C03 - a disable comment on the reported line silences exactly that error.

For every error (E, L) pytype reports on an error-rich program P the check
re-analyses P' = P + trailing `# pytype: disable=E` on line L and P'' = P +
trailing `# type: ignore` on line L and demands report' == report minus the
E-errors on L (type: ignore: minus all errors on L) and an identical stub.
Stand-alone `# pytype: disable=E` / `# pytype: enable=E` comment lines inserted
before lines a / b must remove exactly the E-errors with a <= line < b (end of
file if there is no enable).  Layer A: brute-force interval model of every
directors._LineSet and a recorder on Director.filter_error run inside every
analysis.
"""
from __future__ import annotations

import collections
import os
import random
import warnings

from vf import common, pool

PID = "C03"

RULE = ("programs = prelude + random placement blocks of vf.gen.errorful (multi-line calls, nested calls sharing "
        "lines, decorators, implicit returns, with-returns, comprehensions/subscripts/compares, several errors "
        "per line, adjacent lines, backslashes, semicolons, imports); one evaluation = one re-analysis of P with "
        "one directive compared against the expected report and the stub; distinct by (statement text, offset of "
        "the line in its statement, error class, spelling); non-trivial = the directive's line is not the first "
        "line of its statement, or carries >=2 errors, or is an implicit-return / decorator line, or the "
        "directive is stand-alone with at least one error of the named class inside and one outside the range")


# ---------------------------------------------------------------------------
# child


def _analyze(src):
  from vf import pt
  from vf.oracle import c03_directives as od
  od.MON.new_analysis()
  with warnings.catch_warnings():
    warnings.simplefilter("ignore")
    r = pt.analyze(src)
  return r.pyi, [tuple(e) for e in r.errors]


def judge_trailing(src, R, S, geo, E, L, spelling):
  """Returns dict(status=..., keys=[(key, detail)], ...)."""
  from vf.oracle import c03_directives as od
  comment = f"pytype: disable={E}" if spelling == od.SPELL_DISABLE else "type: ignore"
  new = od.append_comment(src, L, comment)
  if new is None:
    return {"status": "not-applicable"}
  try:
    S2, R2 = _analyze(new)
  except Exception as e:  # pylint: disable=broad-except
    return {"status": "crash", "error": f"{type(e).__name__}: {e}"[:400], "src": new}
  exp = od.expected_trailing(R, E, L, spelling)
  missing, added = od.diff_reports(exp, R2)
  targets = [e for e in R if e not in exp]
  survivors = [a for a in added if a in targets]
  added = [a for a in added if a not in survivors]
  stub_changed = S2 != S
  if not missing and not added and not survivors and not stub_changed:
    return {"status": "ok", "removed": len(targets)}
  keys = od.classify_trailing(geo, E, L, spelling, survivors, missing, added, stub_changed)
  wit = {"kind": "trailing", "src": src, "E": E, "L": L, "spelling": spelling, "edited_line": new.split("\n")[L - 1],
         "statement": geo.statement_text(L), "report": R, "report_after": R2, "expected_after": exp,
         "extra_removed_or_moved": missing, "added": added, "not_silenced": survivors,
         "stub_changed": stub_changed, "filter_log": od.MON.filter_log[-60:],
         "director_state": od.director_state([E])}
  if stub_changed:
    import difflib
    wit["stub_diff"] = list(difflib.unified_diff(S.splitlines(), S2.splitlines(), lineterm="", n=0))[:40]
  return {"status": "bad", "keys": keys, "witness": wit}


def judge_standalone(src, R, S, geo, E, a, b):
  from vf.oracle import c03_directives as od
  ins = [(a, f"pytype: disable={E}")]
  if b is not None:
    ins.append((b, f"pytype: enable={E}"))
  got = od.insert_lines(src, ins)
  if got is None:
    return {"status": "not-applicable"}
  new, shift, pos = got
  try:
    S2, R2 = _analyze(new)
  except Exception as e:  # pylint: disable=broad-except
    return {"status": "crash", "error": f"{type(e).__name__}: {e}"[:400], "src": new}
  exp = od.expected_standalone(R, E, a, b, shift)
  late = []
  if b is None:
    # documented: an unclosed disable after the first definition is reported as late-directive
    late = [e for e in R2 if e[0] == "late-directive" and e[1] == pos[0]]
    R2 = [e for e in R2 if e not in late]
  missing, added = od.diff_reports(exp, R2)
  inside = [e for e in R if e[0] == E and e[1] is not None and e[1] >= a and (b is None or e[1] < b)]
  inside_shifted = {(n, shift(l), od.shift_message(m, shift)) for n, l, m in inside}
  survivors = [x for x in added if tuple(x) in inside_shifted]
  added = [x for x in added if x not in survivors]
  stub_changed = S2 != S
  outside = [e for e in R if e[0] == E and e not in inside]
  info = {"inside": len(inside), "outside": len(outside), "late": len(late)}
  if not missing and not added and not survivors and not stub_changed:
    return {"status": "ok", **info}
  keys = od.classify_standalone(geo, E, a, b, missing, added, stub_changed, survivors,
                                inside=sorted(inside_shifted, key=lambda t: (t[1] or 0, t[0], t[2])),
                                unshift={shift(l): l for l in range(1, len(src.split(chr(10))) + 2)})
  wit = {"kind": "standalone", "src": src, "E": E, "a": a, "b": b, "edited": new, "report": R,
         "report_after": R2, "expected_after": exp, "extra_removed_or_moved": missing, "added": added,
         "not_silenced": survivors, "stub_changed": stub_changed, "filter_log": od.MON.filter_log[-60:],
         "director_state": od.director_state([E])}
  return {"status": "bad", "keys": keys, "witness": wit, **info}


def compile_slice(out):
  """Programs CPython refuses to compile: pytype reports python-compiler-error at a line;
  the property quantifies over every reported error, so directives are tried on it too."""
  import os
  import shutil
  import tempfile
  from vf import boot, pt
  from vf.oracle import c03_directives as od
  c = out["counters"]
  scratch = os.path.join(boot.BUILD, "scratch")
  os.makedirs(scratch, exist_ok=True)
  d = tempfile.mkdtemp(prefix="c03-", dir=scratch)

  def run(text, tag):
    path = os.path.join(d, tag + ".py")
    with open(path, "w") as f:
      f.write(text)
    with warnings.catch_warnings():
      warnings.simplefilter("ignore")
      r = pt.analyze_file(path)
    return r.pyi, [tuple(e) for e in r.errors]

  try:
    for i, src in enumerate(od.COMPILE_ERROR_PROGRAMS):
      try:
        S, R = run(src, f"m{i}")
      except Exception as e:  # pylint: disable=broad-except
        c["compile_slice_base_raised"] += 1
        continue
      targets = [e for e in R if e[0] == "python-compiler-error" and e[1]]
      if not targets:
        c["compile_slice_no_compiler_error"] += 1
        continue
      E, L = targets[0][0], targets[0][1]
      edits = []
      for spelling in (od.SPELL_DISABLE, od.SPELL_IGNORE):
        comment = f"pytype: disable={E}" if spelling == od.SPELL_DISABLE else "type: ignore"
        new = od.append_comment_tokens_only(src, L, comment)
        if new is not None:
          edits.append((spelling, new, od.expected_trailing(R, E, L, spelling), lambda n: n))
      sh = lambda n: n + 1
      edits.append(("stand-alone pytype: disable (to end of file)", f"# pytype: disable={E}\n" + src,
                    od.expected_standalone(R, E, 1, None, sh), sh))
      for spelling, new, exp, shift in edits:
        try:
          S2, R2 = run(new, f"m{i}e")
        except Exception as e:  # pylint: disable=broad-except
          c["compile_slice_edit_raised"] += 1
          continue
        out["n"] += 1
        c["compile_slice_judged"] += 1
        R2 = [e for e in R2 if e[0] != "late-directive"]
        missing, added = od.diff_reports(exp, R2)
        gone = {(n, shift(l), od.shift_message(m, shift)) for n, l, m in R} - set(map(tuple, exp))
        survivors = [a for a in added if tuple(a) in gone]
        added = [a for a in added if a not in survivors]
        if not (missing or added or survivors or S2 != S):
          c["compile_slice_ok"] += 1
          continue
        wit = {"kind": "compile", "src": src, "edited": new, "E": E, "L": L, "spelling": spelling, "report": R,
               "report_after": R2, "expected_after": exp}
        if survivors and not (missing or added or S2 != S):
          out["violations"].append({"key": od.K_COMPILE, **wit})
        else:
          out["violations"].append({"key": f"compile-error program: directive ({spelling}) changes something else "
                                           f"(missing={len(missing)}, added={len(added)}, stub={S2 != S})", **wit})
        out["fps"].append(common.fp(["compile", src, spelling]))
  finally:
    shutil.rmtree(d, ignore_errors=True)


def _nontrivial_trailing(geo, R, E, L):
  st = geo.statement_of(L)
  n_on_line = sum(1 for e in R if e[1] == L)
  return bool((st and st[0] != L) or n_on_line >= 2 or geo.is_implicit_return_line(L)
              or L in geo.decorator_lines)


def _pick_standalone(rng, R, nlines, count):
  """(E, a, b|None) triples in original numbering."""
  by = collections.defaultdict(list)
  for n, l, _ in R:
    if l:
      by[n].append(l)
  out = []
  names = sorted(by)
  if not names:
    return out
  for _ in range(count * 3):
    if len(out) >= count:
      break
    E = rng.choice(names)
    ls = sorted(set(by[E]))
    mode = rng.randrange(6)
    if mode == 0:      # range starts exactly at an error line, ends exactly at another error line / just after
      a = rng.choice(ls)
      later = [x for x in ls if x > a]
      b = rng.choice(later) if later and rng.random() < 0.6 else a + 1
    elif mode == 1:    # range starts just after an error line
      a = rng.choice(ls) + 1
      b = rng.randint(a + 1, min(nlines + 1, a + 12)) if a + 1 <= nlines + 1 else None
    elif mode == 2:    # random range
      a = rng.randint(1, nlines)
      b = rng.randint(a + 1, nlines + 1)
    elif mode == 3:    # to end of file
      a = rng.choice(ls) if rng.random() < 0.7 else rng.randint(1, nlines)
      b = None
    elif mode == 4:    # ends exactly at an error line (that error must stay)
      b = rng.choice(ls)
      a = rng.randint(max(1, b - 10), b - 1) if b > 1 else None
    else:              # tight range around one error
      a = rng.choice(ls)
      b = a + 1
    if a is None or a < 1 or a > nlines + 1 or (b is not None and (b <= a or b > nlines + 1)):
      continue
    if (E, a, b) not in out:
      out.append((E, a, b))
  return out


def child(arg):
  from vf.gen import errorful
  from vf.oracle import c03_directives as od
  mon = od.install_monitors()
  out = {"n": 0, "fps": [], "violations": [], "samples": [], "counters": collections.Counter(),
         "classes": collections.Counter(), "kinds": collections.Counter()}
  c = out["counters"]
  for pseed in arg["seeds"]:
    rng = random.Random(f"C03-prog-{pseed}")
    src, kinds = errorful.generate(rng, rng.randint(*arg["nblocks"]))
    for k in kinds:
      out["kinds"][k] += 1
    try:
      S, R = _analyze(src)
    except Exception as e:  # pylint: disable=broad-except
      c["base_analysis_raised"] += 1
      out["samples"].append({"base_analysis_raised": f"{type(e).__name__}: {e}"[:300], "seed": pseed})
      continue
    c["programs"] += 1
    c["base_errors"] += len(R)
    geo = od.Geometry(src)
    nlines = len(src.split("\n")) - 1
    for e in R:
      out["classes"][e[0]] += 1
    pairs = sorted({(e[0], e[1]) for e in R if e[1]})
    c["errors_without_line"] += sum(1 for e in R if not e[1])
    if len(pairs) > arg["max_pairs"]:
      # errors on the first physical line are always kept: a directive there covers "line 1",
      # the position at which errors of temporary frames (string annotations) are first logged
      first = [p for p in pairs if p[1] == 1]
      rest = [p for p in pairs if p[1] != 1]
      pairs = sorted(first + rng.sample(rest, max(0, arg["max_pairs"] - len(first))))
    cases = [(E, L, od.SPELL_DISABLE) for E, L in pairs]
    cases += [(None, L, od.SPELL_IGNORE) for L in sorted({L for _, L in pairs})]
    for E, L, spelling in cases:
      res = judge_trailing(src, R, S, geo, E, L, spelling)
      c["trailing_" + res["status"].replace("-", "_")] += 1
      if res["status"] in ("not-applicable", "crash"):
        if res["status"] == "crash":
          out["samples"].append({"crash_with_directive": res["error"], "E": E, "L": L})
        continue
      out["n"] += 1
      c["trailing_judged_" + ("disable" if spelling == od.SPELL_DISABLE else "ignore")] += 1
      nt = _nontrivial_trailing(geo, R, E, L)
      st = geo.statement_of(L)
      if nt:
        c["trailing_nontrivial"] += 1
        out["fps"].append(common.fp([geo.statement_text(L), L - (st[0] if st else L), E, spelling]))
      if st and st[0] != L:
        c["trailing_on_continuation_line"] += 1
      if geo.is_implicit_return_line(L):
        c["trailing_on_implicit_return_line"] += 1
      if L in geo.decorator_lines:
        c["trailing_on_decorator_line"] += 1
      if sum(1 for e in R if e[1] == L) >= 2:
        c["trailing_on_shared_line"] += 1
      if res["status"] == "bad":
        for key, detail in res["keys"]:
          w = dict(res["witness"])
          w["detail"] = detail
          w["program_seed"] = pseed
          out["violations"].append({"key": key, **w})
      elif len(out["samples"]) < 2 and nt:
        out["samples"].append({"trailing_ok": {"line": src.split("\n")[L - 1], "E": E, "L": L,
                                               "spelling": spelling, "removed": res["removed"]}})
    standalone = _pick_standalone(rng, R, nlines, arg["n_standalone"])
    # a range that opens on the very first line of the file and closes right after the first
    # statement: everything from original line 2 on must be untouched
    classes_elsewhere = sorted({e[0] for e in R if e[1] and e[1] > 1})
    for E in sorted({e[0] for e in R if e[1] == 1})[:2] + (
        [rng.choice(classes_elsewhere)] if classes_elsewhere else []):
      if (E, 1, 2) not in standalone:
        standalone.append((E, 1, 2))
        c["standalone_first_line_range"] += 1
    for E, a, b in standalone:
      res = judge_standalone(src, R, S, geo, E, a, b)
      c["standalone_" + res["status"].replace("-", "_")] += 1
      if res["status"] in ("not-applicable", "crash"):
        continue
      out["n"] += 1
      c["standalone_removed_errors"] += res["inside"]
      c["standalone_late_directive_allowed"] += res["late"]
      if b is None:
        c["standalone_to_eof"] += 1
      st = geo.statement_of(a)
      if st and st[0] != a:
        c["standalone_inside_multiline_statement"] += 1
      if res["inside"] and res["outside"]:
        c["standalone_nontrivial"] += 1
        out["fps"].append(common.fp(["standalone", geo.statement_text(a), E, a - (st[0] if st else a),
                                     (b - a) if b else None, pseed]))
      if res["status"] == "bad":
        for key, detail in res["keys"]:
          w = dict(res["witness"])
          w["detail"] = detail
          w["program_seed"] = pseed
          out["violations"].append({"key": key, **w})
  if arg.get("compile_slice"):
    compile_slice(out)
  # Layer A
  c["lineset_contains_evals"] = mon.contains_evals
  c["lineset_sweep_evals"] = mon.sweep_evals
  c["lineset_mutation_evals"] = mon.mutation_evals
  c["filter_error_evals"] = mon.filter_evals
  c["directors_seen"] = mon.directors_seen
  for rec in mon.records[:20]:
    out["violations"].append({"key": "Layer A: " + rec["what"], "kind": "layerA", **rec})
  c["layerA_records"] = len(mon.records)
  out["counters"] = dict(c)
  out["classes"] = dict(out["classes"])
  out["kinds"] = dict(out["kinds"])
  return out


# ---------------------------------------------------------------------------
# driver


def run(tier, seed):
  ck = common.Check(PID, tier, seed, rule=RULE)
  rng = random.Random(f"{PID}-{seed}-tasks")
  if tier == "quick":
    nprog, per, nblocks, max_pairs, n_sa = 64, 4, (3, 7), 18, 4
  else:
    nprog, per, nblocks, max_pairs, n_sa = 360, 10, (4, 12), 40, 8
  nprog = int(os.environ.get("VERIF_C03_NPROG", nprog))   # development aid only
  seeds = [f"{seed}-{i}-{rng.randrange(1 << 30)}" for i in range(nprog)]
  tasks = []
  for i in range(0, nprog, per):
    tasks.append({"fn": "vf.checks.c03:child", "id": f"b{i // per}", "timeout": 5400, "hashseed": "0",
                  "arg": {"seeds": seeds[i:i + per], "nblocks": list(nblocks), "max_pairs": max_pairs,
                          "n_standalone": n_sa, "compile_slice": i == 0}})
  classes, kinds = collections.Counter(), collections.Counter()
  for res in pool.run_tasks(tasks):
    if not res.get("ok"):
      ck.child_failed(res, "batch " + str(res.get("task")))
      continue
    r = res["result"]
    ck.merge_cases(r["n"], r["fps"])
    for s in r["samples"]:
      ck.sample(s)
    for k, v in r["counters"].items():
      ck.count(k, v)
    classes.update(r["classes"])
    kinds.update(r["kinds"])
    for w in r["violations"]:
      ck.violation(w["key"], w)
  ck.extra["error_classes_seen"] = dict(classes)
  ck.extra["placement_blocks_used"] = dict(kinds)
  ck.extra["monitors"] = {k: ck.counters[k] for k in ("lineset_contains_evals", "lineset_sweep_evals",
                                                     "lineset_mutation_evals", "filter_error_evals",
                                                     "directors_seen")}
  ck.exhaustive = False
  ck.assumptions = [
      "a trailing comment is judged only where CPython's tokenizer confirms it is a pure comment insertion "
      "(lines ending in a backslash or inside a string literal are counted as not applicable)",
      "an unclosed stand-alone disable may add one late-directive diagnostic on its own line (documented)",
      "empty typeshed: only typing/collections/enum resolve; other imports are import-error + Any",
  ]
  judged = ck.counters["trailing_judged_disable"] + ck.counters["trailing_judged_ignore"]
  if judged == 0 or ck.counters["standalone_ok"] + ck.counters["standalone_bad"] == 0:
    ck.inconclusive("no directive placement was judged")
  if ck.counters["filter_error_evals"] == 0 or ck.counters["lineset_sweep_evals"] == 0:
    ck.inconclusive("Layer-A monitors on _LineSet / filter_error never ran")
  return ck.finish()


def replay(rec):
  from vf.oracle import c03_directives as od
  od.install_monitors()
  w = rec["witness"]
  if w.get("kind") == "layerA":
    print("Layer-A record; re-run the check:", w.get("what"))
    return 2
  if w.get("kind") == "compile":
    out = {"n": 0, "fps": [], "violations": [], "counters": collections.Counter()}
    compile_slice(out)
    hits = [v for v in out["violations"] if v["src"] == w["src"] and v["spelling"] == w["spelling"]]
    for v in hits:
      print(f"VIOLATION property={PID} replay=<replayed>")
      print("  mechanism:", v["key"])
      print("  report after:", v["report_after"])
    return 1 if hits else 0
  src = w["src"]
  S, R = _analyze(src)
  geo = od.Geometry(src)
  if w["kind"] == "trailing":
    res = judge_trailing(src, R, S, geo, w["E"], w["L"], w["spelling"])
  else:
    res = judge_standalone(src, R, S, geo, w["E"], w["a"], w["b"])
  if res["status"] == "bad":
    print(f"VIOLATION property={PID} replay=<replayed>")
    for key, detail in res["keys"]:
      print("  mechanism:", key)
      print("  detail:", detail)
    ww = res["witness"]
    if w["kind"] == "trailing":
      print("  edited line", ww["L"], ":", ww["edited_line"])
    print("  extra removed / moved:", ww["extra_removed_or_moved"])
    print("  added:", ww["added"], " not silenced:", ww["not_silenced"], " stub changed:", ww["stub_changed"])
    return 1
  print("replay:", res["status"])
  return 0
