"""C12 - serialised stubs decode to the same declarations, byte-stably; equal type
nodes hash equally.

Sources of ASTs (each judged by vf/oracle/c12_serial.check_ast):
  bundled   every stub shipped in pytype/stubs/{builtins,stdlib}, loaded through a
            real Loader (import_name) and serialised the way Loader.save_to_pickle
            does (Serialize(m.ast, src_path=m.filename)); then the whole bundle is
            written with save_to_pickle and read back through PickledPyiLoader, and
            every module is compared with a freshly loaded reference
  programs  ASTs emitted for generated programs, after
            serialize_ast.PrepareForExport(module_name, ast, loader) exactly as
            io.write_pickle does; a fraction goes through io.write_pickle itself so
            that the Layer-A monitor on SerializeAndSave is exercised
  units     vf/gen/stubs.py units: raw (NamedType), resolved (loader.resolve_ast) and
            exported (PrepareForExport)
  eqhash    all ordered pairs of ~400-600 generated type nodes
Children run under PYTHONHASHSEED 0 and 1.
"""
from __future__ import annotations

import collections
import hashlib
import os
import random

from vf import boot, common, pool

PID = "C12"
RULE = ("case = one AST pushed through Serialize -> DecodeAst -> Encode / Serialize again (8 judgements "
        "each), or one pool of type nodes for the eq/hash laws.  non-trivial AST = >=1 class, >=1 generic "
        "type and >=1 union; distinct by node-kind multiset + sha1 of the repr of the declarations.  Non-trivial pair = "
        "equal but not identical objects (counted; too few => inconclusive).")

BUNDLED = ["builtins", "typing", "mypy_extensions", "protocols", "attr", "attr._cmp",
           "attr._version_info", "attr.converters", "attr.exceptions", "attr.filters", "attr.setters",
           "attr.validators", "attrs", "numpy", "collections", "dummy_thread", "encodings", "enum"]


ALIAS_SNIPPET = '''
import collections as cc_
import enum as en_
import attr.validators as av_
lt_a = cc_.deque([1])
class LtE(en_.Enum):
  A = 1
def lt_f(x: 'cc_.defaultdict[str, en_.Enum]', y: cc_.deque = None): return x
'''


def bundled_modules():
  """Module names derived from the files actually present in the checkout."""
  root = os.path.join(boot.REPO, "pytype", "stubs")
  out = []
  for sub in ("builtins", "stdlib"):
    base = os.path.join(root, sub)
    for d, _, files in os.walk(base):
      for f in files:
        if f.endswith(".pytd"):
          rel = os.path.relpath(os.path.join(d, f), base)[:-5]
          parts = rel.split(os.sep)
          if parts[-1] == "__init__":
            parts = parts[:-1]
          out.append(".".join(parts))
  return sorted(set(out))


def _opts(pyver):
  """Options for parsing the bundled stubs as another target version.  Options.create
  insists on a pythonX.Y executable for other versions (only needed to compile sources),
  so the version is set on a 3.12 Options object; stub parsing reads just this attribute."""
  from vf import pt
  opts = pt.options()
  if tuple(pyver) != (3, 12):
    opts.python_version = tuple(pyver)
  return opts


def _fp_of(ast, data_hash):
  from vf.gen import stubs
  kinds = stubs.node_kinds(ast)
  nontrivial = (kinds.get("Class", 0) >= 1 and kinds.get("UnionType", 0) >= 1 and
                (kinds.get("GenericType", 0) + kinds.get("TupleType", 0) +
                 kinds.get("CallableType", 0)) >= 1)
  k = dict(kinds)
  return common.fp([sorted(k.items()), data_hash]), nontrivial, kinds


def _judge(o, ast, out, cnt, kinds_seen, tag, **kw):
  """check_ast + bookkeeping.  Returns violations."""
  _, nontrivial, kinds = _fp_of(ast, "")
  vs = o.check_ast(ast, counters=cnt, **kw)
  out["n"] += 1
  cnt["judged:" + tag] += 1
  kinds_seen.update(kinds.keys())
  if nontrivial:
    # after check_ast the class pointers are cleared, so repr() is finite and stable
    h = hashlib.sha1()
    for part in (ast.constants, ast.type_params, ast.classes, ast.functions, ast.aliases):
      h.update(repr(tuple(x if not hasattr(x, "_name2item") else x.Replace(_name2item=None)
                          for x in part)).encode())
    out["fps"].append(common.fp([sorted(kinds.items()), h.hexdigest()]))
  for w in vs:
    w["source"] = tag
  return vs


def child(arg):
  from vf.oracle import c12_serial as o
  kind = arg["kind"]
  out = {"n": 0, "fps": [], "violations": [], "samples": [], "counters": {}, "kinds": {}}
  cnt = collections.Counter()
  kinds_seen = collections.Counter()
  scratch = os.path.join(boot.BUILD, "scratch")
  os.makedirs(scratch, exist_ok=True)

  if kind == "bundled":
    from vf import pt
    from pytype import load_pytd
    from pytype.imports import builtin_stubs
    from pytype.pytd import pytd_utils, visitors
    pyver = tuple(arg.get("pyver", (3, 12)))
    names = bundled_modules()
    cnt["bundled_files"] = len(names)

    def fresh():
      builtin_stubs.InvalidateCache()
      ld = load_pytd.create_loader(_opts(pyver))
      got = {}
      for n in names:
        try:
          a = ld.import_name(n)
        except Exception as e:  # pylint: disable=broad-except
          cnt["bundled_import_raised:" + type(e).__name__] += 1
          a = None
        if a is None:
          cnt["bundled_not_loadable_not_judged"] += 1
        else:
          got[n] = a
      return ld, got

    try:
      # (1) per module, as PrepareModuleBundle does it
      ld, mods = fresh()
      filenames = {n: m.filename for n, m in ld._modules.items()}  # pylint: disable=protected-access
      for n in sorted(mods):
        vs = _judge(o, mods[n], out, cnt, kinds_seen, "bundled/" + n, src_path=filenames.get(n))
        for w in vs:
          w.update({"bundled": n, "pyver": list(pyver)})
          out["violations"].append(w)
      out["samples"].append({"source": "bundled", "pyver": list(pyver), "modules": sorted(mods)})
      # (2) the real bundle writer and the real pickled loader
      o.install_monitor()
      ld2, _ = fresh()
      path = os.path.join(scratch, f"c12-bundle-{os.getpid()}.pickle")
      try:
        ld2.save_to_pickle(path)           # Serialize of every module (monitored) + gzip
        cnt["bundle_saved"] += 1
        _, ref = fresh()
        pl = load_pytd.PickledPyiLoader.load_from_pickle(path, _opts(pyver))
        for n in sorted(ref):
          try:
            got = pl.import_name(n)
          except Exception as e:  # pylint: disable=broad-except
            out["violations"].append({
                "key": f"module from a pickled bundle cannot be loaded: {type(e).__name__}",
                "stage": "bundle", "bundled": n, "pyver": list(pyver), "error": str(e)[:500],
                "source": "bundle/" + n})
            continue
          out["n"] += 1
          cnt["bundle_modules_compared"] += 1
          want = ref[n].Visit(visitors.CanonicalOrderingVisitor())
          d = o.strict_diff(got, want)
          if d:
            out["violations"].append({
                "key": "module loaded from a pickled bundle differs from the freshly loaded one at " +
                       d[0].replace("[]", ""), "stage": "bundle", "bundled": n, "pyver": list(pyver),
                "where": d[0], "what": d[1], "source": "bundle/" + n})
          try:
            got.Visit(visitors.VerifyLookup())
          except Exception as e:  # pylint: disable=broad-except
            out["violations"].append({
                "key": "module loaded from a pickled bundle has unresolved class pointers",
                "stage": "bundle", "bundled": n, "pyver": list(pyver), "error": str(e)[:300],
                "source": "bundle/" + n})
          if pytd_utils.Print(got) != pytd_utils.Print(want):
            out["violations"].append({
                "key": "module loaded from a pickled bundle prints differently from the fresh one",
                "stage": "bundle", "bundled": n, "pyver": list(pyver), "source": "bundle/" + n})
      finally:
        try:
          os.unlink(path)
        except OSError:
          pass
      for w in o.drain():
        w.update({"source": "bundle-monitor", "pyver": list(pyver)})
        out["violations"].append(w)
      cnt.update({"monitor:" + k: v for k, v in o.COUNTERS.items()})
    finally:
      builtin_stubs.InvalidateCache()

  elif kind == "programs":
    from vf import pt
    from vf.gen import programs
    from vf.checks import c05
    from pytype import io, load_pytd
    from pytype.imports import pickle_utils
    from pytype.pytd import serialize_ast
    o.install_monitor()
    for idx, (flavour, seed) in enumerate(arg["cases"]):
      rng = random.Random(seed)
      src = (programs.generate(rng) if flavour == "gen" else
             c05.junk_program(rng) if flavour == "junk" else c05.feature_program(rng))
      if rng.random() < 0.35:
        # external classes behind module aliases become LateType('alias.X') in the exported
        # AST; SerializeAst must undo the alias
        src += ALIAS_SNIPPET
      modname = rng.choice(["m", "pkg.mod", "a.b.c", "pkg.__init__"])
      opts = pt.options(module_name=modname)
      loader = load_pytd.create_loader(opts)
      try:
        res = pt.analyze(src, loader=loader, opts=opts)
      except Exception as e:  # pylint: disable=broad-except
        cnt["analysis_raised_not_judged"] += 1
        continue
      cnt["programs_analysed:" + flavour] += 1
      try:
        exported = serialize_ast.PrepareForExport(modname, res.ast, loader)
      except Exception as e:  # pylint: disable=broad-except
        cnt["prepare_for_export_raised_not_judged(C05 matter)"] += 1
        cnt["prepare_for_export_raised:" + type(e).__name__] += 1
        continue
      md = rng.choice([None, [], ["k=v"], ["a", "b=c", "é"]])
      sp = rng.choice([None, "prog.py", "dir/prog.py"])
      vs = _judge(o, exported, out, cnt, kinds_seen, "program/" + flavour, src_path=sp, metadata=md)
      for w in vs:
        w.update({"program": src, "seed": seed, "module_name": modname, "src_path": sp,
                  "metadata": md})
        out["violations"].append(w)
      if idx % 3 == 0:
        # the real writer: io.write_pickle -> PrepareForExport -> SerializeAndSave (monitored)
        path = os.path.join(scratch, f"c12-{os.getpid()}-{idx}.pickle")
        try:
          res2 = pt.analyze(src, loader=loader, opts=opts)
          opts.output = path
          opts.pickle_metadata = md
          opts.verify_pickle = None
          before = o.COUNTERS["evaluations"]
          io.write_pickle(res2.ast, opts, loader)
          cnt["write_pickle_calls"] += 1
          if o.COUNTERS["evaluations"] == before:
            cnt["monitor_missed_write_pickle"] += 1
          with open(path, "rb") as f:
            disk = f.read()
          dec = pickle_utils.DecodeAst(disk)
          out["n"] += 1
          if pickle_utils.Encode(dec) != disk:
            out["violations"].append({"key": "file written by write_pickle is not byte-stable under "
                                             "decode/encode", "stage": "file", "program": src,
                                      "seed": seed, "source": "write_pickle"})
        except Exception as e:  # pylint: disable=broad-except
          cnt["write_pickle_raised_not_judged"] += 1
          cnt["write_pickle_raised:" + type(e).__name__] += 1
        finally:
          try:
            os.unlink(path)
          except OSError:
            pass
        for w in o.drain():
          w.update({"program": src, "seed": seed, "source": "write_pickle-monitor"})
          out["violations"].append(w)
      if len(out["samples"]) < 1:
        out["samples"].append({"source": "program/" + flavour, "module_name": modname,
                               "classes": len(exported.classes), "functions": len(exported.functions),
                               "constants": len(exported.constants)})
    cnt.update({"monitor:" + k: v for k, v in o.COUNTERS.items()})

  elif kind == "aliasmods":
    # stub texts / programs over local stub modules imported under aliases, forward-referenced
    # union aliases, unions whose members become equal once resolved (vf/gen/c12_stubtext.py)
    import shutil
    from vf import pt
    from vf.gen import c12_stubtext as st
    from pytype import load_pytd
    from pytype.pytd import serialize_ast
    o.install_monitor()
    moddir = os.path.join(scratch, f"c12-mods-{os.getpid()}")
    shutil.rmtree(moddir, ignore_errors=True)
    os.makedirs(moddir)
    try:
      st.write_modules(moddir)
      for i in range(arg["texts"]):
        seed = f"{arg['seed']}-t{i}"
        rng = random.Random(seed)
        modname = rng.choice(["mod", "mod", "pkg2.sub", "pkg2.__init__"])
        text = st.generate_stub_text(rng)
        opts = pt.options(module_name=modname, pythonpath=moddir)
        loader = load_pytd.create_loader(opts)
        try:
          ast = serialize_ast.SourceToExportableAst(modname, text, loader)
        except Exception as e:  # pylint: disable=broad-except
          cnt["stubtext_not_loadable_not_judged"] += 1
          cnt["stubtext_not_loadable:" + type(e).__name__] += 1
          continue
        vs = _judge(o, ast, out, cnt, kinds_seen, "stubtext/exported",
                    src_path=rng.choice([None, "mod.pyi"]), metadata=rng.choice([None, ["k"]]))
        for w in vs:
          w.update({"seed": seed, "stub_text": text, "module_name": modname})
          out["violations"].append(w)
        # the same text the way the loader ingests a dependency: load_file + resolve
        try:
          path = os.path.join(moddir, f"hand{i}.pyi")
          with open(path, "w") as f:
            f.write(text)
          loader2 = load_pytd.create_loader(pt.options(module_name="user", pythonpath=moddir))
          loaded = loader2.load_file(f"hand{i}", path)
        except Exception as e:  # pylint: disable=broad-except
          cnt["stubtext_load_file_failed_not_judged"] += 1
          cnt["stubtext_load_file_failed:" + type(e).__name__] += 1
        else:
          vs = _judge(o, loaded, out, cnt, kinds_seen, "stubtext/loaded", src_path=path)
          for w in vs:
            w.update({"seed": seed, "stub_text": text, "module_name": f"hand{i}"})
            out["violations"].append(w)
        if i == 0:
          out["samples"].append({"source": "stubtext", "seed": seed, "text": text[:700]})
      for i in range(arg["programs"]):
        seed = f"{arg['seed']}-p{i}"
        rng = random.Random(seed)
        src = st.generate_program(rng)
        modname = rng.choice(["mod", "pkg2.__init__"])
        opts = pt.options(module_name=modname, pythonpath=moddir)
        loader = load_pytd.create_loader(opts)
        try:
          res = pt.analyze(src, loader=loader, opts=opts)
          exported = serialize_ast.PrepareForExport(modname, res.ast, loader)
        except Exception as e:  # pylint: disable=broad-except
          cnt["alias_program_not_judged"] += 1
          cnt["alias_program_not_judged:" + type(e).__name__] += 1
          continue
        vs = _judge(o, exported, out, cnt, kinds_seen, "aliasprogram/exported")
        for w in vs:
          w.update({"seed": seed, "program": src, "module_name": modname, "needs_modules": True})
          out["violations"].append(w)
      cnt.update({"monitor:" + k: v for k, v in o.COUNTERS.items()})
    finally:
      shutil.rmtree(moddir, ignore_errors=True)

  elif kind == "units":
    from vf import pt
    from vf.gen import stubs
    from pytype import load_pytd
    from pytype.pytd import serialize_ast
    loader = load_pytd.create_loader(pt.options())
    for i in range(arg["count"]):
      seed = f"{arg['seed']}-{i}"
      rng = random.Random(seed)
      name = rng.choice(["m", "m", "pkg.mod", "pkg.__init__"])
      try:
        unit = stubs.generate_unit(rng, name=name, canonical=rng.random() < 0.7)
      except Exception as e:  # pylint: disable=broad-except
        cnt["generator_error"] += 1
        continue
      variants = [("raw", unit)]
      try:
        variants.append(("resolved", stubs.resolve_unit(unit, loader)))
      except Exception as e:  # pylint: disable=broad-except
        cnt["resolve_failed_not_judged"] += 1
      try:
        variants.append(("exported", serialize_ast.PrepareForExport(name, unit, loader)))
      except Exception as e:  # pylint: disable=broad-except
        cnt["prepare_for_export_raised_not_judged(C05 matter)"] += 1
      for vname, u in variants:
        md = rng.choice([None, ["x"]])
        vs = _judge(o, u, out, cnt, kinds_seen, "unit/" + vname, src_path=rng.choice([None, "u.pyi"]),
                    metadata=md)
        for w in vs:
          w.update({"seed": seed, "variant": vname, "unit_name": name})
          out["violations"].append(w)
      if i < 1:
        out["samples"].append({"source": "unit", "seed": seed, "variants": [v for v, _ in variants],
                               "kinds": dict(stubs.node_kinds(unit))})

  elif kind == "eqhash":
    from vf.gen import stubs
    for p in range(arg["pools"]):
      seed = f"{arg['seed']}-{p}"
      rng = random.Random(seed)
      nodes = stubs.type_pool(rng, arg.get("size", 400))
      c2 = collections.Counter()
      vs = o.eqhash_pool(nodes, rng, c2)
      cnt.update(c2)
      cnt["pools"] += 1
      cnt["pool_nodes"] += len(nodes)
      out["n"] += 1
      kinds_seen.update(type(x).__name__ for x in nodes)
      if c2["pairs_equal_not_identical"] >= 100:
        out["fps"].append(common.fp(["pool", seed]))
      for w in vs:
        w.update({"seed": seed, "source": "eqhash", "size": arg.get("size", 400)})
        out["violations"].append(w)
      if p == 0:
        out["samples"].append({"source": "eqhash", "seed": seed, "nodes": len(nodes),
                               "equal_not_identical_pairs": c2["pairs_equal_not_identical"],
                               "equality_classes": c2["equality_classes"]})
  out["counters"] = dict(cnt)
  out["kinds"] = dict(kinds_seen)
  for w in out["violations"]:
    for k, v in list(w.items()):
      if isinstance(v, str) and len(v) > 6000:
        w[k] = v[:6000] + "...<cut>"
  return out


# ---------------------------------------------------------------------------


def _tasks(tier, seed):
  rng = random.Random(f"{PID}-{seed}-{tier}")
  if tier == "quick":
    n_prog, per, n_unit, units_per, n_eq, pools = 10, 10, 8, 30, 2, 2
    n_alias, alias_texts, alias_progs = 4, 30, 4
    pyvers = [(3, 12), (3, 10)]
  else:
    n_prog, per, n_unit, units_per, n_eq, pools = 40, 30, 32, 150, 8, 6
    n_alias, alias_texts, alias_progs = 16, 150, 20
    pyvers = [(3, 12), (3, 11), (3, 10), (3, 9), (3, 8)]
  tasks = []
  for pv in pyvers:
    for hs in ("0", "1"):
      tasks.append({"fn": "vf.checks.c12:child", "id": f"bundled{pv}-{hs}", "timeout": 2400,
                    "hashseed": hs, "arg": {"kind": "bundled", "pyver": list(pv)}})
  for b in range(n_prog):
    cases = [[("gen", "feat", "junk", "feat")[j % 4], rng.randrange(1 << 40)] for j in range(per)]
    tasks.append({"fn": "vf.checks.c12:child", "id": f"prog{b}", "timeout": 2400, "hashseed": str(b % 2),
                  "arg": {"kind": "programs", "cases": cases}})
  for b in range(n_unit):
    tasks.append({"fn": "vf.checks.c12:child", "id": f"unit{b}", "timeout": 2400, "hashseed": str(b % 2),
                  "arg": {"kind": "units", "seed": f"{PID}-{seed}-{tier}-u{b}", "count": units_per}})
  for b in range(n_alias):
    tasks.append({"fn": "vf.checks.c12:child", "id": f"alias{b}", "timeout": 2400, "hashseed": str(b % 2),
                  "arg": {"kind": "aliasmods", "seed": f"{PID}-{seed}-{tier}-a{b}", "texts": alias_texts,
                          "programs": alias_progs}})
  for b in range(n_eq):
    tasks.append({"fn": "vf.checks.c12:child", "id": f"eq{b}", "timeout": 2400, "hashseed": str(b % 2),
                  "arg": {"kind": "eqhash", "seed": f"{PID}-{seed}-{tier}-e{b}", "pools": pools,
                          "size": 400}})
  return tasks


def run(tier, seed) -> int:
  ck = common.Check(PID, tier, seed, rule=RULE)
  kinds = collections.Counter()
  for res in pool.run_tasks(_tasks(tier, seed)):
    if not res.get("ok"):
      ck.child_failed(res, "batch " + str(res.get("task")))
      continue
    r = res["result"]
    ck.merge_cases(r["n"], r["fps"])
    for s in r["samples"]:
      ck.sample(s)
    for k, v in r["counters"].items():
      ck.count(k, v)
    kinds.update(r["kinds"])
    for w in r["violations"]:
      ck.violation(w["key"], w)
  ck.extra["pytd_node_kinds_seen"] = dict(kinds)
  ck.assumptions = [
      "expected AST = CanonicalOrderingVisitor(UndoModuleAliasesVisitor(rename(U))) with class pointers "
      "cleared, i.e. pytype's own preparation steps re-applied by the oracle; the comparison itself "
      "(strict field walk, bytes) is independent of pytype's node equality",
      "typeshed is empty: only bundled stubs resolve",
  ]
  c = ck.counters
  if c.get("pairs_equal_not_identical", 0) < 1000:
    ck.inconclusive(f"only {c.get('pairs_equal_not_identical', 0)} equal-but-not-identical pairs in the "
                    "eq/hash pools")
  if not any(k.startswith("judged:bundled") for k in c):
    ck.inconclusive("no bundled stub was judged")
  if not any(k.startswith("judged:program") for k in c):
    ck.inconclusive("no emitted AST was judged")
  if not any(k.startswith("judged:unit") for k in c):
    ck.inconclusive("no generated unit was judged")
  if not any(k.startswith("judged:stubtext") for k in c):
    ck.inconclusive("no hand-written-style stub text was judged")
  if c.get("late_types_behind_alias", 0) == 0:
    ck.inconclusive("no LateType behind a module alias was serialised")
  if c.get("raw_sorted_collections_judged", 0) == 0:
    ck.inconclusive("the raw canonical-order walk never judged a collection")
  if c.get("monitor:evaluations", 0) == 0:
    ck.inconclusive("the pickle_utils.Serialize monitor never ran")
  return ck.finish()


def replay(rec) -> int:
  boot.activate()
  from vf.oracle import c12_serial as o
  w = rec["witness"]
  src = str(w.get("source", ""))
  vs = []
  if src == "eqhash":
    from vf.gen import stubs
    rng = random.Random(w["seed"])
    nodes = stubs.type_pool(rng, w.get("size", 400))
    vs = o.eqhash_pool(nodes, rng)
  elif src.startswith("unit/"):
    from vf import pt
    from vf.gen import stubs
    from pytype import load_pytd
    from pytype.pytd import serialize_ast
    rng = random.Random(w["seed"])
    name = rng.choice(["m", "m", "pkg.mod", "pkg.__init__"])
    unit = stubs.generate_unit(rng, name=name, canonical=rng.random() < 0.7)
    loader = load_pytd.create_loader(pt.options())
    v = w.get("variant")
    u = (unit if v == "raw" else stubs.resolve_unit(unit, loader) if v == "resolved" else
         serialize_ast.PrepareForExport(name, unit, loader))
    vs = o.check_ast(u)
  elif w.get("stub_text") or w.get("needs_modules"):
    import shutil
    from vf import pt
    from vf.gen import c12_stubtext as st
    from pytype import load_pytd
    from pytype.pytd import serialize_ast
    moddir = os.path.join(boot.BUILD, "scratch", f"c12-mods-replay-{os.getpid()}")
    os.makedirs(moddir, exist_ok=True)
    try:
      st.write_modules(moddir)
      name = w.get("module_name", "mod")
      if src == "stubtext/loaded":
        path = os.path.join(moddir, name + ".pyi")
        with open(path, "w") as f:
          f.write(w["stub_text"])
        ld = load_pytd.create_loader(pt.options(module_name="user", pythonpath=moddir))
        u = ld.load_file(name, path)
      else:
        opts = pt.options(module_name=name, pythonpath=moddir)
        ld = load_pytd.create_loader(opts)
        if w.get("stub_text"):
          u = serialize_ast.SourceToExportableAst(name, w["stub_text"], ld)
        else:
          res = pt.analyze(w["program"], loader=ld, opts=opts)
          u = serialize_ast.PrepareForExport(name, res.ast, ld)
      vs = o.check_ast(u)
    finally:
      shutil.rmtree(moddir, ignore_errors=True)
  elif w.get("program"):
    from vf import pt
    from pytype import load_pytd
    from pytype.pytd import serialize_ast
    opts = pt.options(module_name=w.get("module_name", "m"))
    loader = load_pytd.create_loader(opts)
    res = pt.analyze(w["program"], loader=loader, opts=opts)
    u = serialize_ast.PrepareForExport(w.get("module_name", "m"), res.ast, loader)
    vs = o.check_ast(u, src_path=w.get("src_path"), metadata=w.get("metadata"))
  elif w.get("bundled"):
    r = child({"kind": "bundled", "pyver": w.get("pyver", [3, 12])})
    vs = r["violations"]
  hit = [x for x in vs if x["key"] == rec["key"]]
  print(f"replay C12: {len(vs)} violation(s), {len(hit)} with the recorded mechanism")
  for x in vs[:5]:
    print("  mechanism:", x["key"])
  if hit:
    print("VIOLATION property=C12 replay=<replayed>")
    print("  mechanism:", rec["key"])
    return 1
  return 0
