"""C18 - flow conditions and block-state merging preserve meaning (rewrite engine).

Oracle (vf/oracle/c18_model.py): truth tables over the 8 valuations of three
opaque atoms P, Q, R, and a shadow denotational model of a block state
(sigma -> name -> set of values) maintained by the obvious rules
(store: the value under the state's condition; with_condition: intersect with c;
merge: union).

Part 1, conditions: every term to depth 3 built through conditions.And/Or/Not
from P, Q, R, TRUE, FALSE; truth table of the result == plain connective of the
truth tables of the arguments; structural promises of the design (Not(Not(c))
gives back c, no TRUE/FALSE as a member of a composite).
Part 2, Variable.with_condition: every binding's condition becomes (old and c).
Part 3, states: block states explored breadth-first from BlockState({}) and
BlockState({x: V1}) through the PUBLIC operations only (store_local,
store_local(n, load_local(m)), with_condition, merge_into(None), merge_into(S')),
2 names x 2 values; after EVERY operation den(real state) is compared with the
model for all 8 valuations, where
  den(S)(sigma)(n) = {b.value | sigma |= b.condition and
                      (n in S._locals_with_block_condition => sigma |= S._condition)}.
"""
from __future__ import annotations

import itertools
import random

from vf import common, pool

PID = "C18"
NAMES = ["x", "y"]
VALUES = ["V1", "V2"]
HASHSEEDS = ["0", "1", "2"]
MAXV = 12


def _lits():
  return [["A", i] for i in range(3)] + [["Not", ["A", i]] for i in range(3)]


def cond_exprs_all():
  """Depth<=1 terms over the atoms and their negations (+ TRUE, FALSE)."""
  lits = _lits()
  out = list(lits) + [["T"], ["F"]]
  for a, b in itertools.combinations(lits, 2):
    out.append(["And", [a, b]])
    out.append(["Or", [a, b]])
  return out


def cond_exprs_small():
  P, Q, R = (["A", i] for i in range(3))
  return [P, ["Not", P], Q, ["Not", Q], ["And", [P, Q]], ["Or", [["Not", P], R]]]


# ---------------------------------------------------------------------------
# child side


class Ctx:
  def __init__(self):
    from pytype.rewrite.flow import conditions, state, variables
    from vf.oracle import c18_model as M
    self.C, self.S, self.V, self.M = conditions, state, variables, M
    self.c = {}
    self.violations = []
    self.nviol = 0
    self.samples = []
    self.cases = 0
    self.nt = 0
    self.memo = {}

  def count(self, k, n=1):
    self.c[k] = self.c.get(k, 0) + n

  def viol(self, key, **w):
    self.nviol += 1
    if len(self.violations) < MAXV:
      w["key"] = key
      self.violations.append(w)


# -- part 1: condition terms


def check_cond_ctor(ctx, opname, args, exprs, fresh=True):
  """One call of And/Or/Not on real conditions built earlier. Returns the result."""
  C, M = ctx.C, ctx.M
  ctx.cases += 1
  ctx.count("condition_constructor_evals")
  expr = ["Not", exprs[0]] if opname == "Not" else [opname, exprs]
  try:
    if opname == "Not":
      r = C.Not(args[0])
    elif opname == "And":
      r = C.And(*args)
    else:
      r = C.Or(*args)
  except Exception as e:  # pylint: disable=broad-except
    ctx.viol(f"conditions.{opname} raised {type(e).__name__}", expr=expr, error=repr(e))
    return None
  masks = [M.tt(a, ctx.memo) for a in args]
  if opname == "Not":
    want = M.FULL & ~masks[0]
  elif opname == "And":
    want = M.FULL
    for m in masks:
      want &= m
  else:
    want = 0
    for m in masks:
      want |= m
  try:
    got = M.tt(r)
  except TypeError as e:
    ctx.viol(f"conditions.{opname} returned something that is not a condition", expr=expr, error=repr(e))
    return None
  kinds = ",".join(sorted({type(a).__name__ for a in args}))
  if got != want:
    d = got ^ want
    k = (d & -d).bit_length() - 1
    ctx.viol(f"conditions.{opname} is not equivalent to the plain connective (argument kinds: {kinds})",
             expr=expr, shown=M.show(expr), result=repr(r), valuation=M.valuation(k),
             result_true=bool(got >> k & 1), expected_true=bool(want >> k & 1))
  if ctx.cases & 31 == 0 or ctx.cases < 5000:
    # oracle self-check (sampled): truth tables read from the real arguments == the expression's
    ctx.count("oracle_selfcheck_expression_truth_table")
    if want != M.expr_tt(expr):
      raise AssertionError("oracle self-check: argument truth tables differ from the expression's")
  bad = M.malformed(r)
  if bad:
    ctx.viol(f"conditions.{opname} result has TRUE/FALSE as a member of a composite",
             expr=expr, shown=M.show(expr), result=repr(r), detail=bad)
  if fresh:
    ctx.nt += bin(got).count("1") not in (0, 8)
  ctx.count("condition_result_kind_" + type(r).__name__)
  return r


def check_double_negation(ctx, c, expr):
  """Not(Not(c)) gives back c: the very object unless c is itself a negation
  (then Not(c) unwraps it and Not of that builds an equal object)."""
  C = ctx.C
  ctx.cases += 1
  ctx.count("double_negation_evals")
  try:
    r = C.Not(C.Not(c))
  except Exception as e:  # pylint: disable=broad-except
    ctx.viol(f"conditions.Not raised {type(e).__name__}", expr=["Not", ["Not", expr]], error=repr(e))
    return
  if type(c) is C._Not:  # pylint: disable=protected-access,unidiomatic-typecheck
    ok = r == c
    ctx.count("double_negation_of_a_negation(equal, not identical)" if r is not c else
              "double_negation_of_a_negation(identical)")
  else:
    ok = r is c
  if not ok:
    ctx.viol("Not(Not(c)) does not give back c", expr=["Not", ["Not", expr]], c=repr(c), result=repr(r))


def cond_levels(ctx, depth, check):
  """levels[k] = {canonical key: (real condition, expression)}; closure under
  Not and And/Or of ORDERED pairs."""
  M = ctx.M
  base = [["A", 0], ["A", 1], ["A", 2], ["T"], ["F"]]
  cur = {}
  for e in base:
    c = M.build(e)
    cur[M.key(c)] = (c, e)
  levels = [cur]
  for _ in range(depth):
    prev = levels[-1]
    below = levels[-2] if len(levels) > 1 else {}
    items = [(k, prev[k]) for k in sorted(prev, key=repr)]
    new = dict(prev)
    for ks, (s, es) in items:
      if check:
        r = check_cond_ctor(ctx, "Not", [s], [es], fresh=ks not in below)
        check_double_negation(ctx, s, es)
      else:
        r = ctx.C.Not(s)
      if r is not None:
        new.setdefault(M.key(r), (r, ["Not", es]))
      for kt, (t, et) in items:
        fresh = not (ks in below and kt in below)
        for opname in ("And", "Or"):
          if check:
            r = check_cond_ctor(ctx, opname, [s, t], [es, et], fresh=fresh)
          else:
            r = (ctx.C.And if opname == "And" else ctx.C.Or)(s, t)
          if r is not None:
            new.setdefault(M.key(r), (r, [opname, [es, et]]))
    levels.append(new)
  return levels


def child_conds(arg):
  ctx = Ctx()
  rng = random.Random(arg["seed"])
  depth = arg.get("depth", 3)
  levels = cond_levels(ctx, depth, True)
  # other arities (make(*args) is variadic): 0, 1, 3 arguments
  for opname in ("And", "Or"):
    check_cond_ctor(ctx, opname, [], [], fresh=False)
  l1 = [levels[1][k] for k in sorted(levels[1], key=repr)]
  l2 = [levels[2][k] for k in sorted(levels[2], key=repr)]
  for (s, es) in l2:
    for opname in ("And", "Or"):
      check_cond_ctor(ctx, opname, [s], [es], fresh=False)
  for (s, es), (t, et), (w, ew) in itertools.product(l1, repeat=3):
    for opname in ("And", "Or"):
      check_cond_ctor(ctx, opname, [s, t, w], [es, et, ew], fresh=False)
  for _ in range(arg.get("triples", 20000)):
    pick = [rng.choice(l2) for _ in range(rng.choice([3, 3, 4]))]
    check_cond_ctor(ctx, rng.choice(["And", "Or"]), [p[0] for p in pick], [p[1] for p in pick], fresh=False)
  top = levels[-1]
  ks = sorted(top, key=repr)
  ctx.samples.append({"condition_term": ctx.M.show(top[ks[len(ks) // 2]][1]),
                      "real": repr(top[ks[len(ks) // 2]][0])})
  return {"n": ctx.cases, "nontrivial": ctx.nt, "fps": [], "counters": ctx.c, "violations": ctx.violations,
          "nviol": ctx.nviol, "samples": ctx.samples, "info": {"cond_level_sizes": [len(l) for l in levels]}}


# -- part 3: states


class Node:
  """A reached state: the real object, its model and the history that built it."""
  __slots__ = ("real", "model", "hist")

  def __init__(self, real, model, hist):
    self.real, self.model, self.hist = real, model, hist


def replay_hist(ctx, h):
  """Re-executes a history through the public operations; returns a fresh real state."""
  S, V, M = ctx.S, ctx.V, ctx.M
  k = h[0]
  if k == "new":
    return S.BlockState({n: V.Variable.from_value(v) for n, v in h[1].items()})
  if k == "store":
    s = replay_hist(ctx, h[1])
    s.store_local(h[2], V.Variable.from_value(h[3]))
    return s
  if k == "copy":
    s = replay_hist(ctx, h[1])
    s.store_local(h[2], s.load_local(h[3]))
    return s
  if k == "cond":
    return replay_hist(ctx, h[1]).with_condition(M.build(h[2]))
  if k == "mergeN":
    return replay_hist(ctx, h[1]).merge_into(None)
  if k == "merge":
    return replay_hist(ctx, h[1]).merge_into(replay_hist(ctx, h[2]))
  raise ValueError(h)


def model_of_hist(ctx, h):
  M = ctx.M
  k = h[0]
  if k == "new":
    return M.Model.new(h[1])
  if k == "store":
    return model_of_hist(ctx, h[1]).store_value(h[2], h[3])
  if k == "copy":
    return model_of_hist(ctx, h[1]).store_copy(h[2], h[3])
  if k == "cond":
    return model_of_hist(ctx, h[1]).with_condition(M.expr_tt(h[2]))
  if k == "mergeN":
    return model_of_hist(ctx, h[1]).copy()
  if k == "merge":
    return model_of_hist(ctx, h[1]).merge(model_of_hist(ctx, h[2]))
  raise ValueError(h)


def show_hist(ctx, h):
  M = ctx.M
  k = h[0]
  if k == "new":
    return f"BlockState({h[1]})"
  if k == "store":
    return f"{show_hist(ctx, h[1])}.store_local({h[2]!r}, {h[3]})"
  if k == "copy":
    return f"{show_hist(ctx, h[1])}.store_local({h[2]!r}, load_local({h[3]!r}))"
  if k == "cond":
    return f"{show_hist(ctx, h[1])}.with_condition({M.show(h[2])})"
  if k == "mergeN":
    return f"{show_hist(ctx, h[1])}.merge_into(None)"
  return f"[{show_hist(ctx, h[1])}].merge_into([{show_hist(ctx, h[2])}])"


def op_mechanism(ctx, hist, real_inputs, diff):
  """Mechanism string of a disagreement: the operation, the direction, and how the
  differing name is held by each input state."""
  # pylint: disable=protected-access
  names = {"store": "store_local(value)", "copy": "store_local(load_local)", "cond": "with_condition",
           "mergeN": "merge_into(None)", "merge": "merge_into", "new": "BlockState(...)"}
  n = diff["name"] if diff else None
  direction = ("real state has a value the model excludes" if diff and diff["real_has_value"]
               else "real state lacks a value the model includes")

  def held(s):
    if n not in s._locals:
      return "absent"
    return "block-conditioned" if n in s._locals_with_block_condition else "explicitly conditioned"
  parts = [f"{held(s)} in {who}" for s, who in zip(real_inputs, ("self", "other"))]
  same = ""
  if len(real_inputs) == 2 and all(n in s._locals for s in real_inputs):
    if real_inputs[0]._locals[n] == real_inputs[1]._locals[n]:
      same = " (same variable in both)"
  return f"{names[hist[0]]}: {direction}; the name is " + " and ".join(parts) + same


def compare(ctx, real, model, hist, inputs, what="den(real) differs from the model after"):
  """den(real) vs model for all valuations.  Returns True if they agree."""
  M = ctx.M
  ctx.cases += 1
  d_real = M.den_state(real, ctx.memo)
  d_model = model.den()
  if d_real == d_model:
    # observed only: the state's own condition and the bookkeeping invariant
    if M.tt(real._condition, ctx.memo) != model.cond:  # pylint: disable=protected-access
      ctx.count("state_condition_differs_from_model(observed, shows up at the next store)")
    if not real._locals_with_block_condition <= set(real._locals):  # pylint: disable=protected-access
      ctx.count("block_condition_set_not_subset_of_locals(observed)")
    return True
  diff = M.first_difference(d_real, d_model)
  ctx.viol(f"{what} {op_mechanism(ctx, hist, inputs, diff)}",
           history=hist, shown=show_hist(ctx, hist), real=repr(real), difference=diff)
  return False


def apply_unary(ctx, node, op):
  """Applies one unary public operation to (a fresh copy of) node; returns a new Node or None."""
  M, V = ctx.M, ctx.V
  k = op[0]
  try:
    if k == "store":
      real = replay_hist(ctx, node.hist)
      inputs = [node.real]
      real.store_local(op[1], V.Variable.from_value(op[2]))
      hist = ["store", node.hist, op[1], op[2]]
      model = node.model.store_value(op[1], op[2])
    elif k == "copy":
      if op[2] not in node.real._locals:  # pylint: disable=protected-access
        return None
      real = replay_hist(ctx, node.hist)
      inputs = [node.real]
      real.store_local(op[1], real.load_local(op[2]))
      hist = ["copy", node.hist, op[1], op[2]]
      model = node.model.store_copy(op[1], op[2])
    elif k == "cond":
      real = node.real.with_condition(op[2])
      inputs = [node.real]
      hist = ["cond", node.hist, op[1]]
      model = node.model.with_condition(op[3])
    elif k == "mergeN":
      real = node.real.merge_into(None)
      inputs = [node.real]
      hist = ["mergeN", node.hist]
      model = node.model.copy()
    else:
      raise ValueError(op)
  except Exception as e:  # pylint: disable=broad-except
    ctx.viol(f"{k} raised {type(e).__name__} on a state reached through the public operations",
             history=node.hist, operation=[str(x) for x in op[:3]], error=repr(e))
    return None
  ctx.count("op_" + k)
  if not compare(ctx, real, model, hist, inputs):
    return None          # never explore from a state that already disagrees with its model
  return Node(real, model, hist)


def apply_merge(ctx, a, b):
  try:
    real = a.real.merge_into(b.real)
  except Exception as e:  # pylint: disable=broad-except
    ctx.viol(f"merge_into raised {type(e).__name__} on states reached through the public operations",
             history=["merge", a.hist, b.hist], error=repr(e))
    return None
  hist = ["merge", a.hist, b.hist]
  model = a.model.merge(b.model)
  ctx.count("op_merge")
  if not compare(ctx, real, model, hist, [a.real, b.real]):
    return None
  return Node(real, model, hist)


def unary_ops(ctx, conds):
  ops = []
  for n in NAMES:
    for v in VALUES:
      ops.append(("store", n, v))
  for n in NAMES:
    for m in NAMES:
      ops.append(("copy", n, m))
  for e, c, m in conds:
    ops.append(("cond", e, c, m))
  ops.append(("mergeN",))
  return ops


def build_conds(ctx, exprs):
  M = ctx.M
  out, seen = [], set()
  for e in exprs:
    c = M.build(e)
    k = M.key(c)
    if k in seen:
      continue
    seen.add(k)
    out.append((e, c, M.expr_tt(e)))
  return out


def generation(ctx, nodes, conds, check_keys=None):
  """One breadth-first step: every unary op on every node, every ordered pair merged.
  Returns the dict of all nodes (old + new), deduplicated by complete structure."""
  M = ctx.M
  out = dict(nodes)
  order = [nodes[k] for k in sorted(nodes, key=repr)]
  ops = unary_ops(ctx, conds)
  for nd in order:
    for op in ops:
      r = apply_unary(ctx, nd, op)
      if r is not None:
        out.setdefault(M.state_key(r.real), r)
    for other in order:
      r = apply_merge(ctx, nd, other)
      if r is not None:
        ctx.nt += nd.model.differs_on(other.model)
        out.setdefault(M.state_key(r.real), r)
  return out


def starts(ctx):
  M = ctx.M
  out = {}
  for init in ({}, {"x": "V1"}):
    h = ["new", init]
    real = replay_hist(ctx, h)
    nd = Node(real, M.Model.new(init), h)
    if compare(ctx, real, nd.model, h, []):
      out[M.state_key(real)] = nd
  return out


def with_condition_of_variables(ctx, nodes, conds):
  """Variable.with_condition(c): same values, names, order; each binding's condition == old and c."""
  M = ctx.M
  seen = set()
  for k in sorted(nodes, key=repr):
    s = nodes[k].real
    for n, var in s._locals.items():  # pylint: disable=protected-access
      vk = (var.name, tuple((b.value, M.key(b.condition)) for b in var.bindings))
      if vk in seen:
        continue
      seen.add(vk)
      for e, c, cm in conds:
        ctx.cases += 1
        ctx.count("variable_with_condition_evals")
        try:
          r = var.with_condition(c)
        except Exception as ex:  # pylint: disable=broad-except
          ctx.viol(f"Variable.with_condition raised {type(ex).__name__}", variable=repr(var),
                   condition=M.show(e), error=repr(ex))
          continue
        ok = (len(r.bindings) == len(var.bindings) and r.name == var.name and
              all(rb.value == b.value and M.tt(rb.condition) == (M.tt(b.condition) & cm)
                  for rb, b in zip(r.bindings, var.bindings)))
        ctx.nt += any(b.condition is not ctx.C.TRUE for b in var.bindings) and cm not in (0, M.FULL)
        if not ok:
          kind = "conditioned" if any(b.condition is not ctx.C.TRUE for b in var.bindings) else "unconditioned"
          ctx.viol(f"Variable.with_condition does not restrict each binding by exactly the condition "
                   f"({kind} variable)", variable=repr(var), condition=M.show(e), result=repr(r))
  ctx.count("distinct_variables_conditioned", len(seen))


def child_states(arg):
  """what = 'gen2'   : generations 0..2 completely (all checks)
            'pairs'  : merges of generation-2 states: rows i = shard mod nshards, all j (stride) + follow-ups
            'unary3' : every unary op on the generation-2 states with index in the shard + follow-ups
            'walk'   : random population walks (aliasing between states is visible here)"""
  ctx = Ctx()
  M = ctx.M
  rng = random.Random(arg["seed"])
  what = arg["what"]
  conds_all = build_conds(ctx, cond_exprs_all())
  conds_small = build_conds(ctx, cond_exprs_small())
  info = {}

  if what == "walk":
    return walks(ctx, arg, rng, conds_all)

  quiet = what != "gen2"
  g0 = starts(ctx)
  g1 = generation(ctx, g0, conds_all)
  g2 = generation(ctx, g1, conds_all)
  info["generation_sizes"] = [len(g0), len(g1), len(g2)]
  if quiet:
    # generations 0..2 are judged and counted by the 'gen2' child; here they only provide inputs
    if ctx.nviol:
      ctx.violations, ctx.nviol = [], 0
    ctx.cases, ctx.nt, ctx.c = 0, 0, {}
  order = [g2[k] for k in sorted(g2, key=repr)]
  n = len(order)

  def follow_ups(nd):
    """A 4th step on a result: a store makes the state's own condition visible,
    then a condition, a copy and a merge with a random generation-2 state."""
    ctx.count("follow_up_chains")
    r = apply_unary(ctx, nd, ("store", rng.choice(NAMES), rng.choice(VALUES)))
    if r is None:
      return
    e, c, m = rng.choice(conds_small)
    r2 = apply_unary(ctx, r, ("cond", e, c, m))
    if r2 is None:
      return
    other = order[rng.randrange(n)]
    r3 = apply_merge(ctx, r2, other) if rng.random() < 0.5 else apply_merge(ctx, other, r2)
    if r3 is not None:
      apply_unary(ctx, r3, ("copy", rng.choice(NAMES), rng.choice(NAMES)))
      apply_unary(ctx, r3, ("store", rng.choice(NAMES), rng.choice(VALUES)))

  if what == "gen2":
    with_condition_of_variables(ctx, g2, conds_all)
    mid = order[n // 2]
    ctx.samples.append({"state_history": show_hist(ctx, mid.hist), "real": repr(mid.real),
                        "model": {nm: {v: bin(x) for v, x in d.items()} for nm, d in mid.model.den().items()}})
  elif what == "pairs":
    sh, nsh, stride = arg["shard"], arg["nshards"], arg.get("stride", 1)
    fu = arg.get("follow_every", 50)
    k = 0
    for i in range(sh, n, nsh):
      a = order[i]
      off = (i * 7 + arg.get("offset", 0)) % stride
      for j in range(off, n, stride):
        b = order[j]
        r = apply_merge(ctx, a, b)
        ctx.nt += a.model.differs_on(b.model)
        k += 1
        if r is not None and k % fu == 0:
          follow_ups(r)
    ctx.count("generation3_merge_pairs", k)
    if k:
      a, b = order[sh % n], order[(sh * 31 + 7) % n]
      ctx.samples.append({"merge": show_hist(ctx, ["merge", a.hist, b.hist]),
                          "result": repr(a.real.merge_into(b.real))})
  elif what == "unary3":
    sh, nsh = arg["shard"], arg["nshards"]
    ops = unary_ops(ctx, conds_all)
    k = 0
    for i in range(sh, n, nsh):
      for op in ops:
        r = apply_unary(ctx, order[i], op)
        if r is not None:
          ctx.nt += 1
          k += 1
          if k % arg.get("follow_every", 40) == 0:
            follow_ups(r)
    ctx.count("generation3_unary_ops", k)
  else:
    raise ValueError(what)
  return {"n": ctx.cases, "nontrivial": ctx.nt if arg.get("count_nontrivial", True) else 0, "fps": [],
          "counters": ctx.c, "violations": ctx.violations, "nviol": ctx.nviol, "samples": ctx.samples,
          "info": info}


def walks(ctx, arg, rng, conds_all):
  """Random walks over a POPULATION of live states; after every operation every
  live state is compared with its model again (operations must not disturb
  other states through shared dicts/sets)."""
  M = ctx.M
  fps = []
  for w in range(arg["count"]):
    pop = [Node(replay_hist(ctx, ["new", init]), M.Model.new(init), ["new", init])
           for init in ({}, {"x": "V1"})]
    steps = rng.randint(4, arg.get("max_steps", 10))
    trace = []
    ok = True
    diverse = False
    for _ in range(steps):
      a = rng.choice(pop)
      r = rng.random()
      if r < 0.3:
        # in-place store on a LIVE state (this is how frames use it)
        n = rng.choice(NAMES)
        if rng.random() < 0.6 or not a.real._locals:  # pylint: disable=protected-access
          v = rng.choice(VALUES)
          a.real.store_local(n, ctx.V.Variable.from_value(v))
          a.model = a.model.store_value(n, v)
          a.hist = ["store", a.hist, n, v]
        else:
          m = rng.choice(sorted(a.real._locals))  # pylint: disable=protected-access
          a.real.store_local(n, a.real.load_local(m))
          a.model = a.model.store_copy(n, m)
          a.hist = ["copy", a.hist, n, m]
        ctx.count("walk_op_store_in_place")
      elif r < 0.6:
        e, c, cm = rng.choice(conds_all)
        pop.append(Node(a.real.with_condition(c), a.model.with_condition(cm), ["cond", a.hist, e]))
        ctx.count("walk_op_with_condition")
      elif r < 0.7:
        pop.append(Node(a.real.merge_into(None), a.model.copy(), ["mergeN", a.hist]))
        ctx.count("walk_op_merge_none")
      else:
        b = rng.choice(pop)
        diverse = diverse or a.model.differs_on(b.model)
        pop.append(Node(a.real.merge_into(b.real), a.model.merge(b.model), ["merge", a.hist, b.hist]))
        ctx.count("walk_op_merge")
      trace.append(pop[-1].hist if r >= 0.3 else a.hist)
      # every live state against its model
      for nd in pop:
        ctx.cases += 1
        d_real = M.den_state(nd.real, ctx.memo)
        if d_real != nd.model.den():
          ctx.viol("a live state differs from its model after an operation on the population "
                   "(state disturbed through shared structure, or the operation itself is wrong)",
                   last_operation=show_hist(ctx, trace[-1]), state=show_hist(ctx, nd.hist),
                   real=repr(nd.real), difference=M.first_difference(d_real, nd.model.den()),
                   walk_seed=arg["seed"], walk_index=w)
          ok = False
          break
      if not ok:
        break
    ctx.count("walks")
    if diverse:
      fps.append(common.fp([trace[-1]]))
    if w == 0:
      ctx.samples.append({"walk_last_state": show_hist(ctx, pop[-1].hist), "real": repr(pop[-1].real)})
  return {"n": ctx.cases, "nontrivial": 0, "fps": fps, "counters": ctx.c, "violations": ctx.violations,
          "nviol": ctx.nviol, "samples": ctx.samples, "info": {}}


def child_baseline(arg):
  """The package's own tests with an invariant recorder on BlockState (sanity pass of the contracts)."""
  import unittest
  from pytype.rewrite.flow import state as S
  stats = {"invariant_evals": 0, "invariant_failures": 0}

  def inv(s):
    stats["invariant_evals"] += 1
    if not s._locals_with_block_condition <= set(s._locals):  # pylint: disable=protected-access
      stats["invariant_failures"] += 1

  orig = {}
  for name in ("store_local", "with_condition", "merge_into"):
    orig[name] = getattr(S.BlockState, name)

    def make(name):
      f = orig[name]

      def wrapper(self, *a, **kw):
        r = f(self, *a, **kw)
        try:
          inv(self)
          if isinstance(r, S.BlockState):
            inv(r)
        except Exception:  # pylint: disable=broad-except
          pass
        return r
      return wrapper
    setattr(S.BlockState, name, make(name))
  try:
    loader = unittest.TestLoader()
    suite = unittest.TestSuite()
    for mod in ("state_test", "conditions_test", "variables_test", "frame_base_test"):
      try:
        suite.addTests(loader.loadTestsFromName(f"pytype.rewrite.flow.{mod}"))
      except Exception as e:  # pylint: disable=broad-except
        stats["load_error_" + mod] = repr(e)[:200]
    import io
    res = unittest.TextTestRunner(stream=io.StringIO(), verbosity=0).run(suite)
    stats["baseline_tests_run"] = res.testsRun
    stats["baseline_tests_failed"] = len(res.failures) + len(res.errors)
  finally:
    for name, f in orig.items():
      setattr(S.BlockState, name, f)
  return {"n": 0, "nontrivial": 0, "fps": [], "counters": stats, "violations": [], "nviol": 0,
          "samples": [], "info": {}}


def child_replay(arg):
  ctx = Ctx()
  M = ctx.M
  w = arg["witness"]
  if "history" in w:
    h = w["history"]
    try:
      real = replay_hist(ctx, h)
    except Exception as e:  # pylint: disable=broad-except
      return {"violations": [{"key": w.get("key"), "error": repr(e)}]}
    model = model_of_hist(ctx, h)
    inputs = [replay_hist(ctx, x) for x in h[1:3] if isinstance(x, list) and x and x[0] in
              ("new", "store", "copy", "cond", "mergeN", "merge")]
    compare(ctx, real, model, h, inputs)
  elif "expr" in w:
    e = w["expr"]
    if e[0] == "Not":
      a = M.build(e[1])
      check_cond_ctor(ctx, "Not", [a], [e[1]])
      check_double_negation(ctx, a, e[1])
      if e[1][0] == "Not":
        check_double_negation(ctx, M.build(e[1][1]), e[1][1])
    else:
      check_cond_ctor(ctx, e[0], [M.build(x) for x in e[1]], e[1])
  elif "walk_seed" in w:
    r = walks(ctx, {"seed": w["walk_seed"], "count": w["walk_index"] + 1,
                    "max_steps": w.get("max_steps", 10)}, random.Random(w["walk_seed"]),
              build_conds(ctx, cond_exprs_all()))
    return {"violations": r["violations"]}
  return {"violations": ctx.violations}


def child(arg):
  what = arg["what"]
  if what == "conds":
    return child_conds(arg)
  if what == "baseline":
    return child_baseline(arg)
  if what == "replay":
    return child_replay(arg)
  return child_states(arg)


# ---------------------------------------------------------------------------
# driver side


class _Distinct(set):
  """Explicit fingerprints plus cases that are distinct by construction (index
  tuples of an enumeration over deduplicated inputs that never repeats)."""
  bulk = 0

  def __len__(self):
    return set.__len__(self) + self.bulk


def _tasks(tier, seed):
  rng = random.Random(f"{PID}-{seed}")
  tasks = []

  def add(arg, tid, hs="0", timeout=None):
    timeout = timeout or (900 if tier == "quick" else 3000)
    arg = dict(arg)
    arg.setdefault("seed", rng.randrange(1 << 30))
    tasks.append({"fn": "vf.checks.c18:child", "arg": arg, "id": tid, "hashseed": hs, "timeout": timeout})

  quick = tier == "quick"
  for hs in HASHSEEDS:
    add({"what": "conds", "depth": 3, "triples": 20000 if quick else 300000,
         "count_nontrivial": hs == "0"}, f"conds/hs{hs}", hs)
    add({"what": "gen2", "count_nontrivial": hs == "0"}, f"gen2/hs{hs}", hs)
  add({"what": "baseline"}, "baseline")
  nsh = 14 if quick else 64
  stride = 48 if quick else 1
  for s in range(nsh):
    add({"what": "pairs", "shard": s, "nshards": nsh, "stride": stride, "offset": seed,
         "follow_every": 50 if quick else 60}, f"pairs/{s}", HASHSEEDS[s % 3])
  nsh = 6 if quick else 12
  for s in range(nsh):
    add({"what": "unary3", "shard": s, "nshards": nsh, "follow_every": 40}, f"unary3/{s}", HASHSEEDS[s % 3])
  nb, cnt = (6, 1500) if quick else (48, 15000)
  for b in range(nb):
    add({"what": "walk", "count": cnt, "max_steps": 10 if quick else 14}, f"walk/{b}", HASHSEEDS[b % 3])
  return tasks, {"pairs_stride": stride}


def run(tier, seed):
  ck = common.Check(
      PID, tier, seed,
      rule=("cases: (a) one call of conditions.And/Or/Not on arguments built by the same constructors (closure to "
            "depth 3 over P,Q,R,TRUE,FALSE by Not and ordered pairs; other arities extra), judged on all 8 "
            "valuations; (b) one Variable.with_condition call; (c) one public BlockState operation on states reached "
            "breadth-first from BlockState({}) and BlockState({'x': V1}) (generation k+1 = every unary operation on, "
            "and every ordered merge of, the structurally distinct states of generation k; 2 names x 2 values; "
            "conditions = depth<=1 terms over the literals), den(real) compared with the model on all 8 valuations; "
            "(d) one live state re-compared after an operation in a random population walk. evaluations = such "
            "comparisons. non-trivial = (a) result neither constantly true nor false, (b) conditioned variable and "
            "contingent condition, (c) merge whose inputs differ on some name under some valuation / unary operation "
            "on a generation-2 state, (d) walk that merged two differing states. distinct by construction (index "
            "tuples over deduplicated inputs, counted under one hash seed) for (a)-(c), by history hash for (d)."))
  ck.distinct = _Distinct()
  tasks, plan = _tasks(tier, seed)
  failed = []
  agg = {}
  info = {}
  for res in pool.run_tasks(tasks):
    tid = str(res.get("task"))
    if not res.get("ok"):
      ck.child_failed(res, f"{PID} batch {tid}")
      failed.append(tid)
      continue
    r = res["result"]
    ck.merge_cases(r["n"], r["fps"])
    if not (tid.endswith("hs1") or tid.endswith("hs2")):
      ck.distinct.bulk += r["nontrivial"]
    for k, v in r["counters"].items():
      if isinstance(v, int):
        agg[k] = agg.get(k, 0) + v
      else:
        ck.extra.setdefault("baseline_notes", {})[k] = v
    for s in r["samples"]:
      ck.sample(s)
    info.update(r["info"])
    for w in r["violations"]:
      ck.violation(w["key"], w)
    if r["nviol"] > len(r["violations"]):
      ck.count("violations_not_kept_as_witness", r["nviol"] - len(r["violations"]))
  for k, v in agg.items():
    ck.count(k, v)
  ck.extra["sizes"] = info
  ck.extra["plan"] = plan
  complete = not failed
  ck.exhaustive = bool(complete)
  ck.extra["exhaustive_scope"] = (
      "condition terms: closure to depth 3 (Not of every term, And/Or of every ordered pair of the distinct terms "
      "of the level below) over P,Q,R,TRUE,FALSE, all 8 valuations; states: generations 0-2 complete (every unary "
      "operation with every depth<=1 condition, every ordered merge), every unary operation on every generation-2 "
      "state" + ("; every ordered merge of two generation-2 states (= generation 3 complete)" if tier != "quick" else
                 "; ordered merges of generation-2 states by a stride of %d (generation 3 sampled)" % plan["pairs_stride"])
      + "; a 4th/5th step and random population walks are sampled")
  ck.assumptions = [
      "atoms are opaque independent conditions (all 8 valuations possible)",
      "values are compared by equality (the merge keys bindings by value)",
      "den() reads BlockState._locals/_condition/_locals_with_block_condition, the fields named by the property's anchor",
  ]
  if agg.get("condition_constructor_evals", 0) == 0:
    ck.inconclusive("condition oracle never ran")
  if agg.get("op_merge", 0) == 0 or agg.get("op_cond", 0) == 0:
    ck.inconclusive("state model comparison never ran")
  return ck.finish()


def replay(rec):
  w = rec["witness"]
  res = pool.run_one({"fn": "vf.checks.c18:child", "arg": {"what": "replay", "witness": w, "seed": 0},
                      "id": "replay", "hashseed": "0", "timeout": 600})
  if not res.get("ok"):
    print(f"replay child failed: {res.get('error')} {res.get('traceback', '')[-800:]}")
    return 2
  known = common.load_known(PID)
  bad = [v for v in res["result"]["violations"] if v.get("key") not in known]
  if bad:
    print(f"VIOLATION property={PID} replay=<replayed>")
    for v in bad[:3]:
      print(f"  {v.get('key')}")
      print("   ", {k: x for k, x in v.items() if k not in ("key", "history")})
    return 1
  print("replay: no (unlisted) disagreement")
  return 0
