"""Child entry point: reads {fn, arg, out} on stdin, runs fn(arg), writes JSON."""
import importlib
import json
import sys
import traceback


def main():
  spec = json.loads(sys.stdin.read())
  out = spec["out"]
  try:
    from vf import boot
    boot.activate()
    mod, func = spec["fn"].split(":")
    f = getattr(importlib.import_module(mod), func)
    result = f(spec["arg"])
    payload = {"ok": True, "result": result}
  except BaseException as e:  # pylint: disable=broad-except
    payload = {"ok": False, "error": f"{type(e).__name__}: {e}",
               "traceback": traceback.format_exc()[-6000:]}
  with open(out, "w") as fh:
    json.dump(payload, fh, default=repr)


if __name__ == "__main__":
  main()
