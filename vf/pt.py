"""Thin wrapper to run the real pytype pipeline on a source string."""
from __future__ import annotations

import dataclasses
import os
import tempfile


@dataclasses.dataclass
class Result:
  pyi: str | None
  ast: object
  errors: list          # [(name, line, message)]
  ctx: object = None
  ret: object = None


def options(**kw):
  from pytype import config
  kw.setdefault("python_version", (3, 12))
  module_name = kw.pop("module_name", None)
  opts = config.Options.create(**kw)
  if module_name:
    opts.module_name = module_name
  return opts


def errors_of(errorlog):
  out = []
  for e in errorlog.unique_sorted_errors():
    out.append((e.name, e.line, e.message))
  return out


def analyze(src: str, keep_ctx=False, loader=None, opts=None, **kw) -> Result:
  """io.generate_pyi on a string (inference mode: stub + error report)."""
  from pytype import io
  opts = opts or options(**kw)
  ret, pyi = io.generate_pyi(src, opts, loader)
  errs = errors_of(ret.context.errorlog)
  r = Result(pyi, ret.ast, errs, ret.context if keep_ctx else None, ret if keep_ctx else None)
  if not keep_ctx:
    ret.context.program = None
  return r


def check(src: str, keep_ctx=False, loader=None, opts=None, **kw) -> Result:
  """io.check_py on a string (check mode: error report only)."""
  from pytype import io
  opts = opts or options(**kw)
  ret = io.check_py(src, opts, loader)
  errs = errors_of(ret.context.errorlog)
  r = Result(None, None, errs, ret.context if keep_ctx else None, ret if keep_ctx else None)
  if not keep_ctx:
    ret.context.program = None
  return r


def analyze_file(path: str, check_mode=False, **kw):
  """io.check_or_generate_pyi on a file: the entry point that maps compile errors."""
  from pytype import io
  from pytype import config
  kw.setdefault("python_version", (3, 12))
  opts = config.Options.create(path, **kw)
  opts.check = check_mode
  res = io.check_or_generate_pyi(opts)
  errs = errors_of(res.context.errorlog)
  res.context.program = None
  return Result(res.pyi, res.ast, errs)
