"""Subprocess-per-task worker pool with a watchdog (no multiprocessing.Pool:
it hangs when a child dies).  A task names a function `module:func` taking one
JSON-able argument and returning a JSON-able result."""
from __future__ import annotations

import concurrent.futures
import json
import os
import subprocess
import tempfile
import time

from vf import boot


def run_one(task: dict) -> dict:
  """task: {fn:'mod:func', arg:..., variant:'plain'|'asan', hashseed:str, timeout:s, env:{}}"""
  variant = task.get("variant", "plain")
  env = boot.child_env(variant, task.get("hashseed", "0"))
  env.update(task.get("env") or {})
  timeout = task.get("timeout", 600)
  scratch = os.path.join(boot.BUILD, "scratch")
  os.makedirs(scratch, exist_ok=True)
  fd, outpath = tempfile.mkstemp(prefix="res-", suffix=".json", dir=scratch)
  os.close(fd)
  inp = json.dumps({"fn": task["fn"], "arg": task.get("arg"), "out": outpath})
  t0 = time.time()
  res = {"task": task.get("id"), "ok": False}
  try:
    p = subprocess.run([boot.PY, "-X", "faulthandler", "-m", "vf.child"], input=inp,
                       capture_output=True, text=True, env=env, timeout=timeout,
                       cwd=boot.VERIF)
    res["rc"] = p.returncode
    res["stderr"] = p.stderr[-6000:]
    try:
      with open(outpath) as f:
        data = f.read()
      if data:
        payload = json.loads(data)
        res.update(payload)
    except (OSError, ValueError) as e:
      res["error"] = f"no result: {e}"
    if p.returncode != 0 and "error" not in res:
      res["ok"] = False
      res["error"] = f"child exit {p.returncode}"
  except subprocess.TimeoutExpired as e:
    res["timeout"] = True
    res["error"] = f"watchdog {timeout}s"
    res["stderr"] = (e.stderr or b"")[-3000:].decode("utf8", "replace") if isinstance(
        e.stderr, bytes) else (e.stderr or "")[-3000:]
  finally:
    try:
      os.unlink(outpath)
    except OSError:
      pass
  res["wall"] = time.time() - t0
  return res


def run_tasks(tasks: list[dict], nworkers: int | None = None):
  """Runs tasks in parallel; yields results in completion order."""
  nworkers = nworkers or int(os.environ.get("VERIF_JOBS", "16"))
  with concurrent.futures.ThreadPoolExecutor(nworkers) as ex:
    futs = [ex.submit(run_one, t) for t in tasks]
    for f in concurrent.futures.as_completed(futs):
      yield f.result()


def sanitizer_report(res: dict) -> str | None:
  err = res.get("stderr") or ""
  for marker in ("ERROR: AddressSanitizer", "runtime error:", "ERROR: UndefinedBehaviorSanitizer",
                 "AddressSanitizer:"):
    if marker in err:
      return err
  if res.get("rc") == 99:
    return err
  return None
