"""Entry point: ./check <ID> quick|thorough | --replay <path>."""
import importlib
import json
import os
import sys
import time


def main(argv):
  if len(argv) < 2:
    print("usage: check <ID> quick|thorough|--replay <path>")
    return 2
  pid = argv[0].upper()
  seed = int(os.environ.get("VERIF_SEED", "0"))
  from vf import boot
  try:
    boot.activate("plain")
  except Exception as e:  # pylint: disable=broad-except
    print(f"INCONCLUSIVE property={pid} reason=bootstrap failed: {e}")
    return 2
  mod = importlib.import_module(f"vf.checks.{pid.lower()}")
  if argv[1] == "--replay":
    with open(argv[2]) as f:
      rec = json.load(f)
    return mod.replay(rec)
  tier = os.environ.get("VERIF_TIER") or argv[1]
  if argv[1] in ("quick", "thorough"):
    tier = argv[1]
  t0 = time.time()
  rc = mod.run(tier, seed)
  print(f"[{pid}] exit={rc} total={time.time()-t0:.1f}s")
  return rc


if __name__ == "__main__":
  sys.exit(main(sys.argv[1:]))
