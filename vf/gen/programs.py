"""Seeded generator of loop-free Python programs (the C01 fragment).

Programs are typed by construction (a light gen-time type tracks what each name
holds) so that most of them run to completion under CPython.  Hostile mixes are
favoured: a name bound to different types in two branches, attributes set in
one method and read in another, containers mutated through an alias, functions
returning their argument, default-None parameters, closures over narrowed
parameters, and/or values, try/except rebinding.
"""
from __future__ import annotations

import random

SCALARS = ["int", "str", "float", "bool", "none", "bytes"]


def tname(t):
  return t if isinstance(t, str) else t[0]


class Fn:
  def __init__(self, name, params, ret):
    self.name, self.params, self.ret = name, params, ret   # params: [(name, type, default_src|None)]


class Cls:
  def __init__(self, name, bases):
    self.name, self.bases = name, bases
    self.init_params = []     # [(name, type, default)]
    self.attrs = {}           # attr -> type (instance attrs set in __init__ / class attrs)
    self.methods = {}         # name -> Fn (bound: params exclude self)
    self.late_attrs = {}      # attrs set by a method other than __init__

  def all_attrs(self, classes):
    out = {}
    for b in reversed(self.bases):
      out.update(classes[b].all_attrs(classes))
    out.update(self.attrs)
    return out

  def all_methods(self, classes):
    out = {}
    for b in reversed(self.bases):
      out.update(classes[b].all_methods(classes))
    out.update(self.methods)
    return out


class Gen:
  def __init__(self, rng: random.Random, size=None, allow_errors=False):
    self.r = rng
    self.lines = []
    self.classes = {}
    self.funcs = {}
    self.counter = 0
    self.size = size or rng.randint(6, 28)
    self.allow_errors = allow_errors
    self.props = set()

  # -- utilities ----------------------------------------------------------
  def fresh(self, p="v"):
    self.counter += 1
    return f"{p}{self.counter}"

  def emit(self, line, ind):
    self.lines.append("    " * ind + line)

  def pick_type(self, depth=0):
    r = self.r
    x = r.random()
    if x < 0.55 or depth >= 2:
      return r.choice(["int", "int", "str", "str", "float", "bool", "none", "bytes"])
    if x < 0.68:
      return ("list", self.pick_type(depth + 1))
    if x < 0.78:
      return ("dict", r.choice(["str", "int"]), self.pick_type(depth + 1))
    if x < 0.86:
      return ("tuple", tuple(self.pick_type(depth + 1) for _ in range(r.randint(1, 3))))
    if x < 0.90:
      return ("set", r.choice(["int", "str"]))
    if self.classes and x < 0.98:
      return ("inst", r.choice(list(self.classes)))
    return "int"

  # -- literals -------------------------------------------------------------
  def literal(self, t):
    r = self.r
    k = tname(t)
    if k == "int":
      return str(r.choice([0, 1, 2, 3, 7, 10, -1, 42]))
    if k == "str":
      return repr(r.choice(["", "a", "b", "xy", "k", "hello", "12"]))
    if k == "float":
      return repr(r.choice([0.5, 1.5, 2.0, -3.25]))
    if k == "bool":
      return r.choice(["True", "False"])
    if k == "none":
      return "None"
    if k == "bytes":
      return r.choice(["b''", "b'x'", "b'ab'"])
    if k == "list":
      n = r.randint(1, 3)
      return "[" + ", ".join(self.literal(t[1]) for _ in range(n)) + "]"
    if k == "set":
      n = r.randint(1, 3)
      return "{" + ", ".join(self.literal(t[1]) for _ in range(n)) + "}"
    if k == "dict":
      n = r.randint(1, 2)
      keys = (["'k'", "'a'", "'b'"] if t[1] == "str" else ["1", "2", "3"])[:n]
      return "{" + ", ".join(f"{kk}: {self.literal(t[2])}" for kk in keys) + "}"
    if k == "tuple":
      items = [self.literal(x) for x in t[1]]
      return "(" + ", ".join(items) + ("," if len(items) == 1 else "") + ")"
    if k == "inst":
      return self.construct(t[1], {}, 3)
    if k in ("opt", "union"):
      return self.literal(r.choice(t[1]))
    if k == "any":
      return self.literal(self.pick_type(1))
    raise ValueError(t)

  def construct(self, cname, env, depth):
    c = self.classes[cname]
    args = []
    for (pn, pt, dflt) in c.init_params:
      if dflt is not None and self.r.random() < 0.4:
        continue
      if self.r.random() < 0.3:
        args.append(f"{pn}={self.expr(pt, env, depth + 1)}")
      else:
        if any("=" in a for a in args):
          args.append(f"{pn}={self.expr(pt, env, depth + 1)}")
        else:
          args.append(self.expr(pt, env, depth + 1))
    return f"{cname}({', '.join(args)})"

  # -- expressions ------------------------------------------------------------
  def names_of(self, env, t):
    return [n for n, nt in env.items() if nt == t]

  def cond(self, env, depth=0):
    """A boolean expression; sometimes of statically unknown truth."""
    r = self.r
    x = r.random()
    ints = self.names_of(env, "int")
    if x < 0.25:
      return f"_flag({r.randint(0, 5)})"
    if x < 0.45 and ints:
      return f"{r.choice(ints)} {r.choice(['<', '>', '==', '!=', '<=', '>='])} {r.randint(0, 5)}"
    if x < 0.6:
      us = [n for n, t in env.items() if tname(t) in ("union", "opt")]
      if us:
        n = r.choice(us)
        alts = env[n][1]
        a = r.choice(alts)
        if a == "none":
          return r.choice([f"{n} is None", f"{n} is not None"])
        others = [b for b in alts if b != a and b != "none"]
        if others and len(alts) >= 3 and r.random() < 0.5:
          b = r.choice(others)
          return f"isinstance({n}, ({self.runtime_class(a)}, {self.runtime_class(b)}))"
        return f"isinstance({n}, {self.runtime_class(a)})"
    if x < 0.7:
      return r.choice(["True", "False", "1", "0", "''", "'x'"])
    if x < 0.8 and env:
      return r.choice(list(env))        # truthiness of a value
    if x < 0.9 and depth < 1:
      return f"{self.cond(env, depth + 1)} {r.choice(['and', 'or'])} {self.cond(env, depth + 1)}"
    if depth < 1:
      return f"not {self.cond(env, depth + 1)}"
    return f"_flag({r.randint(0, 5)})"

  def runtime_class(self, t):
    k = tname(t)
    return {"int": "int", "str": "str", "float": "float", "bool": "bool", "bytes": "bytes",
            "list": "list", "dict": "dict", "set": "set", "tuple": "tuple",
            "none": "type(None)"}.get(k) or (t[1] if k == "inst" else "object")

  def expr(self, t, env, depth=0):
    """Expression of gen-time type t using names in env."""
    r = self.r
    k = tname(t)
    if k in ("union", "opt"):
      return self.expr(r.choice(t[1]), env, depth)
    if k == "any":
      return self.expr(self.pick_type(1), env, depth)
    cands = self.names_of(env, t)
    x = r.random()
    if cands and x < 0.35:
      return r.choice(cands)
    if depth >= 3 or x < 0.5:
      return self.literal(t)
    d = depth + 1
    # calls to generated functions / methods returning t
    fs = [f for f in self.funcs.values() if f.ret == t]
    if fs and r.random() < 0.3:
      return self.call(r.choice(fs), env, d)
    # attribute / method of instances
    if r.random() < 0.25:
      for n, nt in r.sample(list(env.items()), len(env)):
        if tname(nt) == "inst":
          c = self.classes[nt[1]]
          ats = [a for a, at in c.all_attrs(self.classes).items() if at == t]
          ms = [m for m in c.all_methods(self.classes).values() if m.ret == t]
          if ats and r.random() < 0.6:
            return f"{n}.{r.choice(ats)}"
          if ms:
            return self.call(r.choice(ms), env, d, prefix=f"{n}.")
    # conditional / boolean-operator values
    if r.random() < 0.15:
      return f"({self.expr(t, env, d)} if {self.cond(env)} else {self.expr(t, env, d)})"
    if k == "int":
      c = r.randrange(9)
      if c == 0:
        return f"({self.expr('int', env, d)} + {self.expr('int', env, d)})"
      if c == 1:
        return f"({self.expr('int', env, d)} * {self.expr('int', env, d)})"
      if c == 2:
        ct = r.choice([("list", "int"), "str", ("dict", "str", "int"), ("tuple", ("int", "str"))])
        return f"len({self.expr(ct, env, d)})"
      if c == 3:
        return f"int({r.choice(['1', '2', '30'])!r})"
      if c == 4:
        return f"abs({self.expr('int', env, d)})"
      if c == 5:
        return f"max({self.expr('int', env, d)}, {self.expr('int', env, d)})"
      if c == 6:
        return f"{self.literal(('list', 'int'))}[0]"
      if c == 7:
        return f"sum({self.expr(('list', 'int'), env, d)})"
      return f"({self.expr('int', env, d)} - {self.expr('int', env, d)})"
    if k == "str":
      c = r.randrange(8)
      if c == 0:
        return f"({self.expr('str', env, d)} + {self.expr('str', env, d)})"
      if c == 1:
        return f"str({self.expr(self.pick_type(1), env, d)})"
      if c == 2:
        return f"{self.expr('str', env, d)}.upper()"
      if c == 3:
        return f"('%d' % {self.expr('int', env, d)})"
      if c == 4:
        return f"{self.expr('str', env, d)}[0:1]"
      if c == 5:
        return f"'-'.join({self.expr(('list', 'str'), env, d)})"
      if c == 6:
        return f"f'{{{self.expr('int', env, d)}}}x'"
      return f"({self.expr('str', env, d)} * 2)"
    if k == "float":
      c = r.randrange(4)
      if c == 0:
        return f"({self.expr('int', env, d)} / 2)"
      if c == 1:
        return f"float({self.expr('int', env, d)})"
      if c == 2:
        return f"({self.expr('float', env, d)} * 1.5)"
      return f"({self.expr('float', env, d)} + {self.expr('int', env, d)})"
    if k == "bool":
      c = r.randrange(5)
      if c == 0:
        return f"({self.expr('int', env, d)} < {self.expr('int', env, d)})"
      if c == 1:
        return f"isinstance({self.expr(self.pick_type(1), env, d)}, {r.choice(['int', 'str', 'list', 'float'])})"
      if c == 2:
        return f"(not {self.expr('bool', env, d)})"
      if c == 3:
        return f"({self.expr('str', env, d)} == {self.expr('str', env, d)})"
      return f"({self.expr('int', env, d)} in {self.expr(('list', 'int'), env, d)})"
    if k == "none":
      return "None"
    if k == "bytes":
      return r.choice([f"({self.expr('bytes', env, d)} + b'z')", f"{self.expr('str', env, d)}.encode()"])
    if k == "list":
      et = t[1]
      c = r.randrange(6)
      if c == 0:
        return "[" + ", ".join(self.expr(et, env, d) for _ in range(r.randint(1, 3))) + "]"
      if c == 1:
        src = self.literal(("list", "int"))
        v = self.fresh("_i")
        env2 = dict(env); env2[v] = "int"
        return f"[{self.expr(et, env2, d + 1)} for {v} in {src}]"
      if c == 2 and et in ("int", "str", "float"):
        return f"sorted({self.expr(t, env, d)})"
      if c == 3:
        return f"({self.expr(t, env, d)} + {self.expr(t, env, d)})"
      if c == 4:
        return f"list({self.expr(('tuple', (et, et)), env, d)})"
      return f"{self.expr(t, env, d)}[:]"
    if k == "set":
      et = t[1]
      c = r.randrange(3)
      if c == 0:
        return "{" + ", ".join(self.expr(et, env, d) for _ in range(r.randint(1, 3))) + "}"
      if c == 1:
        return f"set({self.expr(('list', et), env, d)})"
      return f"({self.expr(t, env, d)} | {self.expr(t, env, d)})"
    if k == "dict":
      kt, vt = t[1], t[2]
      c = r.randrange(3)
      if c == 0:
        return "{" + ", ".join(f"{self.expr(kt, env, d)}: {self.expr(vt, env, d)}"
                               for _ in range(r.randint(1, 2))) + "}"
      if c == 1 and kt == "str":
        return f"dict({r.choice(['a', 'b', 'k'])}={self.expr(vt, env, d)})"
      v = self.fresh("_i")
      env2 = dict(env); env2[v] = kt
      return f"{{{v}: {self.expr(vt, env2, d + 1)} for {v} in {self.literal(('list', kt))}}}"
    if k == "tuple":
      items = [self.expr(x, env, d) for x in t[1]]
      return "(" + ", ".join(items) + ("," if len(items) == 1 else "") + ")"
    if k == "inst":
      return self.construct(t[1], env, d)
    raise ValueError(t)

  def call(self, f: Fn, env, depth, prefix=""):
    args = []
    kw = False
    for (pn, pt, dflt) in f.params:
      if dflt is not None and self.r.random() < 0.4:
        kw = True
        continue
      e = self.expr(pt, env, depth + 1)
      if kw or self.r.random() < 0.2:
        args.append(f"{pn}={e}")
        kw = True
      else:
        args.append(e)
    return f"{prefix}{f.name}({', '.join(args)})"

  # -- "interesting" value producers (return (src, type)) ----------------------
  def mixed_expr(self, env, depth=0):
    """An expression whose type is deliberately a union or only loosely known."""
    r = self.r
    t1, t2 = self.pick_type(1), self.pick_type(1)
    c = r.randrange(11)
    if c >= 9:
      t3 = self.pick_type(1)
      if c == 9:
        return (f"({self.expr(t1, env, 2)} if {self.cond(env)} else ({self.expr(t2, env, 2)} if {self.cond(env)} "
                f"else {self.expr(t3, env, 2)}))", ("union", tuple(dict.fromkeys((t1, t2, t3)))))
      return (f"({self.expr(t1, env, 2)} if _flag({r.randint(0, 5)}) else None) or ({self.expr(t2, env, 2)} if "
              f"_flag({r.randint(0, 5)}) else {self.expr(t3, env, 2)})",
              ("union", tuple(dict.fromkeys((t1, t2, t3, "none")))))
    if c == 0:
      return (f"({self.expr(t1, env, 2)} if {self.cond(env)} else {self.expr(t2, env, 2)})",
              ("union", (t1, t2)))
    if c == 1:
      return f"({self.expr(t1, env, 2)} or {self.expr(t2, env, 2)})", ("union", (t1, t2))
    if c == 2:
      return f"({self.expr(t1, env, 2)} and {self.expr(t2, env, 2)})", ("union", (t1, t2))
    if c == 3:
      dt = ("dict", "str", t1)
      return f"{self.expr(dt, env, 2)}.get({self.literal('str')})", ("opt", (t1, "none"))
    if c == 4:
      dt = ("dict", "str", t1)
      return f"{self.expr(dt, env, 2)}.get({self.literal('str')}, {self.expr(t2, env, 2)})", ("union", (t1, t2))
    if c == 5:
      insts = [(n, t) for n, t in env.items() if tname(t) == "inst"]
      if insts:
        n, t = r.choice(insts)
        ats = self.classes[t[1]].all_attrs(self.classes)
        if ats:
          a = r.choice(list(ats))
          return f"getattr({n}, {a!r}, {self.expr(t2, env, 2)})", ("union", (ats[a], t2))
      return f"[{self.expr(t1, env, 2)}, {self.expr(t2, env, 2)}]", "any"
    if c == 6:
      return f"[{self.expr(t1, env, 2)}, {self.expr(t2, env, 2)}]", "any"
    if c == 7:
      return f"{{'k': {self.expr(t1, env, 2)}, 'j': {self.expr(t2, env, 2)}}}", "any"
    fs = [f for f in self.funcs.values() if tname(f.ret) in ("union", "opt", "any")]
    if fs:
      f = r.choice(fs)
      return self.call(f, env, 1), f.ret
    return f"({self.expr(t1, env, 2)}, {self.expr(t2, env, 2)})", ("tuple", (t1, t2))

  # -- statements -------------------------------------------------------------
  def stmt(self, env, ind, in_func=None, depth=0):
    """Emits one statement, updating env (a dict name->type).  in_func: list collecting return types."""
    r = self.r
    x = r.random()
    if in_func is not None and x < 0.08 and depth > 0:
      t = self.pick_type(1)
      in_func.append(t)
      self.emit(f"return {self.expr(t, env, 1)}", ind)
      return "returned"
    unions = [n for n, t in env.items() if tname(t) in ("union", "opt") and not n.startswith("_")]
    if 0.93 < x <= 0.965:
      # a generic builtin applied to a value whose element type differs between two alternatives
      et1, et2 = r.sample(["int", "str", "float", "bytes"], 2)
      kind = r.choice(["list", "list", "tuple", "set"])
      def lit(et):
        vals = [self.literal(et) for _ in range(r.randint(2, 3))]
        if kind == "list":
          return "[" + ", ".join(vals) + "]"
        if kind == "tuple":
          return "(" + ", ".join(vals) + ",)"
        return "{" + ", ".join(vals) + "}"
      v = self.fresh()
      form = r.randrange(3)
      if form == 0:
        self.emit(f"{v} = {lit(et1)} if _flag({r.randint(0, 5)}) else {lit(et2)}", ind)
      elif form == 1:
        self.emit(f"if _flag({r.randint(0, 5)}):", ind)
        self.emit(f"{v} = {lit(et1)}", ind + 1)
        self.emit("else:", ind)
        self.emit(f"{v} = {lit(et2)}", ind + 1)
      else:
        fn = self.fresh("f")
        self.emit(f"def {fn}(c):", ind)
        self.emit("if c:", ind + 1)
        self.emit(f"return {lit(et1)}", ind + 2)
        self.emit(f"return {lit(et2)}", ind + 1)
        self.emit(f"{v} = {fn}(_flag({r.randint(0, 5)}))", ind)
      env[v] = "any"
      uses = ["sorted({v})", "max({v})", "min({v})", "list({v})", "list(reversed(list({v})))", "next(iter({v}))",
              "tuple({v})", "set({v})", "[e for e in {v}][0:1]", "dict.fromkeys({v})", "{{'k': {v}}}.get('k')",
              "{{'k': {v}}}.get('q', {v})", "list(zip({v}, {v}))", "list(enumerate({v}))"]
      if et1 in ("int", "float") and et2 in ("int", "float"):
        uses.append("sum({v})")
      for u in r.sample(uses, r.randint(1, 3)):
        w = self.fresh()
        self.emit(f"{w} = " + u.format(v=v), ind)
        env[w] = "any"
    elif x > 0.965 and depth < 2:
      # numeric-tower / bytes-like probe: isinstance against the *promoted* class must not fold
      v, w = self.fresh(), self.fresh()
      lo, hi, test = r.choice([("int", "float", "float"), ("int", "float", "complex"), ("bool", "float", "float"),
                               ("int", "str", "float"), ("float", "str", "complex"), ("int", "none", "float")])
      self.emit(f"{v} = ({self.expr(lo, env, 2)} if _flag({r.randint(0, 5)}) else {self.expr(hi, env, 2)})", ind)
      env[v] = ("union", (lo, hi))
      ta, tb = self.pick_type(1), self.pick_type(1)
      self.emit(f"if isinstance({v}, {r.choice([test, '(' + test + ', str)'])}):", ind)
      self.emit(f"{w} = {self.expr(ta, env, 2)}", ind + 1)
      self.emit("else:", ind)
      self.emit(f"{w} = {self.expr(tb, env, 2)}", ind + 1)
      env[w] = ("union", (ta, tb)) if ta != tb else ta
    elif unions and x < 0.12:
      n = r.choice(unions)
      t = env[n]
      v = self.fresh()
      form = r.randrange(6)
      if form == 0:
        self.emit(f"{v} = {n}", ind); env[v] = t
      elif form == 1:
        self.emit(f"{v} = [{n}]", ind); env[v] = "any"
      elif form == 2:
        self.emit(f"{v} = ({n}, {self.literal(self.pick_type(1))})", ind); env[v] = "any"
      elif form == 3:
        self.emit(f"{v} = {{'k': {n}}}", ind); env[v] = "any"
      elif form == 4:
        self.emit(f"{v} = str({n})", ind); env[v] = "str"
      else:
        ident = [f for f in self.funcs.values() if len(f.params) == 1 and f.params[0][2] is None]
        if ident:
          self.emit(f"{v} = {ident[0].name}({n})", ind); env[v] = "any"
        else:
          self.emit(f"{v} = (lambda _z: _z)({n})", ind); env[v] = t
    elif x < 0.30:
      t = self.pick_type()
      n = self.target(env, t)
      self.emit(f"{n} = {self.expr(t, env)}", ind)
      env[n] = t
    elif x < 0.42:
      src, t = self.mixed_expr(env)
      n = self.target(env, t)
      self.emit(f"{n} = {src}", ind)
      env[n] = t
    elif x < 0.58 and depth < 2:
      self.if_stmt(env, ind, in_func, depth)
    elif x < 0.66 and depth < 2:
      self.try_stmt(env, ind, in_func, depth)
    elif x < 0.72:
      self.mutate(env, ind)
    elif x < 0.77:
      ints = self.names_of(env, "int")
      strs = self.names_of(env, "str")
      if ints and r.random() < 0.6:
        self.emit(f"{r.choice(ints)} += {self.expr('int', env, 2)}", ind)
      elif strs:
        self.emit(f"{r.choice(strs)} += {self.expr('str', env, 2)}", ind)
      else:
        self.emit("pass", ind)
    elif x < 0.83:
      t1, t2 = self.pick_type(1), self.pick_type(1)
      a, b = self.fresh(), self.fresh()
      self.emit(f"{a}, {b} = {self.expr(('tuple', (t1, t2)), env, 1)}", ind)
      env[a], env[b] = t1, t2
    elif x < 0.90:
      insts = [(n, t) for n, t in env.items() if tname(t) == "inst"]
      if insts:
        n, t = r.choice(insts)
        c = self.classes[t[1]]
        ats = c.all_attrs(self.classes)
        ats = {a: t for a, t in ats.items() if a not in self.props}
        if ats and r.random() < 0.7:
          a = r.choice(list(ats))
          # attribute store from outside the class - sometimes with a different type
          nt = ats[a] if r.random() < 0.6 else self.pick_type(1)
          self.emit(f"{n}.{a} = {self.expr(nt, env, 1)}", ind)
          if nt != ats[a]:
            c.attrs[a] = "any" if a in c.attrs else c.attrs.get(a, "any")
            for cc in self.classes.values():
              if a in cc.attrs:
                cc.attrs[a] = "any"
        else:
          ms = c.all_methods(self.classes)
          if ms:
            m = r.choice(list(ms.values()))
            v = self.fresh()
            self.emit(f"{v} = {self.call(m, env, 1, prefix=n + '.')}", ind)
            env[v] = m.ret
          else:
            self.emit("pass", ind)
      else:
        t = ("list", self.pick_type(1))
        n = self.fresh()
        self.emit(f"{n} = {self.expr(t, env)}", ind)
        env[n] = t
    else:
      fs = list(self.funcs.values())
      if fs:
        f = r.choice(fs)
        v = self.target(env, f.ret)
        self.emit(f"{v} = {self.call(f, env, 1)}", ind)
        env[v] = f.ret
      else:
        lam_t = self.pick_type(1)
        v = self.fresh()
        p = self.fresh("_q")
        env2 = dict(env); env2[p] = lam_t
        t2 = self.pick_type(1)
        self.emit(f"{v} = (lambda {p}: ({p}, {self.expr(t2, env2, 2)}))({self.expr(lam_t, env, 1)})", ind)
        env[v] = ("tuple", (lam_t, t2))
    return None

  def target(self, env, t):
    """New name, or an existing one (rebinding, possibly to a different type)."""
    r = self.r
    if env and r.random() < 0.25:
      cands = [n for n in env if not n.startswith("_") and n not in self.protected]
      if cands:
        return r.choice(cands)
    return self.fresh()

  protected = frozenset()

  def block(self, env, ind, in_func, depth, n=None):
    n = n or self.r.randint(1, 3)
    for _ in range(n):
      if self.stmt(env, ind, in_func, depth) == "returned":
        return "returned"
    return None

  def merge_envs(self, env, a, b):
    for n in set(a) | set(b):
      ta, tb = a.get(n), b.get(n)
      if ta is None or tb is None:
        # bound in only one branch: usable only if it existed before
        if n in env:
          pass
        continue
      if ta == tb:
        env[n] = ta
      else:
        alts = []
        for t in (ta, tb):
          if tname(t) in ("union", "opt"):
            alts.extend(t[1])
          elif tname(t) == "any":
            alts = None
            break
          else:
            alts.append(t)
        env[n] = "any" if alts is None else ("union", tuple(dict.fromkeys(alts)))

  def if_stmt(self, env, ind, in_func, depth):
    r = self.r
    c = self.cond(env)
    # isinstance narrowing gives the branch a precise type
    self.emit(f"if {c}:", ind)
    ea = dict(env)
    self.narrow(ea, c, True)
    ra = self.block(ea, ind + 1, in_func, depth + 1)
    eb = dict(env)
    rb = None
    if r.random() < 0.7:
      self.emit("else:", ind)
      self.narrow(eb, c, False)
      rb = self.block(eb, ind + 1, in_func, depth + 1)
    if ra == "returned" and rb == "returned":
      # keep control flow going for the statements that follow
      pass
    if ra == "returned":
      ea = eb
    if rb == "returned":
      eb = ea
    # names defined in only one branch are dropped (may be unbound at run time)
    common = {n: t for n, t in ea.items() if n in eb}
    self.merge_envs(env, common, {n: t for n, t in eb.items() if n in ea})

  def narrow(self, env, c, truth):
    for n, t in list(env.items()):
      if tname(t) not in ("union", "opt"):
        continue
      alts = t[1]
      if c == f"{n} is None":
        keep = [a for a in alts if (a == "none") == truth]
      elif c == f"{n} is not None":
        keep = [a for a in alts if (a != "none") == truth]
      elif c.startswith(f"isinstance({n}, ("):
        clss = [x.strip() for x in c[len(f"isinstance({n}, ("):-2].split(",")]
        def m(a, clss=clss):
          rc = self.runtime_class(a)
          if rc in clss or (a == "bool" and "int" in clss):
            return True
          if tname(a) == "inst":
            return any(k in self.mro_names(a[1]) for k in clss if k in self.classes)
          return False
        keep = [a for a in alts if m(a) == truth]
      elif c.startswith(f"isinstance({n}, "):
        cls = c[len(f"isinstance({n}, "):-1]
        def m(a):
          rc = self.runtime_class(a)
          if rc == cls:
            return True
          if cls == "int" and a == "bool":
            return True
          if tname(a) == "inst" and cls in self.classes:
            return cls in self.mro_names(a[1])
          return False
        keep = [a for a in alts if m(a) == truth]
      else:
        continue
      if len(keep) == 1:
        env[n] = keep[0]
      elif keep:
        env[n] = ("union", tuple(keep))

  def mro_names(self, cname):
    out = [cname]
    for b in self.classes[cname].bases:
      out += self.mro_names(b)
    return out

  def try_stmt(self, env, ind, in_func, depth):
    r = self.r
    n = self.fresh()
    t_ok = r.choice(["int", "float", "str"])
    t_bad = self.pick_type(1)
    raising = r.random() < 0.5
    self.emit("try:", ind)
    if t_ok == "int":
      arg = repr("zz") if raising else repr("12")
      self.emit(f"{n} = int({arg})", ind + 1)
      exc = "ValueError"
    elif t_ok == "float":
      self.emit(f"{n} = 1 / {0 if raising else 2}", ind + 1)
      exc = "ZeroDivisionError"
    else:
      self.emit(f"{n} = {{'k': 'v'}}[{repr('q') if raising else repr('k')}]", ind + 1)
      exc = "KeyError"
    kind = r.randrange(3)
    self.emit(f"except {exc}:", ind)
    self.emit(f"{n} = {self.expr(t_bad, env, 1)}", ind + 1)
    if kind == 1:
      m = self.fresh()
      self.emit("else:", ind)
      self.emit(f"{n} = {self.expr(t_ok, env, 1)}", ind + 1)
    if kind == 2:
      self.emit("finally:", ind)
      self.emit(f"{self.fresh('_f')} = 0", ind + 1)
    env[n] = ("union", (t_ok, t_bad)) if t_ok != t_bad else t_ok

  def mutate(self, env, ind):
    r = self.r
    lists = [(n, t) for n, t in env.items() if tname(t) == "list"]
    dicts = [(n, t) for n, t in env.items() if tname(t) == "dict"]
    sets = [(n, t) for n, t in env.items() if tname(t) == "set"]
    c = r.random()
    if lists and c < 0.5:
      n, t = r.choice(lists)
      if r.random() < 0.3:
        al = self.fresh()
        self.emit(f"{al} = {n}", ind)
        env[al] = t
        n = al
      if r.random() < 0.75:
        self.emit(f"{n}.append({self.expr(t[1], env, 2)})", ind)
      else:
        # append a value of a different type: the element type must widen
        t2 = self.pick_type(1)
        self.emit(f"{n}.append({self.expr(t2, env, 2)})", ind)
        if t2 != t[1]:
          for m, mt in list(env.items()):
            if mt == t:
              env[m] = "any"
    elif dicts and c < 0.8:
      n, t = r.choice(dicts)
      if r.random() < 0.5:
        self.emit(f"{n}[{self.expr(t[1], env, 2)}] = {self.expr(t[2], env, 2)}", ind)
      else:
        self.emit(f"{n}.update({self.expr(t, env, 2)})", ind)
    elif sets:
      n, t = r.choice(sets)
      self.emit(f"{n}.add({self.expr(t[1], env, 2)})", ind)
    else:
      t = ("list", self.pick_type(1))
      n = self.fresh()
      self.emit(f"{n} = {self.expr(t, env)}", ind)
      env[n] = t

  # -- definitions -------------------------------------------------------------
  def params(self, n=None):
    r = self.r
    out = []
    seen_default = False
    for _ in range(n if n is not None else r.randint(0, 3)):
      t = self.pick_type(1)
      dflt = None
      if seen_default or r.random() < 0.3:
        seen_default = True
        if r.random() < 0.4:
          dflt = "None"
          t = ("opt", (t, "none")) if t != "none" else t
        elif tname(t) == "inst" or "C" in repr(t):
          dflt = "None"
          t = ("opt", (t, "none"))
        else:
          dflt = self.literal(t)
      out.append((self.fresh("p"), t, dflt))
    return out

  def ret_type(self, rets):
    alts = []
    for t in rets:
      if tname(t) == "any":
        return "any"
      if tname(t) in ("union", "opt"):
        alts.extend(t[1])
      else:
        alts.append(t)
    alts = list(dict.fromkeys(alts))
    if len(alts) == 1:
      return alts[0]
    return ("union", tuple(alts))

  def func_def(self, ind=0, name=None, self_cls=None, decorator=None):
    r = self.r
    name = name or self.fresh("f")
    ps = self.params()
    env = {pn: pt for pn, pt, _ in ps}
    sig = []
    if self_cls is not None and decorator != "staticmethod":
      sig.append("cls" if decorator == "classmethod" else "self")
    for pn, pt, d in ps:
      sig.append(pn if d is None else f"{pn}={d}")
    star = None
    if r.random() < 0.12 and self_cls is None:
      star = self.fresh("a")
      sig.append(f"*{star}")
    if decorator:
      self.emit(f"@{decorator}", ind)
    self.emit(f"def {name}({', '.join(sig)}):", ind)
    if self_cls is not None and decorator is None:
      env["self"] = ("inst", self_cls)
    rets = []
    saved = self.protected
    self.protected = frozenset(env)
    body_n = r.randint(0, 3)
    res = None
    kind = r.random()
    if kind < 0.15 and ps:
      # narrowing + closure over the narrowed parameter
      pn, pt, _ = ps[0]
      alts = pt[1] if tname(pt) in ("union", "opt") else (pt,)
      a = alts[0]
      test = f"{pn} is None" if a == "none" else f"isinstance({pn}, {self.runtime_class(a)})"
      self.emit(f"if {test}:", ind + 1)
      e2 = dict(env); e2[pn] = a
      t1 = self.pick_type(1)
      self.emit(f"return {r.choice([f'[{pn}]', self.expr(t1, e2, 1)])}", ind + 2)
      q = self.fresh("_q")
      self.emit(f"return (lambda {q}: ({q}, {pn}))({pn})", ind + 1)
      self.protected = saved
      f = Fn(name, ps, "any")
      return f
    if kind < 0.27 and ps:
      # returns its argument
      pn, pt, _ = r.choice(ps)
      self.block(env, ind + 1, rets, 1, n=body_n) if body_n else None
      self.emit(f"return {pn}", ind + 1)
      rets.append(pt)
      self.protected = saved
      return Fn(name, ps, self.ret_type(rets))
    if kind < 0.35:
      # nested function / closure
      inner = self.fresh("g")
      fv = self.pick_type(1)
      loc = self.fresh()
      self.emit(f"{loc} = {self.expr(fv, env, 1)}", ind + 1)
      env[loc] = fv
      ip = self.fresh("p")
      it = self.pick_type(1)
      self.emit(f"def {inner}({ip}):", ind + 1)
      self.emit(f"return ({ip}, {loc})", ind + 2)
      self.emit(f"return {inner}({self.expr(it, env, 1)})", ind + 1)
      self.protected = saved
      return Fn(name, ps, ("tuple", (it, fv)))
    if body_n:
      res = self.block(env, ind + 1, rets, 1, n=body_n)
    if res != "returned":
      if r.random() < 0.1:
        self.emit("pass", ind + 1)
        rets.append("none")
      else:
        if r.random() < 0.25:
          src, t = self.mixed_expr(env)
        else:
          t = self.pick_type()
          src = self.expr(t, env)
        if star and r.random() < 0.5:
          src, t = f"({src}, {star})", "any"
        self.emit(f"return {src}", ind + 1)
        rets.append(t)
    self.protected = saved
    return Fn(name, ps, self.ret_type(rets))

  def class_def(self):
    r = self.r
    name = "C" + str(len(self.classes))
    existing = list(self.classes)
    bases = []
    if existing and r.random() < 0.6:
      k = 1 if r.random() < 0.7 else 2
      bases = r.sample(existing, min(k, len(existing)))
      # avoid inconsistent MRO: drop a base that is an ancestor of another base
      bases = [b for b in bases if not any(b != o and b in self.mro_names(o) for o in bases)]
    c = Cls(name, bases)
    self.classes[name] = c
    self.emit(f"class {name}({', '.join(bases)}):" if bases else f"class {name}:", 0)
    n_items = 0
    if r.random() < 0.5:
      a = self.fresh("ca")
      t = self.pick_type(1)
      if tname(t) == "inst":
        t = "int"
      self.emit(f"{a} = {self.literal(t)}", 1)
      c.attrs[a] = t
      n_items += 1
    if r.random() < 0.8 or not bases:
      ps = self.params(r.randint(0, 2))
      ps = [(pn, pt, d) for pn, pt, d in ps if tname(pt) != "inst" or pt[1] != name]
      c.init_params = ps
      sig = ["self"] + [pn if d is None else f"{pn}={d}" for pn, pt, d in ps]
      self.emit(f"def __init__({', '.join(sig)}):", 1)
      env = {pn: pt for pn, pt, _ in ps}
      if bases and len(bases) == 1 and r.random() < 0.6:
        args = [self.literal(pt) for _, pt, d in self.eff_init(bases[0]) if d is None]
        self.emit(f"super().__init__({', '.join(args)})", 2)
      else:
        for bn in bases:
          args = [self.literal(pt) for _, pt, d in self.eff_init(bn) if d is None]
          self.emit(f"{bn}.__init__({', '.join(['self'] + args)})", 2)
      wrote = False
      for pn, pt, _ in ps:
        if r.random() < 0.8:
          a = self.fresh("at")
          self.emit(f"self.{a} = {pn}", 2)
          c.attrs[a] = pt
          wrote = True
      for _ in range(r.randint(0, 2)):
        a = self.fresh("at")
        t = self.pick_type(1)
        if tname(t) == "inst" and t[1] == name:
          t = "int"
        self.emit(f"self.{a} = {self.expr(t, env, 1)}", 2)
        c.attrs[a] = t
        wrote = True
      if not wrote:
        self.emit("pass", 2)
      n_items += 1
    else:
      c.init_params = self.eff_init(bases[0]) if bases else []
    for _ in range(r.randint(0, 2)):
      deco = r.choice([None, None, None, "staticmethod", "classmethod", "property"])
      mname = self.fresh("m")
      if deco == "property":
        t = self.pick_type(1)
        if tname(t) == "inst" and t[1] == name:
          t = "int"
        self.emit("@property", 1)
        self.emit(f"def {mname}(self):", 1)
        self.emit(f"return {self.expr(t, {}, 1)}", 2)
        c.attrs[mname] = t
        self.props.add(mname)
      else:
        saved_funcs = self.funcs
        f = self.func_def(1, name=mname, self_cls=name, decorator=deco)
        c.methods[mname] = f
      n_items += 1
    if r.random() < 0.3:
      # attribute set in one method, read in another
      a = self.fresh("late")
      t = self.pick_type(1)
      if tname(t) == "inst" and t[1] == name:
        t = "int"
      s, g = self.fresh("m"), self.fresh("m")
      self.emit(f"def {s}(self):", 1)
      self.emit(f"self.{a} = {self.literal(t)}", 2)
      self.emit("return self", 2)
      self.emit(f"def {g}(self):", 1)
      self.emit(f"return self.{a}", 2)
      c.late_attrs[a] = (s, g, t)
      n_items += 1
    if n_items == 0:
      self.emit("pass", 1)

  def diamond(self):
    """Cooperative multiple inheritance: Base <- Left, Right <- Both with super() chains."""
    r = self.r
    k = len(self.classes)
    base, left, right, both = (f"D{k}B", f"D{k}L", f"D{k}R", f"D{k}X")
    tb, tl, tr = r.sample(["int", "str", "float", "bytes", "none", ("list", "int")], 3)
    ab, ar, al = self.fresh("tag"), self.fresh("tag"), self.fresh("tag")
    self.emit(f"class {base}:", 0)
    self.emit("def __init__(self):", 1)
    self.emit(f"self.{ab} = {self.literal(tb)}", 2)
    self.emit("def m(self):", 1)
    self.emit(f"return {self.literal(tb)}", 2)
    self.emit(f"class {left}({base}):", 0)
    self.emit("def __init__(self):", 1)
    self.emit("super().__init__()", 2)
    self.emit(f"self.{al} = {self.literal(tl)}", 2)
    self.emit("def m(self):", 1)
    self.emit(r.choice(["return super().m()", "return (super().m(), 1)"]), 2)
    self.emit(f"class {right}({base}):", 0)
    self.emit("def __init__(self):", 1)
    self.emit("super().__init__()", 2)
    self.emit(f"self.{ar} = {self.literal(tr)}", 2)
    self.emit("def m(self):", 1)
    self.emit(f"return {self.literal(tr)}", 2)
    order = r.choice([(left, right), (left, right), (right, left)])
    self.emit(f"class {both}({order[0]}, {order[1]}):", 0)
    self.emit("pass", 1)
    for cname, bases, attrs in ((base, [], {ab: tb}), (left, [base], {al: tl}), (right, [base], {ar: tr}),
                                (both, list(order), {})):
      c = Cls(cname, bases)
      c.attrs = dict(attrs)
      c.init_params = []
      c.methods = {"m": Fn("m", [], "any")}
      self.classes[cname] = c
    o = self.fresh("o")
    self.emit(f"{o} = {both}()", 0)
    v = self.fresh()
    self.emit(f"{v} = {o}.m()", 0)
    w = self.fresh()
    self.emit(f"{w} = ({o}.{ab}, {o}.{al}, {o}.{ar})", 0)
    o2 = self.fresh("o")
    self.emit(f"{o2} = {left}()", 0)
    self.emit(f"{self.fresh()} = {o2}.m()", 0)

  def eff_init(self, cname):
    c = self.classes[cname]
    if c.init_params or not c.bases:
      return c.init_params
    return self.eff_init(c.bases[0])

  # -- whole program -----------------------------------------------------------
  def program(self):
    r = self.r
    self.emit("def _flag(n):", 0)
    self.emit("return n % 2 == 0", 1)
    for _ in range(r.choice([0, 1, 1, 2, 3])):
      self.class_def()
    if r.random() < 0.12:
      self.diamond()
    for _ in range(r.choice([1, 2, 2, 3, 4])):
      f = self.func_def()
      self.funcs[f.name] = f
    env = {}
    for cname, c in self.classes.items():
      if r.random() < 0.8:
        n = self.fresh("o")
        self.emit(f"{n} = {self.construct(cname, env, 1)}", 0)
        env[n] = ("inst", cname)
        for a, (s, g, t) in c.late_attrs.items():
          if r.random() < 0.7:
            v = self.fresh()
            self.emit(f"{v} = {n}.{s}().{g}()", 0)
            env[v] = t
    for _ in range(self.size):
      self.stmt(env, 0)
    return "\n".join(self.lines) + "\n"


def generate(rng: random.Random, size=None) -> str:
  for _ in range(20):
    try:
      return Gen(rng, size).program()
    except (RecursionError, IndexError, KeyError, ValueError):
      continue
  return "x = 1\n"
