"""Generator of pytd.TypeDeclUnit ASTs in the dialect pytype EMITS (shared by
C05/C12 and reusable by any check that needs stub-shaped input).

Public API
----------
generate_unit(rng, name='m', size=None, canonical=True) -> pytd.TypeDeclUnit
    One module in the shape `pytype.output` + `io.generate_pyi_ast` hand to the
    printer: unqualified local names, fully qualified `builtins.`/`typing.`/
    `collections.`/`enum.` references as NamedType, module-level TypeVars in
    `type_params`, scopes/templates filled in by `visitors.AdjustTypeParameters`
    (as `compute_types` does), canonical order (as io does).
generate_type(rng, depth, classes, typevars=(), enums=()) -> pytd.Type
    One type expression over the given local classes (names or ClassInfo).
type_pool(rng, n) -> list[pytd.Type]
    Type nodes with many equal-but-not-identical members (permuted / duplicated
    unions, Generic/Tuple/Callable triples over equal parameters, ClassType
    with and without cls) for equality/hash laws.
resolve_unit(unit, loader) -> pytd.TypeDeclUnit
    `loader.resolve_ast`: NamedType -> ClassType with cls pointers, exactly the
    state of an inferred AST when io prints it.
node_kinds(node) -> collections.Counter of pytd node class names.

Everything is driven by the `random.Random` passed in; no global state.
The dialect was read off pytype/output.py (`_class_to_def`, `_function_to_def`,
`value_instance_to_pytd_type`, `_typed_dict_to_def`, `_type_variable_to_def`)
and off stubs emitted for real programs; shapes the printer rejects or that
output.py cannot produce (mutable parameters outside `__init__`-style `self`,
exceptions, `Intersection`, module-qualified definitions) are not generated.
"""
from __future__ import annotations

import collections
import dataclasses
import random

SCALARS = ["int", "str", "float", "bool", "bytes", "complex", "NoneType", "object",
           "bytearray", "memoryview", "BaseException", "ValueError", "slice", "range"]
GENERIC1 = ["builtins.list", "builtins.set", "builtins.frozenset", "typing.Sequence",
            "typing.Iterable", "typing.Iterator", "typing.Awaitable", "typing.Collection",
            "typing.AbstractSet", "typing.MutableSequence", "collections.deque",
            "typing.AsyncIterator", "typing.Reversible", "typing.ItemsView", "typing.Counter"]
GENERIC2 = ["builtins.dict", "typing.Mapping", "typing.MutableMapping",
            "typing.OrderedDict", "collections.defaultdict", "typing.ChainMap"]
GENERIC3 = ["typing.Generator", "typing.Coroutine"]

# Local names that collide with builtins / typing members / pytd keywords or are
# soft keywords: the printer must then qualify (`builtins.str`, `typing.Any`) and
# add the import, and the parser must read that back.
CLASHING_CLASS_NAMES = ["str", "list", "type", "object", "Any", "Union", "Optional",
                        "Callable", "dict", "Type", "List",
                        "Final", "Annotated", "Never"]
SPECIAL_FORM_NAMES = frozenset([
    "Literal", "Optional", "Union", "Callable", "Type", "Final", "Annotated", "Generic",
    "Protocol", "Never", "Any", "tuple", "type", "List", "dict", "list"])
CLASHING_VALUE_NAMES = ["match", "case", "type", "print", "list", "str", "id", "nothing",
                        "Any", "Optional", "Union", "Callable", "typing", "builtins",
                        "collections", "enum", "property", "staticmethod", "classmethod",
                        "self", "cls", "None_", "_", "__all__", "TypeVar_", "int", "tuple",
                        "Self", "abstractmethod"]
# Typing member / module names as CLASS members are not generated: the printer's
# copied visitors lose `_class_members`, which gives a family of perverse defects
# (notes/C05.md, "class member named like a typing member").
TYPING_LIKE = frozenset(["Any", "Optional", "Union", "Callable", "Self", "typing", "builtins",
                         "collections", "enum", "TypeVar_", "Literal", "Generic"])
CLASS_MEMBER_CLASH_NAMES = [n for n in CLASHING_VALUE_NAMES if n not in TYPING_LIKE]
STRING_LITERALS = ["", "a", "b c", "it's", 'say "x"', "it's \"x\"", "back\\slash", "new\nline",
                   "tab\t", "café", "中", "]", "[", ",", "Literal[1]", "None", "#c", "b'x'",
                   "'", '"', "\\", "a, b", "{}", "%s", "\x00", "\U0001f600"]
BYTES_LITERALS = [b"", b"x", b"a b", b"\x00\xff", b"it's", b'"', b"\\", b"]", b"\n"]


@dataclasses.dataclass
class ClassInfo:
  name: str               # as referenced from module scope: 'C0' or 'C0.In1'
  arity: int = 0          # number of type parameters
  kind: str = "plain"     # plain|enum|namedtuple|typeddict|protocol|generic|abc
  members: tuple = ()     # enum member names


def _pytd():
  from pytype.pytd import pytd  # late: needs vf.boot.activate()
  return pytd


def _as_info(c):
  return c if isinstance(c, ClassInfo) else ClassInfo(str(c))


# ---------------------------------------------------------------------------
# types


def named(name):
  return _pytd().NamedType(name)


def bnamed(name):
  return _pytd().NamedType("builtins." + name)


def literal(rng, enums=()):
  """One Literal node the way output.value_instance_to_pytd_type builds it."""
  pytd = _pytd()
  k = rng.random()
  if k < 0.30:
    return pytd.Literal(rng.choice([0, 1, 2, -1, 7, 42, 10**12, -(2**40), 255]))
  if k < 0.62:
    return pytd.Literal(repr(rng.choice(STRING_LITERALS)))
  if k < 0.76:
    return pytd.Literal(repr(rng.choice(BYTES_LITERALS)))
  if k < 0.90 or not enums:
    b = rng.choice(["True", "False"])
    return pytd.Literal(pytd.Constant("builtins." + b, bnamed("bool")))
  e = _as_info(rng.choice(list(enums)))
  return pytd.Literal(pytd.Constant(f"{e.name}.{rng.choice(e.members)}", named(e.name)))


def _literal_key(t):
  """Python-value identity of a Literal (True == 1 must not be generated together)."""
  pytd = _pytd()
  v = t.value
  if isinstance(v, pytd.Constant):
    if v.name == "builtins.True":
      return ("num", 1)
    if v.name == "builtins.False":
      return ("num", 0)
    return ("enum", v.name)
  if isinstance(v, int):
    return ("num", v)
  return ("s", v)


def union(members):
  """pytd_utils.JoinTypes semantics without importing it: flatten, dedup, Any wins."""
  pytd = _pytd()
  flat = []
  for m in members:
    for x in (m.type_list if isinstance(m, pytd.UnionType) else (m,)):
      if isinstance(x, pytd.NothingType):
        continue
      if x not in flat:
        flat.append(x)
  if any(isinstance(x, pytd.AnythingType) for x in flat):
    return pytd.AnythingType()
  if not flat:
    return pytd.NothingType()
  if len(flat) == 1:
    return flat[0]
  return pytd.UnionType(tuple(flat))


def generate_type(rng, depth, classes, typevars=(), enums=(), allow_nothing=False,
                  allow_bool_int_literal_mix=False):
  """A type expression in the emitted dialect.

  classes: local classes usable as references (str or ClassInfo).
  typevars: pytd.TypeParameter nodes in scope.
  """
  pytd = _pytd()
  classes = [_as_info(c) for c in classes]
  enums = [c for c in classes if c.kind == "enum" and c.members] if not enums else [
      _as_info(e) for e in enums]

  def rec(d, nothing_ok=False):
    r = rng.random()
    if d <= 0 or r < 0.28:
      return leaf(nothing_ok)
    k = rng.random()
    if k < 0.14:
      return pytd.GenericType(named(rng.choice(GENERIC1)), (rec(d - 1, True),))
    if k < 0.24:
      return pytd.GenericType(named(rng.choice(GENERIC2)), (rec(d - 1), rec(d - 1, True)))
    if k < 0.27:
      return pytd.GenericType(named(rng.choice(GENERIC3)), (rec(d - 1), rec(d - 1), rec(d - 1)))
    if k < 0.34:   # homogeneous tuple
      return pytd.GenericType(bnamed("tuple"), (rec(d - 1),))
    if k < 0.44:   # heterogeneous tuple incl. tuple[()]
      n = rng.choice([0, 1, 1, 2, 2, 3])
      return pytd.TupleType(bnamed("tuple"), tuple(rec(d - 1) for _ in range(n)))
    if k < 0.56:   # Callable[[...], r]
      n = rng.choice([0, 1, 1, 2, 3])
      # Callable[[nothing], R] (from a NoReturn argument annotation) is emitted by
      # pytype but rare; keep it rare here too.
      return pytd.CallableType(
          named("typing.Callable"),
          tuple(rec(d - 1, allow_nothing and rng.random() < 0.04) for _ in range(n)) +
          (rec(d - 1),))
    if k < 0.60:   # Callable[..., r]; pytype collapses Callable[..., Any] to bare Callable
      ret = rec(d - 1)
      if isinstance(ret, pytd.AnythingType):
        return named("typing.Callable")
      return pytd.GenericType(named("typing.Callable"), (pytd.AnythingType(), ret))
    if k < 0.78:   # Union / Optional
      n = rng.choice([2, 2, 2, 3, 4])
      ms = [rec(d - 1) for _ in range(n)]
      if rng.random() < 0.45:
        ms.insert(rng.randrange(len(ms) + 1), bnamed("NoneType"))
      u = union(ms)
      if isinstance(u, pytd.UnionType) and not allow_bool_int_literal_mix:
        seen, keep = set(), []
        for m in u.type_list:
          if isinstance(m, pytd.Literal):
            key = _literal_key(m)
            if key in seen:
              continue
            seen.add(key)
          keep.append(m)
        u = union(keep)
      return u
    if k < 0.84:   # type[X]
      inner = rec(0) if rng.random() < 0.7 else rec(d - 1)
      if isinstance(inner, (pytd.Literal, pytd.NothingType)):
        inner = bnamed("int")
      return pytd.GenericType(bnamed("type"), (inner,))
    if k < 0.90:   # several literals
      n = rng.choice([2, 3, 4])
      return rec_literals(n)
    gen = [c for c in classes if c.arity]
    if gen:
      c = rng.choice(gen)
      return pytd.GenericType(named(c.name), tuple(rec(d - 1) for _ in range(c.arity)))
    return leaf(nothing_ok)

  def rec_literals(n):
    ms, seen = [], set()
    for _ in range(n):
      l = literal(rng, enums)
      key = _literal_key(l)
      if key in seen and not allow_bool_int_literal_mix:
        continue
      seen.add(key)
      ms.append(l)
    return union(ms)

  def leaf(nothing_ok):
    r = rng.random()
    if r < 0.40:
      return bnamed(rng.choice(SCALARS[:8] if rng.random() < 0.8 else SCALARS))
    if r < 0.58 and classes:
      return named(rng.choice(classes).name)
    if r < 0.66:
      return pytd.AnythingType()
    if r < 0.76 and typevars:
      return rng.choice(list(typevars))
    if r < 0.86:
      return literal(rng, enums)
    if r < 0.89:
      return named("typing.Callable")
    if r < 0.92 and nothing_ok and allow_nothing:
      return pytd.NothingType()
    if r < 0.95:
      return bnamed(rng.choice(["list", "dict", "tuple", "set", "type"]))
    return bnamed(rng.choice(SCALARS[:5]))

  return rec(depth)


# ---------------------------------------------------------------------------
# declarations


class _Gen:

  def __init__(self, rng, name, size):
    self.rng = rng
    self.name = name
    self.size = size if size is not None else rng.choice([1, 2, 2, 3, 3, 4, 5])
    self.pytd = _pytd()
    self.used = set()          # module-level names
    self.classes: list[ClassInfo] = []
    self.typevars = {}         # name -> TypeParameter definition (module level)
    self.nfresh = 0

  # -- names -----------------------------------------------------------------
  def fresh(self, prefix, clash_pool=None, p_clash=0.08, reserve=True):
    rng = self.rng
    if clash_pool and rng.random() < p_clash:
      cand = [n for n in clash_pool if n not in self.used]
      if cand:
        n = rng.choice(cand)
        if reserve:
          self.used.add(n)
        return n
    while True:
      self.nfresh += 1
      n = f"{prefix}{self.nfresh}"
      if n not in self.used:
        if reserve:
          self.used.add(n)
        return n

  # -- type variables --------------------------------------------------------
  def new_typevar(self, bound_to=None):
    pytd, rng = self.pytd, self.rng
    n = self.fresh(rng.choice(["T", "_T", "K", "V"]), ["T", "AnyStr", "_T0", "S"], 0.3)
    r = rng.random()
    if bound_to is not None:
      tp = pytd.TypeParameter(n, bound=named(bound_to))
    elif n == "AnyStr" or r < 0.2:
      cs = rng.sample(["int", "str", "bytes", "float", "bool"], rng.choice([2, 2, 3]))
      if n == "AnyStr":
        cs = ["str", "bytes"]
      tp = pytd.TypeParameter(n, constraints=tuple(bnamed(c) for c in cs))
    elif r < 0.4:
      b = generate_type(rng, 1, [c for c in self.classes if not c.arity])
      if isinstance(b, (pytd.AnythingType, pytd.NothingType, pytd.Literal)):
        b = bnamed("int")
      tp = pytd.TypeParameter(n, bound=b)
    else:
      tp = pytd.TypeParameter(n)
    self.typevars[n] = tp
    return tp

  def some_typevar(self):
    if self.typevars and self.rng.random() < 0.6:
      return self.rng.choice(list(self.typevars.values()))
    return self.new_typevar()

  # -- types -----------------------------------------------------------------
  def ty(self, depth=None, typevars=(), nothing=False):
    d = depth if depth is not None else self.rng.choice([0, 1, 1, 2, 2, 3])
    return generate_type(self.rng, d, self.classes, typevars=typevars, allow_nothing=nothing)

  # -- functions -------------------------------------------------------------
  def param(self, name, t=None, kind=None, optional=False):
    pytd = self.pytd
    return pytd.Parameter(name, t if t is not None else pytd.AnythingType(),
                          kind or pytd.ParameterKind.REGULAR, optional, None)

  def signature(self, first=None, typevars=(), ret=None, n_max=4, no_star=False):
    """first: an already built first Parameter (self/cls) or None."""
    pytd, rng = self.pytd, self.rng
    names = set()

    def pname():
      while True:
        n = rng.choice(CLASHING_VALUE_NAMES) if rng.random() < 0.10 else f"p{rng.randrange(40)}"
        if n in ("self", "cls", "__all__", "_") or n in names:
          continue
        names.add(n)
        return n

    def ptype():
      return self.ty(typevars=typevars) if rng.random() < 0.6 else None

    n_pos = rng.choice([0, 0, 1]) if not first else 0
    n_reg = rng.randrange(0, n_max)
    n_kw = rng.choice([0, 0, 0, 1, 2])
    params = []
    seen_opt = False
    for i in range(n_pos + n_reg):
      opt = seen_opt or rng.random() < 0.25
      seen_opt = opt
      kind = pytd.ParameterKind.POSONLY if i < n_pos else pytd.ParameterKind.REGULAR
      params.append(self.param(pname(), ptype(), kind, opt))
    if first is not None:
      params.insert(0, first)
    for _ in range(n_kw):
      params.append(self.param(pname(), ptype(), pytd.ParameterKind.KWONLY, rng.random() < 0.5))
    star = starstar = None
    if not no_star and rng.random() < 0.25:
      t = bnamed("tuple") if rng.random() < 0.5 else pytd.GenericType(
          bnamed("tuple"), (self.ty(1, typevars),))
      star = self.param(rng.choice(["args", "a", "rest"]) if "args" not in names else "va",
                        t, optional=True)
    if not no_star and rng.random() < 0.25:
      t = bnamed("dict") if rng.random() < 0.5 else pytd.GenericType(
          bnamed("dict"), (bnamed("str"), self.ty(1, typevars)))
      starstar = self.param(rng.choice(["kwargs", "kw"]) if "kw" not in names else "vkw",
                            t, optional=True)
    if ret is None:
      r = rng.random()
      if r < 0.08:
        ret = pytd.NothingType()          # printed as Never
      elif r < 0.20:
        ret = bnamed("NoneType")
      elif r < 0.30:
        ret = pytd.AnythingType()
      else:
        ret = self.ty(typevars=typevars, nothing=False)
    return pytd.Signature(tuple(params), star, starstar, ret, (), ())

  def function(self, name, kind=None, first_maker=None, typevars=(), in_class=False):
    pytd, rng = self.pytd, self.rng
    kind = kind or pytd.MethodKind.METHOD
    tvs = list(typevars)
    if rng.random() < 0.3:
      tvs.append(self.some_typevar())
    n_sigs = rng.choice([1, 1, 1, 1, 2, 3])
    sigs = []
    for _ in range(n_sigs):
      first = first_maker() if first_maker else None
      use = tvs
      s = self.signature(first, typevars=use)
      # a function-scoped TypeVar that appears only in the return type is not
      # something pytype infers; make sure each used fresh typevar is in a param
      sigs.append(s)
    # overloads must differ, identical signatures are merged by the optimizer
    uniq = []
    for s in sigs:
      if s not in uniq:
        uniq.append(s)
    flags = pytd.MethodFlag.NONE
    if in_class and rng.random() < 0.06:
      flags |= pytd.MethodFlag.FINAL
    return pytd.Function(name, tuple(uniq), kind, flags)

  # -- classes ---------------------------------------------------------------
  def klass(self, name, qual, depth=0):
    """name: the Class.name to store (unqualified for nested), qual: name as referenced."""
    pytd, rng = self.pytd, self.rng
    r = rng.random()
    if depth == 0 and r < 0.10:
      return self.enum_class(name, qual)
    if depth == 0 and r < 0.18:
      return self.namedtuple_class(name, qual)
    if depth == 0 and r < 0.24:
      return self.typeddict_class(name, qual)
    info = ClassInfo(qual)
    bases, keywords, template_tvs = [], [], []
    kind = "plain"
    plain_bases = [c for c in self.classes if c.kind in ("plain", "generic", "abc") and
                   "." not in c.name]
    r = rng.random()
    if name in SPECIAL_FORM_NAMES:
      r = max(r, 0.34)    # a *generic* local class called Literal/Type/... is not generated
    if r < 0.25:
      n = rng.choice([1, 1, 2])
      template_tvs = []
      for _ in range(n):
        tv = self.some_typevar()
        if tv not in template_tvs:
          template_tvs.append(tv)
      # pytype emits `class P(Protocol[T])` as `class P(Generic[T], Protocol)`
      bases.append(pytd.GenericType(named("typing.Generic"), tuple(template_tvs)))
      if rng.random() < 0.2:
        bases.append(named("typing.Protocol"))
      info.arity = len(template_tvs)
      kind = "generic"
    elif r < 0.33:
      bases.append(named("typing.Protocol"))
      kind = "protocol"
    for b in rng.sample(plain_bases, min(len(plain_bases), rng.choice([0, 0, 1, 1, 2]))):
      if b.arity:
        if template_tvs and rng.random() < 0.5:
          args = tuple(rng.choice(template_tvs) for _ in range(b.arity))
        else:
          args = tuple(self.ty(1) for _ in range(b.arity))
        bases.insert(0, pytd.GenericType(named(b.name), args))
      else:
        bases.insert(0, named(b.name))
    if not bases and rng.random() < 0.08:
      bases.append(rng.choice([bnamed("list"), bnamed("Exception"), bnamed("dict"),
                               pytd.GenericType(bnamed("list"), (bnamed("int"),)),
                               pytd.GenericType(bnamed("dict"), (bnamed("str"), self.ty(1))),
                               pytd.AnythingType(), bnamed("type")]))
    if not bases:
      bases.append(bnamed("object"))
    if rng.random() < 0.07 and kind == "plain":
      keywords.append(("metaclass", named("abc.ABCMeta")))
      kind = "abc"
    elif rng.random() < 0.04:
      metas = [c for c in self.classes if c.kind == "meta"]
      if metas:
        keywords.append(("metaclass", named(rng.choice(metas).name)))
    info.kind = kind
    # nested classes first so members can mention them
    nested = []
    if depth < 2 and rng.random() < 0.22:
      for _ in range(rng.choice([1, 1, 2])):
        nn = self.fresh("In", reserve=False)
        saved = self.classes
        ncls, ninfo = self.klass(nn, f"{qual}.{nn}", depth + 1)
        nested.append(ncls)
        self.classes = saved + [ninfo]
    members = set(c.name for c in nested)
    constants, methods = [], []
    tvs = tuple(template_tvs)

    def mname(prefix, pool=None):
      while True:
        n = rng.choice(pool) if pool and rng.random() < 0.12 else f"{prefix}{rng.randrange(60)}"
        if n not in members and n not in ("self", "cls", "__all__", "_"):
          members.add(n)
          return n

    for _ in range(rng.choice([0, 1, 2, 3])):
      n = mname("a", CLASS_MEMBER_CLASH_NAMES)
      t = self.ty(typevars=tvs, nothing=True)
      r = rng.random()
      if r < 0.18:
        t = pytd.Annotated(self.ty(typevars=tvs), ("'property'",))
      elif r < 0.24:
        t = pytd.GenericType(named("typing.ClassVar"), (self.ty(typevars=()),))
      elif r < 0.28:
        t = pytd.GenericType(named("typing.Final"), (self.ty(typevars=()),))
      constants.append(pytd.Constant(n, t))
    self_t = named(name)

    def first_self():
      return self.param("self", self_t)

    def first_cls():
      return self.param("cls", pytd.GenericType(bnamed("type"), (self_t,)))

    dunders = ["__init__", "__eq__", "__len__", "__call__", "__getitem__", "__enter__",
               "__iter__", "__new__", "__init_subclass__", "__repr__", "__hash__",
               "__class_getitem__", "__add__", "__bool__"]
    for _ in range(rng.choice([0, 1, 1, 2, 3])):
      r = rng.random()
      if r < 0.3:
        cand = [d for d in dunders if d not in members]
        n = rng.choice(cand) if cand else mname("m")
        members.add(n)
      else:
        n = mname("m", ["match", "type", "print", "list", "property", "get", "items"])
      if n == "__new__":
        # output.py: kind METHOD, first parameter cls: type[Self-ish TypeVar]
        tv = self.new_typevar(bound_to=qual)
        f = self.function(n, first_maker=lambda tv=tv: self.param(
            "cls", pytd.GenericType(bnamed("type"), (tv,))), typevars=tvs, in_class=True)
        f = f.Replace(signatures=tuple(s.Replace(return_type=tv) for s in f.signatures))
        f = f.Replace(signatures=tuple(dict.fromkeys(f.signatures)))
      elif n in ("__init_subclass__", "__class_getitem__"):
        f = self.function(n, pytd.MethodKind.CLASSMETHOD, first_cls, tvs, True)
      elif n == "__init__":
        f = self.function(n, first_maker=first_self, typevars=tvs, in_class=True)
        sigs = tuple(s.Replace(return_type=bnamed("NoneType")) for s in f.signatures)
        if template_tvs and rng.random() < 0.5:
          # the one mutation output.py keeps: `self = C[T]` in a generic __init__
          mt = pytd.GenericType(named(name), tuple(template_tvs))
          sigs = tuple(s.Replace(params=(s.params[0].Replace(mutated_type=mt),) + s.params[1:])
                       for s in sigs)
        f = f.Replace(signatures=tuple(dict.fromkeys(sigs)))
      else:
        k = rng.random()
        if k < 0.15:
          f = self.function(n, pytd.MethodKind.STATICMETHOD, None, (), True)
        elif k < 0.30:
          f = self.function(n, pytd.MethodKind.CLASSMETHOD, first_cls, tvs, True)
        else:
          f = self.function(n, first_maker=first_self, typevars=tvs, in_class=True)
          if kind == "abc" and rng.random() < 0.6:
            f = f.Replace(flags=f.flags | pytd.MethodFlag.ABSTRACT)
      methods.append(f)
    decorators = []
    if rng.random() < 0.05:
      decorators.append(self.decorator("typing.final", "final"))
    slots = None
    if rng.random() < 0.08 and kind == "plain":
      slots = tuple(c.name for c in constants
                    if not isinstance(c.type, (pytd.Annotated,)) and c.type.name not in (
                        "typing.ClassVar", "typing.Final"))
    cls = pytd.Class(name=name, keywords=tuple(keywords), bases=tuple(bases),
                     methods=tuple(methods), constants=tuple(constants),
                     classes=tuple(nested), decorators=tuple(decorators), slots=slots,
                     template=())
    return cls, info

  def decorator(self, full, alias):
    pytd = self.pytd
    sig = pytd.Signature((), None, None, pytd.AnythingType(), (), ())
    return pytd.Alias(alias, pytd.Function(full, (sig,), pytd.MethodKind.METHOD,
                                           pytd.MethodFlag.NONE))

  def enum_class(self, name, qual):
    pytd, rng = self.pytd, self.rng
    info = ClassInfo(qual, kind="enum")
    n = rng.choice([1, 2, 3, 4])
    members, consts = [], []
    pool = ["RED", "GREEN", "BLUE", "A", "B", "X_1", "none", "name_", "mro_", "TRUE"]
    for mn in rng.sample(pool, n):
      members.append(mn)
      r = rng.random()
      # LITERAL output mode: enum members carry the type of their value
      if r < 0.45:
        t = pytd.Literal(repr(rng.choice([1, 2, 3, 0, -1, 10**9])))
      elif r < 0.80:
        t = pytd.Literal(repr(rng.choice(STRING_LITERALS)))
      elif r < 0.88:
        t = pytd.Literal(repr(rng.choice(BYTES_LITERALS)))
      else:
        t = self.ty(1)
      consts.append(pytd.Constant(mn, t))
    info.members = tuple(members)
    if rng.random() < 0.3:
      consts.append(pytd.Constant("extra", pytd.GenericType(
          named("typing.ClassVar"), (self.ty(1),))))
    if rng.random() < 0.3:
      consts.append(pytd.Constant("label", pytd.Annotated(self.ty(1), ("'property'",))))
    methods = []
    if rng.random() < 0.5:
      methods.append(self.function("describe", first_maker=lambda: self.param("self", named(name)),
                                   in_class=True))
    base = rng.choice(["enum.Enum", "enum.Enum", "enum.IntEnum", "enum.Flag"])
    cls = pytd.Class(name=name, keywords=(), bases=(named(base),), methods=tuple(methods),
                     constants=tuple(consts), classes=(), decorators=(), slots=None, template=())
    return cls, info

  def namedtuple_class(self, name, qual):
    pytd, rng = self.pytd, self.rng
    info = ClassInfo(qual, kind="namedtuple")
    consts, seen_default = [], False
    names = rng.sample(["a", "b", "x", "y", "count", "index_", "type", "match", "f1", "f2"],
                       rng.choice([0, 1, 2, 3, 4]))
    for fn in names:
      seen_default = seen_default or rng.random() < 0.3
      consts.append(pytd.Constant(fn, self.ty(), pytd.AnythingType() if seen_default else None))
    if rng.random() < 0.2:
      consts.append(pytd.Constant("K", pytd.GenericType(named("typing.ClassVar"), (self.ty(1),))))
    methods = []
    if rng.random() < 0.4:
      methods.append(self.function("total", first_maker=lambda: self.param("self", named(name)),
                                   in_class=True))
    cls = pytd.Class(name=name, keywords=(), bases=(named("typing.NamedTuple"),),
                     methods=tuple(methods), constants=tuple(consts), classes=(), decorators=(),
                     slots=None, template=())
    return cls, info

  def typeddict_class(self, name, qual):
    pytd, rng = self.pytd, self.rng
    info = ClassInfo(qual, kind="typeddict")
    total = rng.random() < 0.7
    keys = rng.sample(["k", "v", "name", "id", "type", "x1", "Key", "match"], rng.choice([0, 1, 2, 3]))
    if rng.random() < 0.12:
      keys.append(rng.choice(["a-b", "with space", "1st", "class", "x.y"]))
    consts = []
    for k in keys:
      t = self.ty(2)
      r = rng.random()
      if total and r < 0.2:
        t = pytd.GenericType(named("typing.NotRequired"), (t,))
      elif not total and r < 0.2:
        t = pytd.GenericType(named("typing.Required"), (t,))
      consts.append(pytd.Constant(k, t))
    kws = () if total else (("total", pytd.Literal(pytd.Constant("builtins.False", bnamed("bool")))),)
    cls = pytd.Class(name=name, keywords=kws, bases=(named("typing.TypedDict"),), methods=(),
                     constants=tuple(consts), classes=(), decorators=(), slots=None, template=())
    return cls, info

  # -- module ----------------------------------------------------------------
  def unit(self, canonical):
    pytd, rng = self.pytd, self.rng
    n = self.size
    classes, functions, constants, aliases = [], [], [], []
    if rng.random() < 0.1:
      nm = self.fresh("Meta")
      classes.append(pytd.Class(name=nm, keywords=(), bases=(bnamed("type"),), methods=(),
                                constants=(), classes=(), decorators=(), slots=None, template=()))
      self.classes.append(ClassInfo(nm, kind="meta"))
    for _ in range(rng.randrange(0, n + 1)):
      nm = self.fresh("C", CLASHING_CLASS_NAMES, 0.07)
      cls, info = self.klass(nm, nm)
      classes.append(cls)
      self.classes.append(info)
      for sub in _nested_infos(cls, nm):
        self.classes.append(sub)
    for _ in range(rng.randrange(0, 2 * n + 1)):
      nm = self.fresh("f", CLASHING_VALUE_NAMES, 0.08)
      functions.append(self.function(nm))
    for _ in range(rng.randrange(0, 3 * n + 1)):
      nm = self.fresh("v", CLASHING_VALUE_NAMES, 0.08)
      r = rng.random()
      if r < 0.06 and self.classes:
        # class alias, output.value_to_pytd_def: `X: type[Y]`
        t = pytd.GenericType(bnamed("type"), (named(rng.choice(self.classes).name),))
      elif r < 0.10:
        t = pytd.GenericType(named("typing.Final"), (self.ty(1),))
      else:
        t = self.ty(nothing=True)
      if nm in TYPING_LIKE and isinstance(t, pytd.GenericType) and t.base_type.name == "builtins.type":
        # `Any: type[typing.Any]` is deliberately rewritten by the printer to an import
        # (PrintVisitor._DropTypingConstant); not part of what a module can declare
        t = bnamed("int")
      constants.append(pytd.Constant(nm, t))
    if rng.random() < 0.10 and "__all__" not in self.used:
      self.used.add("__all__")
      constants.append(pytd.Constant(
          "__all__", pytd.GenericType(bnamed("list"), (bnamed("str"),))))
    for _ in range(rng.choice([0, 0, 1, 2])):
      nm = self.fresh("A", ["Alias", "JSON", "T_co"], 0.1)
      r = rng.random()
      if r < 0.08:
        # `import collections as A1`: rare, re-reading it is a known defect
        mod = rng.choice(["collections", "enum", "typing", "abc"])
        aliases.append(pytd.Alias(nm, pytd.Module(nm, module_name=mod)))
      else:
        t = self.ty(rng.choice([1, 2, 3]))
        if not isinstance(t, (pytd.GenericType, pytd.UnionType)):
          t = pytd.GenericType(bnamed("list"), (t,))
        aliases.append(pytd.Alias(nm, t))
    # modules referenced by name must be imported the way a program would do it;
    # output.py records `import collections` as Alias(Module).
    text_mods = set()
    probe = pytd.TypeDeclUnit(self.name, tuple(constants), (), tuple(classes),
                              tuple(functions), tuple(aliases))
    for k in _named_refs(probe):
      if "." in k:
        head = k.split(".")[0]
        if head in ("collections", "enum", "abc", "attr"):
          text_mods.add(head)
    for m in sorted(text_mods):
      if m not in self.used:
        self.used.add(m)
        if rng.random() < 0.03:    # `import enum as en_` only (known defect on re-read)
          aliases.append(pytd.Alias(m + "_", pytd.Module(m + "_", module_name=m)))
        else:
          aliases.append(pytd.Alias(m, pytd.Module(m, module_name=m)))
    unit = pytd.TypeDeclUnit(
        name=self.name, constants=tuple(constants),
        type_params=tuple(self.typevars[k] for k in sorted(self.typevars)),
        classes=tuple(classes), functions=tuple(functions), aliases=tuple(aliases))
    unit = _drop_unused_typevars(unit)
    from pytype.pytd import visitors
    unit = unit.Visit(visitors.AdjustTypeParameters())
    if canonical:
      unit = unit.Visit(visitors.CanonicalOrderingVisitor())
    return unit


def _nested_infos(cls, qual):
  for c in cls.classes:
    yield ClassInfo(f"{qual}.{c.name}")
    yield from _nested_infos(c, f"{qual}.{c.name}")


def _named_refs(node):
  from pytype.pytd import visitors

  class V(visitors.Visitor):

    def __init__(self):
      super().__init__()
      self.names = set()

    def EnterNamedType(self, t):
      self.names.add(t.name)

    def EnterClassType(self, t):
      self.names.add(t.name)

  v = V()
  node.Visit(v)
  return v.names


def _drop_unused_typevars(unit):
  """output.py only declares the TypeVars a module mentions."""
  from pytype.pytd import visitors

  class V(visitors.Visitor):

    def __init__(self):
      super().__init__()
      self.names = set()

    def EnterTypeParameter(self, t):
      self.names.add(t.name)

  v = V()
  for part in (unit.constants, unit.classes, unit.functions, unit.aliases):
    for x in part:
      x.Visit(v)
  return unit.Replace(type_params=tuple(t for t in unit.type_params if t.name in v.names))


def generate_unit(rng: random.Random, name: str = "m", size=None, canonical: bool = True):
  """A TypeDeclUnit in the dialect pytype emits (see module docstring)."""
  return _Gen(rng, name, size).unit(canonical)


def resolve_unit(unit, loader):
  """NamedType -> ClassType with cls pointers, as analyze.infer_types does."""
  return loader.resolve_ast(unit)


def node_kinds(node) -> collections.Counter:
  from pytype.pytd.parse import node as node_mod
  c = collections.Counter()

  def walk(n):
    if isinstance(n, tuple):
      for x in n:
        walk(x)
    elif isinstance(n, node_mod.Node):
      c[type(n).__name__] += 1
      for _, ch in n.IterChildren():
        walk(ch)

  walk(node)
  return c


# ---------------------------------------------------------------------------
# pool of type nodes for equality / hash laws


def type_pool(rng: random.Random, n: int = 400):
  """~n type nodes, built so that many distinct objects are equal: every base
  node is emitted several times as a fresh structurally equal copy, unions in
  permuted / duplicated / nested-flattened forms, Generic/Tuple/Callable over the
  same parameters, ClassType with and without cls."""
  pytd = _pytd()
  classes = [ClassInfo("K0"), ClassInfo("K1"), ClassInfo("G0", arity=1),
             ClassInfo("E0", kind="enum", members=("RED", "BLUE"))]
  tvs = [pytd.TypeParameter("T"), pytd.TypeParameter("T", scope="K0"),
         pytd.TypeParameter("S", bound=bnamed("int")), pytd.ParamSpec("T")]
  dummy = pytd.Class(name="K0", keywords=(), bases=(), methods=(), constants=(), classes=(),
                     decorators=(), slots=None, template=())
  dummy2 = pytd.Class(name="K0", keywords=(), bases=(bnamed("object"),), methods=(),
                      constants=(), classes=(), decorators=(), slots=None, template=())
  pool = []
  atoms = [bnamed(s) for s in SCALARS[:6]] + [named("K0"), named("K1"),
                                               pytd.AnythingType(), pytd.NothingType()]
  seeds = []
  for _ in range(n // 8):
    seeds.append(generate_type(rng, rng.choice([0, 1, 2, 3]), classes, typevars=tvs,
                               allow_nothing=True, allow_bool_int_literal_mix=True))

  def rebuild(t):
    """A fresh, structurally identical copy (no shared sub-objects)."""
    if isinstance(t, tuple):
      return tuple(rebuild(x) for x in t)
    if isinstance(t, pytd.ClassType):
      return pytd.ClassType(t.name, t.cls)
    if isinstance(t, pytd.Node):
      return type(t)(**{f: rebuild(getattr(t, f)) for f in t.__struct_fields__})
    return t

  for t in seeds:
    pool.append(t)
    pool.append(rebuild(t))
  # unions: permutations, duplicates, nesting
  for _ in range(n // 8):
    k = rng.choice([2, 2, 3, 4])
    ms = rng.sample(atoms + seeds[: max(4, len(seeds) // 2)], k)
    ms = [m for m in ms if not isinstance(m, pytd.UnionType)] or [atoms[0], atoms[1]]
    if len(ms) < 2:
      ms.append(atoms[2] if ms[0] != atoms[2] else atoms[3])
    pool.append(pytd.UnionType(tuple(ms)))
    p = list(ms)
    rng.shuffle(p)
    pool.append(pytd.UnionType(tuple(rebuild(x) for x in p)))
    pool.append(pytd.UnionType(tuple(ms) + (rebuild(ms[0]),)))          # duplicate member
    pool.append(pytd.UnionType((pytd.UnionType(tuple(ms[:1])),) + tuple(ms[1:])))  # nested
    if rng.random() < 0.5:
      pool.append(pytd.IntersectionType(tuple(ms)))
      pool.append(pytd.IntersectionType(tuple(reversed(ms))))
  # same parameters under GenericType / TupleType / CallableType / Concatenate
  for _ in range(n // 16):
    ps = tuple(rng.choice(atoms + seeds) for _ in range(rng.choice([1, 2, 3])))
    for base in (bnamed("tuple"), named("typing.Callable")):
      for kls in (pytd.GenericType, pytd.TupleType, pytd.CallableType):
        pool.append(kls(base, ps))
      pool.append(pytd.GenericType(rebuild(base), rebuild(ps)))
  # ClassType with / without cls, vs NamedType / LateType of the same name
  for nm in ("K0", "K1", "builtins.int"):
    pool += [pytd.ClassType(nm), pytd.ClassType(nm, dummy), pytd.ClassType(nm, dummy2),
             pytd.NamedType(nm), pytd.LateType(nm), pytd.LateType(nm, True)]
    pool += [pytd.GenericType(pytd.ClassType(nm), (bnamed("int"),)),
             pytd.GenericType(pytd.ClassType(nm, dummy), (bnamed("int"),)),
             pytd.GenericType(pytd.NamedType(nm), (bnamed("int"),))]
  # literals: bool vs int vs str spellings
  t_, f_ = (pytd.Constant("builtins.True", bnamed("bool")),
            pytd.Constant("builtins.False", bnamed("bool")))
  pool += [pytd.Literal(1), pytd.Literal(True), pytd.Literal(t_), pytd.Literal("1"),
           pytd.Literal("'1'"), pytd.Literal(0), pytd.Literal(False), pytd.Literal(f_),
           pytd.Literal(1), pytd.Literal(rebuild(t_))]
  pool += tvs + [rebuild(t) for t in tvs]
  pool += [pytd.Annotated(bnamed("int"), ("'property'",)),
           pytd.Annotated(bnamed("int"), ("'property'",)),
           pytd.Annotated(bnamed("int"), ())]
  while len(pool) < n:
    t = rng.choice(seeds)
    pool.append(rebuild(t))
  rng.shuffle(pool)
  return pool
