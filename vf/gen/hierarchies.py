"""C10: class-hierarchy specifications, renderers (.py / .pyi / probes) and generators.

A hierarchy is JSON-able:  {"classes": [{"bases": [<int index of an earlier class> | "o"],
                                       "attrs": [j, ...]}, ...]}
"o" is an explicit `object` base; an empty base list is the implicit object base.
Class i is named  <pfx>C<i>;  its definition of attribute a<j> is
`a<j> = <pfx>M<i>_<j>()` with a marker class used nowhere else, so the type of
`X.a<j>` names the defining class.

Nothing in this module imports pytype.  The CPython verdicts used for pruning
come from vf.oracle.c10_mro.cpython_eval (real class creation by the running
interpreter).
"""
from __future__ import annotations

import itertools

NATTR = 4


def cname(pfx, i):
  return f"{pfx}C{i}"


def mname(pfx, i, j):
  return f"{pfx}M{i}_{j}"


def base_expr(pfx, b, mod=None, split=None):
  """Classes with index < split live in the stub module `mod`."""
  if b == "o":
    return "object"
  n = cname(pfx, b)
  return f"{mod}.{n}" if mod and (split is None or b < split) else n


def class_stmt_py(h, i, pfx, mod=None, split=None):
  """Source text of class i (header + body), one statement, no trailing newline."""
  c = h["classes"][i]
  bases = ", ".join(base_expr(pfx, b, mod, split) for b in c["bases"])
  head = f"class {cname(pfx, i)}" + (f"({bases})" if c["bases"] else "") + ":"
  body = [f"  a{j} = {mname(pfx, i, j)}()" for j in c["attrs"]]
  if not body:
    body = ["  pass"]
  return "\n".join([head] + body)


def marker_stmts_py(h, i, pfx):
  return [f"class {mname(pfx, i, j)}: pass" for j in h["classes"][i]["attrs"]]


def class_stmt_pyi(h, i, pfx):
  c = h["classes"][i]
  bases = ", ".join(base_expr(pfx, b) for b in c["bases"])
  head = f"class {cname(pfx, i)}" + (f"({bases})" if c["bases"] else "") + ":"
  body = [f"    a{j}: {mname(pfx, i, j)}" for j in c["attrs"]]
  if not body:
    return head + " ..."
  return "\n".join([head] + body)


def marker_stmts_pyi(h, i, pfx):
  return [f"class {mname(pfx, i, j)}: ..." for j in h["classes"][i]["attrs"]]


def skeleton(h, i):
  """Canonical text of class i with its ancestor closure (renumbered in definition
  order); attributes are not part of the skeleton.  Used in mechanism keys."""
  need = set()

  def visit(k):
    if k in need:
      return
    need.add(k)
    for b in h["classes"][k]["bases"]:
      if b != "o":
        visit(b)
  visit(i)
  order = sorted(need)
  ren = {k: n for n, k in enumerate(order)}
  parts = []
  for k in order:
    bs = ",".join("object" if b == "o" else f"K{ren[b]}" for b in h["classes"][k]["bases"])
    parts.append(f"K{ren[k]}({bs})")
  return "; ".join(parts)


def closure(h, i):
  """Sub-hierarchy consisting of class i and its ancestors (renumbered); returns (h2, new index of i)."""
  need = set()

  def visit(k):
    if k in need:
      return
    need.add(k)
    for b in h["classes"][k]["bases"]:
      if b != "o":
        visit(b)
  visit(i)
  order = sorted(need)
  ren = {k: n for n, k in enumerate(order)}
  cl = []
  for k in order:
    c = h["classes"][k]
    cl.append({"bases": ["o" if b == "o" else ren[b] for b in c["bases"]], "attrs": list(c["attrs"])})
  return {"classes": cl}, ren[i]


def is_nontrivial(h):
  return any(len(c["bases"]) >= 2 for c in h["classes"])


# --------------------------------------------------------------------------
# enumeration


def base_lists(n_earlier, max_bases, alphabet):
  """All base lists for a class with `n_earlier` earlier classes.

  alphabet "distinct": ordered selections without repetition from earlier classes.
  alphabet "full":     sequences with repetition over earlier classes + explicit object.
  """
  if alphabet == "distinct":
    for k in range(0, max_bases + 1):
      for t in itertools.permutations(range(n_earlier), k):
        yield list(t)
  else:
    syms = list(range(n_earlier)) + ["o"]
    for k in range(0, max_bases + 1):
      for t in itertools.product(syms, repeat=k):
        yield list(t)


def enumerate_prefix_families(n_classes, max_bases, alphabet, legal):
  """Yields (prefix, leaves): `prefix` is a list of base lists for classes 0..n-2 that
  CPython creates (decided by `legal(base_lists_so_far)`), `leaves` all base lists for
  the n-th class.  Every hierarchy of <= n_classes classes in which each class except
  possibly the last is creatable appears as prefix[:k] + leaf for some family.
  (A class that CPython refuses cannot be derived from, so these are all hierarchies
  whose class statements are all meaningful.)"""
  def rec(prefix):
    k = len(prefix)
    if k == n_classes - 1:
      yield prefix, list(base_lists(k, max_bases, alphabet))
      return
    for bl in base_lists(k, max_bases, alphabet):
      cand = prefix + [bl]
      if legal(cand):
        yield from rec(cand)
  yield from rec([])


def assign_attrs(rng, n, density=None):
  """Random attribute subsets; the root-most classes get more so that lookups go deep."""
  out = []
  for _ in range(n):
    d = density if density is not None else rng.choice([0.25, 0.5, 0.5, 0.75])
    out.append([j for j in range(NATTR) if rng.random() < d])
  return out


def family_to_hierarchy(prefix, leaves, rng):
  """One hierarchy: the prefix classes followed by all leaves as siblings."""
  n = len(prefix) + len(leaves)
  attrs = assign_attrs(rng, n)
  # make sure most attributes exist somewhere in the prefix so leaves resolve them
  for j in range(NATTR):
    if prefix and not any(j in attrs[i] for i in range(len(prefix))) and rng.random() < 0.8:
      attrs[rng.randrange(len(prefix))].append(j)
  cl = []
  for i, bl in enumerate(prefix + leaves):
    cl.append({"bases": bl, "attrs": sorted(set(attrs[i]))})
  return {"classes": cl}


# --------------------------------------------------------------------------
# random hierarchies


def random_hierarchy(rng, max_classes=8, max_bases=3, last_ok=None):
  """`last_ok(classes)` (optional) tells whether CPython creates the last class of the
  list; refused classes stay in the hierarchy as leaves and are not derived from."""
  n = rng.randint(3, max_classes)
  dead = set()
  style = rng.choice(["plain", "plain", "diamond", "wide", "dup", "object", "inconsistent", "chain"])
  cl = []
  for i in range(n):
    if i == 0:
      bl = [] if rng.random() < 0.8 else ["o"]
    else:
      k = rng.choice([0, 1, 1, 2, 2, 2, 3, 3]) if style != "chain" else rng.choice([1, 1, 2])
      k = min(k, max_bases)
      if style == "wide" and i > 2:
        k = min(max_bases, i)
      pool = [x for x in range(i) if x not in dead]
      if style in ("diamond", "inconsistent") and i >= 3 and rng.random() < 0.6:
        # recent classes, which often share an ancestor
        pool = [x for x in range(max(0, i - 3), i) if x not in dead] or pool
      if not pool:
        k = 0
      bl = []
      for _ in range(k):
        bl.append(rng.choice(pool))
      if style != "dup" or rng.random() < 0.6:
        # drop accidental repeats (duplicates are the business of the "dup" style)
        seen = []
        for b in bl:
          if b not in seen:
            seen.append(b)
        bl = seen
      elif len(bl) >= 1 and rng.random() < 0.5 and len(bl) < max_bases:
        bl.insert(rng.randrange(len(bl) + 1), rng.choice(bl))
      if style == "inconsistent" and len(bl) >= 2 and rng.random() < 0.5:
        bl.sort()          # ancestors before descendants: often an inconsistent order
      elif style in ("plain", "diamond", "wide", "chain") and len(bl) >= 2 and rng.random() < 0.7:
        bl.sort(reverse=True)   # descendants first: usually consistent
      if style == "object" and rng.random() < 0.5 and len(bl) < max_bases:
        bl.insert(rng.randrange(len(bl) + 1), "o")
      elif rng.random() < 0.08 and len(bl) < max_bases:
        bl.append("o")
    cl.append({"bases": bl, "attrs": []})
    if last_ok is not None and not last_ok(cl):
      dead.add(i)
  attrs = assign_attrs(rng, n)
  for i in range(n):
    cl[i]["attrs"] = attrs[i]
  return {"classes": cl, "style": style}


# --------------------------------------------------------------------------
# targeted slice: shapes in which the C3 head choice depends on going back to an
# earlier sequence (5-6 classes, 2-3 roots, a last class with 2-3 bases)


def targeted_prefixes(n_classes, legal):
  """Base lists of classes 0..n-2: the first 2 or 3 are roots, every later one has 1 or 2
  distinct bases (ordered) among the earlier classes; only prefixes CPython creates."""
  npre = n_classes - 1
  out = []

  def rec(prefix):
    k = len(prefix)
    if k == npre:
      out.append(prefix)
      return
    for m in (1, 2):
      for t in itertools.permutations(range(k), m):
        cand = prefix + [list(t)]
        if legal(cand):
          rec(cand)
  for roots in (2, 3):
    if roots <= npre - 1:
      rec([[] for _ in range(roots)])
  return out


def targeted_leaves(n_prefix):
  """Every ordered selection of 2 or 3 distinct prefix classes as the last class's bases."""
  return [list(t) for m in (2, 3) for t in itertools.permutations(range(n_prefix), m)]


def pair_attr_hierarchy(prefix, leaves):
  """Prefix classes + sibling leaves.  For every pair {x, y} of prefix classes there is an
  attribute defined in exactly x and y (distinct marker types), so reading all pair
  attributes through a leaf reveals the relative order of any two of its ancestors.
  Leaves define nothing.  Only `C.attr` probes are generated (class_probes_only)."""
  n = len(prefix)
  attrs = [[] for _ in range(n)]
  j = 10
  for x in range(n):
    for y in range(x + 1, n):
      attrs[x].append(j)
      attrs[y].append(j)
      j += 1
  cl = [{"bases": bl, "attrs": attrs[i]} for i, bl in enumerate(prefix)]
  cl += [{"bases": bl, "attrs": []} for bl in leaves]
  return {"classes": cl, "class_probes_only": True, "probe_from": n}


def bare_hierarchy(prefix, leaves):
  return {"classes": [{"bases": bl, "attrs": []} for bl in prefix + leaves]}
