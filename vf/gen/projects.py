"""Project-tree generator for C19 (whole-project build plan).

A project spec is a JSON-able dict:

  files     {path relative to the project dir: source text}
  roots     [pythonpath entries, relative to the project dir]
  out       output dir, relative to the project dir
  requested [paths (relative) passed as conf.inputs]
  deps      {path: [paths]}   local modules the file CERTAINLY imports (ground truth by construction)
  sysdeps   {path: [imports-map keys]}  system modules it certainly imports (-> default.pyi)
  conf      {attribute: value} extra settings copied onto the analyze_project Config
  kind,label  free text for evidence
  direct    optional: a `sorted_sources` list for PytypeRunner bypassing importlab
            [{"group": [mod], "deps": [mod]}], mod = {"path","target","name","kind"} (path relative)
  fake_graph optional: input for pytype_runner.deps_from_import_graph through a fake import graph
            {"order": [file], "deps": {file: [file]}, "kinds": {file: "Local"|...}}

Nothing here imports pytype or importlab.
"""
from __future__ import annotations

import itertools
import os
import random

BODY = "X = 1\n"


# ---------------------------------------------------------------------------
# helpers


def stem_of(spec, rel):
  """Path of `rel` below the first pythonpath root containing it, without extension."""
  for r in spec["roots"]:
    pre = r.rstrip("/") + "/"
    if rel.startswith(pre):
      s = rel[len(pre):]
      return os.path.splitext(s)[0]
  return None


def module_names(stem):
  if stem is None:
    return [""]
  dotted = stem.replace("/", ".")
  if dotted.endswith(".__init__"):
    return [dotted, dotted[:-len(".__init__")]]
  if dotted == "__init__":
    return [dotted, ""]
  return [dotted]


def materialize(spec, base):
  """Writes the tree under `base` (an existing empty dir). Returns {rel: abs}."""
  out = {}
  for rel, text in spec["files"].items():
    p = os.path.join(base, rel)
    os.makedirs(os.path.dirname(p), exist_ok=True)
    with open(p, "w") as f:
      f.write(text)
    out[rel] = p
  for r in spec["roots"]:
    os.makedirs(os.path.join(base, r), exist_ok=True)
  return out


def expectations(spec, base, requested=None):
  """The `expect` argument of vf.oracle.c19_plan.check_plan."""
  ab = lambda rel: os.path.join(base, rel)
  pf = {}
  for rel in spec["files"]:
    if rel.endswith(".py"):
      st = stem_of(spec, rel)
      pf[ab(rel)] = {"module": module_names(st), "stem": st}
  exp = {
      "requested": [ab(r) for r in (requested if requested is not None else spec["requested"])],
      "project_files": pf,
      "expected_deps": {ab(k): [ab(x) for x in v] for k, v in spec.get("deps", {}).items()},
      "default_keys": {ab(k): list(v) for k, v in spec.get("sysdeps", {}).items()},
      "allow_foreign": list(spec.get("allow_foreign", [])),
  }
  for m in spec.get("extra_modules", []):     # direct mode: modules that are not files of the tree
    p = os.path.join(m["path"], m["target"]) if os.path.isabs(m["path"]) else ab(
        os.path.join(m["path"], m["target"]))
    pf[p] = {"module": [m["name"]], "stem": None}
  return exp


def subsets(items, rng=None, cap=None):
  """All non-empty subsets; sampled (always incl. singletons' first, the full set) when > cap."""
  items = list(items)
  allsubs = [list(c) for k in range(1, len(items) + 1) for c in itertools.combinations(items, k)]
  if cap is None or len(allsubs) <= cap:
    return allsubs
  keep = [allsubs[-1]] + [[x] for x in items][:max(1, cap // 3)]
  rest = [s for s in allsubs if s not in keep]
  rng.shuffle(rest)
  return keep + rest[:max(0, cap - len(keep))]


# ---------------------------------------------------------------------------
# flat graphs (exhaustive slice)


def flat(n, mask, root="src", out="out"):
  """Modules m0..m{n-1} in one directory; bit k of mask = k-th ordered pair (i, j), i != j."""
  pairs = [(i, j) for i in range(n) for j in range(n) if i != j]
  edges = [p for k, p in enumerate(pairs) if mask >> k & 1]
  files, deps = {}, {}
  for i in range(n):
    rel = f"{root}/m{i}.py"
    tgt = [j for (a, j) in edges if a == i]
    files[rel] = "".join(f"import m{j}\n" for j in tgt) + BODY
    deps[rel] = [f"{root}/m{j}.py" for j in tgt]
  return {"kind": f"flat{n}", "label": f"n={n} mask={mask}", "files": files, "roots": [root],
          "out": out, "requested": [f"{root}/m{i}.py" for i in range(n)], "deps": deps,
          "sysdeps": {}, "conf": {}, "edges": edges}


def n_flat(n):
  return 1 << (n * (n - 1))


# ---------------------------------------------------------------------------
# named shapes


def _graph(name, edges, extra_lines=None, root="src"):
  nodes = sorted({x for e in edges for x in e} | set(extra_lines or {}))
  files, deps, sysdeps = {}, {}, {}
  for a in nodes:
    rel = f"{root}/{a}.py"
    tg = [b for (x, b) in edges if x == a]
    lines = [f"import {b}" for b in tg]
    sysk = []
    for ln in (extra_lines or {}).get(a, []):
      lines.append(ln)
      if ln in ("import json", "from json import dumps"):
        sysk.append("json/__init__")
    files[rel] = "\n".join(lines + [BODY])
    deps[rel] = [f"{root}/{b}.py" for b in tg]
    if sysk:
      sysdeps[rel] = sysk
  return {"kind": "shape", "label": name, "files": files, "roots": [root], "out": "out",
          "requested": [f"{root}/{a}.py" for a in nodes], "deps": deps, "sysdeps": sysdeps, "conf": {}}


def shapes():
  out = []
  E = lambda s: [tuple(x.split(">")) for x in s.split()]
  out.append(_graph("chain3", E("a>b b>c")))
  out.append(_graph("diamond", E("a>b a>c b>d c>d")))
  out.append(_graph("two_cycle", E("a>b b>a")))
  out.append(_graph("three_cycle", E("a>b b>c c>a")))
  out.append(_graph("three_cycle_sharing_node_with_two_cycle", E("a>b b>c c>a a>d d>a")))
  out.append(_graph("cycle_with_tails", E("t>a a>b b>a b>u")))
  out.append(_graph("two_cycles_chained", E("a>b b>a b>c c>d d>c")))
  out.append(_graph("two_cycles_joined_by_top", E("top>a top>c a>b b>a c>d d>c")))
  for k in (4, 5, 6):
    ring = [(f"r{i}", f"r{(i + 1) % k}") for i in range(k)]
    out.append(_graph(f"ring{k}", ring))
  out.append(_graph("cycle_with_system_builtin_missing", E("a>b b>a top>a"),
                    {"a": ["import json", "import sys"], "b": ["import nosuchmodule", "from json import dumps"],
                     "top": ["import sys", "from nosuchpkg import z"]}))
  out.append(_graph("dag_with_system", E("a>b a>c"), {"c": ["import json"], "b": ["import sys"]}))
  out.append(_graph("cycle_feeding_cycle_feeding_leaf", E("a>b b>a b>c c>d d>c d>e")))
  # packages, relative imports
  out.append({
      "kind": "shape", "label": "package_cycle_relative", "roots": ["src"], "out": "out", "conf": {},
      "files": {"src/p/__init__.py": "", "src/p/x.py": "from . import y\n" + BODY,
                "src/p/y.py": "from .x import X\n" + BODY, "src/use.py": "from p import x\n" + BODY},
      "requested": ["src/p/x.py", "src/p/y.py", "src/use.py"],
      "deps": {"src/p/x.py": ["src/p/y.py"], "src/p/y.py": ["src/p/x.py"], "src/use.py": ["src/p/x.py"]},
      "sysdeps": {}})
  out.append({
      "kind": "shape", "label": "init_in_cycle", "roots": ["src"], "out": "out", "conf": {},
      "files": {"src/p/__init__.py": "from . import x\n" + BODY, "src/p/x.py": "import p\n" + BODY,
                "src/p/q/__init__.py": "from .. import x\n", "src/p/q/z.py": "from ..x import X\nfrom . import nothing\n",
                "src/use.py": "import p.q.z\nimport p\n"},
      "requested": ["src/p/__init__.py", "src/p/x.py", "src/p/q/z.py", "src/use.py"],
      "deps": {"src/p/__init__.py": ["src/p/x.py"], "src/p/x.py": ["src/p/__init__.py"],
               "src/p/q/z.py": ["src/p/x.py"], "src/use.py": ["src/p/q/z.py", "src/p/__init__.py"]},
      "sysdeps": {}})
  out.append({
      "kind": "shape", "label": "pyi_neighbours", "roots": ["src"], "out": "out", "conf": {},
      "files": {"src/a.py": "import b\nimport onlystub\n" + BODY, "src/b.py": "import c\n" + BODY,
                "src/b.pyi": "X: int\n", "src/c.py": BODY, "src/onlystub.pyi": "X: int\n",
                "src/c.pyi": "X: int\n"},
      "requested": ["src/a.py", "src/b.py", "src/c.py"],
      "deps": {"src/a.py": ["src/b.py"], "src/b.py": ["src/c.py"]}, "sysdeps": {}})
  out.append({
      "kind": "shape", "label": "unparseable_member", "roots": ["src"], "out": "out", "conf": {},
      "files": {"src/a.py": "import b\n" + BODY, "src/b.py": "def (:\n", "src/c.py": "import a\n"},
      "requested": ["src/a.py", "src/b.py", "src/c.py"],
      "deps": {"src/a.py": ["src/b.py"], "src/c.py": ["src/a.py"]}, "sysdeps": {}})
  return out


# ---------------------------------------------------------------------------
# random projects


def _rel_import(apkg, bpkg, bname, rng):
  """A relative import statement from a module in package apkg to module bpkg.bname, or None."""
  if not apkg or not bpkg or apkg[0] != bpkg[0]:
    return None
  common = 0
  while common < min(len(apkg), len(bpkg)) and apkg[common] == bpkg[common]:
    common += 1
  level = len(apkg) - common + 1
  rest = list(bpkg[common:])
  dots = "." * level
  if rng.random() < 0.5:
    return f"from {dots}{'.'.join(rest)} import {bname}"
  return f"from {dots}{'.'.join(rest + [bname])} import X"


def random_project(rng, max_modules=8, root="src"):
  n = rng.randint(2, max_modules)
  pk_choices = [(), (), ("p0",), ("p0", "s0"), ("p1",), ("p0", "s1")]
  mods = []
  for i in range(n):
    mods.append({"pkg": rng.choice(pk_choices), "name": f"m{i}"})
  pkgs = set()
  for m in mods:
    for k in range(1, len(m["pkg"]) + 1):
      pkgs.add(m["pkg"][:k])
  inits = [{"pkg": p, "name": "__init__"} for p in sorted(pkgs)]
  every = mods + inits
  rel = lambda m: f"{root}/" + "/".join(m["pkg"] + (m["name"],)) + ".py"
  style = rng.choice(["dag", "dag", "cyclic", "cyclic", "dense", "sparse"])
  edges = set()
  order = list(range(n))
  rng.shuffle(order)
  pos = {v: k for k, v in enumerate(order)}
  p = {"dag": 0.35, "cyclic": 0.3, "dense": 0.6, "sparse": 0.15}[style]
  for i in range(n):
    for j in range(n):
      if i == j:
        continue
      fwd = pos[i] < pos[j]
      if fwd and rng.random() < p:
        edges.add((i, j))
      if not fwd and style in ("cyclic", "dense") and rng.random() < p * 0.45:
        edges.add((i, j))
  if style == "cyclic" and n >= 3 and rng.random() < 0.6:       # a guaranteed cycle of random size
    k = rng.randint(2, min(n, 5))
    cyc = rng.sample(range(n), k)
    for a, b in zip(cyc, cyc[1:] + cyc[:1]):
      edges.add((a, b))
  lines = {rel(m): [] for m in every}
  deps = {rel(m): [] for m in every}
  sysdeps = {}
  for (i, j) in sorted(edges):
    a, b = mods[i], mods[j]
    dotted = ".".join(b["pkg"] + (b["name"],))
    opts = [f"import {dotted}", f"from {dotted} import X"]
    if b["pkg"]:
      opts.append(f"from {'.'.join(b['pkg'])} import {b['name']}")
    r = _rel_import(a["pkg"], b["pkg"], b["name"], rng)
    if r:
      opts += [r, r]
    lines[rel(a)].append(rng.choice(opts))
    deps[rel(a)].append(rel(b))
  # __init__ files importing members / members importing their package
  for ini in inits:
    members = [m for m in mods if m["pkg"] == ini["pkg"]]
    if members and rng.random() < 0.4:
      m = rng.choice(members)
      lines[rel(ini)].append(rng.choice([f"from . import {m['name']}", f"from .{m['name']} import X"]))
      deps[rel(ini)].append(rel(m))
    if rng.random() < 0.25:
      importer = rng.choice(mods)
      lines[rel(importer)].append("import " + ".".join(ini["pkg"]))
      deps[rel(importer)].append(rel(ini))
  for m in every:
    r = rng.random()
    if r < 0.15:
      lines[rel(m)].append("import json")
      sysdeps.setdefault(rel(m), []).append("json/__init__")
    elif r < 0.3:
      lines[rel(m)].append("import sys")
    elif r < 0.4:
      lines[rel(m)].append(rng.choice(["import nosuchmodule", "from nosuchpkg.sub import z",
                                       "import os.path", "from json import dumps"]))
      if lines[rel(m)][-1] == "from json import dumps":
        sysdeps.setdefault(rel(m), []).append("json/__init__")
  files = {k: "\n".join(v + [BODY]) for k, v in lines.items()}
  if rng.random() < 0.2:
    m = rng.choice(mods)
    files[rel(m) + "i"] = "X: int\n"           # a .pyi neighbour of a source file
  conf = {}
  r = rng.random()
  if r < 0.15:
    conf = {"disable": ["attribute-error", "import-error"]}
  elif r < 0.3:
    conf = {"protocols": True, "keep_going": True}
  elif r < 0.4:
    conf = {"platform": "win32"}
  return {"kind": "random", "label": f"{style} n={n}", "files": files, "roots": [root], "out": "out",
          "requested": [rel(m) for m in mods] + [rel(i) for i in inits], "deps": deps,
          "sysdeps": sysdeps, "conf": conf}


# ---------------------------------------------------------------------------
# hostile names

HOSTILE = [" ", ":", "$", "$$", "$x", "${x}", " $", "$ ", ": ", "$:", "$$$", " : $ $$ "]


def _hostile_base(root, out, pk="pk", leaf="top"):
  files = {
      f"{root}/m1.py": BODY,
      f"{root}/c1.py": "import c2\n" + BODY,
      f"{root}/c2.py": "import c1\nimport m1\nimport json\n" + BODY,
      f"{root}/{leaf}.py": "import m1\nimport c1\n" + BODY,
      f"{root}/{pk}/__init__.py": "",
      f"{root}/{pk}/a.py": "from . import b\n" + BODY,
      f"{root}/{pk}/b.py": BODY,
  }
  deps = {f"{root}/c1.py": [f"{root}/c2.py"], f"{root}/c2.py": [f"{root}/c1.py", f"{root}/m1.py"],
          f"{root}/{leaf}.py": [f"{root}/m1.py", f"{root}/c1.py"],
          f"{root}/{pk}/a.py": [f"{root}/{pk}/b.py"]}
  return {"files": files, "roots": [root], "out": out, "deps": deps,
          "sysdeps": {f"{root}/c2.py": ["json/__init__"]}, "conf": {},
          "requested": [f"{root}/{leaf}.py", f"{root}/{pk}/a.py", f"{root}/c2.py"]}


def hostile_projects(rng, count=None):
  """(spec, where) pairs; `where` says which path component carries the special characters."""
  out = []
  for h in HOSTILE:
    name = f"d{h}q"
    for where in ("root", "out", "both", "nested"):
      if where == "root":
        s = _hostile_base(name, "out")
      elif where == "out":
        s = _hostile_base("src", name)
      elif where == "both":
        s = _hostile_base(name + "/s", name + "/o" + h)
      else:
        s = _hostile_base(f"a{h}/b{h}c/src", f"o/{h}x/out")
      s["kind"] = f"hostile-dirs"
      s["label"] = f"{where}:{h!r}"
      out.append(s)
    # special characters inside module names (package dir / requested leaf)
    s = _hostile_base("src", "out", pk=f"p{h}k")
    s["kind"], s["label"] = "hostile-package", f"package:{h!r}"
    out.append(s)
    s = _hostile_base("src", "out", leaf=f"t{h}p")
    s["kind"], s["label"] = "hostile-leaf", f"leaf:{h!r}"
    out.append(s)
  s = _hostile_base("src", "out", leaf="t$")
  s["kind"], s["label"] = "hostile-leaf", "leaf:trailing-dollar"
  out.append(s)
  s = _hostile_base("src", "out", leaf="t$")
  s["files"]["src/u$.py"] = "import m1\n" + BODY
  s["files"]["src/v$.py"] = "import c1\n" + BODY
  s["deps"]["src/u$.py"] = ["src/m1.py"]
  s["deps"]["src/v$.py"] = ["src/c1.py"]
  s["requested"] = ["src/t$.py", "src/u$.py", "src/v$.py", "src/pk/a.py"]
  s["kind"], s["label"] = "hostile-leaf", "leaf:three-trailing-dollars"
  out.append(s)
  s = _hostile_base("src", "out", pk="pk$")
  s["kind"], s["label"] = "hostile-package", "package:trailing-dollar"
  out.append(s)
  if count is not None and len(out) > count:
    keep = [x for x in out if x["kind"] != "hostile-dirs"]
    rest = [x for x in out if x["kind"] == "hostile-dirs"]
    rng.shuffle(rest)
    out = keep + rest[:max(0, count - len(keep))]
  return out


# ---------------------------------------------------------------------------
# requested files outside every pythonpath entry


def outside_root_projects():
  out = []
  base = {"src/a.py": BODY, "src/b.py": "import a\n" + BODY, "src/c.py": BODY}
  s = {"kind": "outside-root", "label": "one script", "roots": ["src"], "out": "out", "conf": {},
       "files": dict(base, **{"scripts/run1.py": "import b\n" + BODY}),
       "requested": ["scripts/run1.py"], "deps": {"scripts/run1.py": ["src/b.py"], "src/b.py": ["src/a.py"]},
       "sysdeps": {}}
  out.append(s)
  s = {"kind": "outside-root", "label": "two scripts", "roots": ["src"], "out": "out", "conf": {},
       "files": dict(base, **{"scripts/run1.py": "import a\n" + BODY, "scripts/run2.py": "import c\n" + BODY}),
       "requested": ["scripts/run1.py", "scripts/run2.py"],
       "deps": {"scripts/run1.py": ["src/a.py"], "scripts/run2.py": ["src/c.py"], "src/b.py": ["src/a.py"]},
       "sysdeps": {}}
  out.append(s)
  s = {"kind": "outside-root", "label": "two scripts, same basename", "roots": ["src"], "out": "out",
       "conf": {},
       "files": dict(base, **{"s1/run.py": "import a\n" + BODY, "s2/run.py": "import c\n" + BODY}),
       "requested": ["s1/run.py", "s2/run.py"],
       "deps": {"s1/run.py": ["src/a.py"], "s2/run.py": ["src/c.py"]}, "sysdeps": {}}
  out.append(s)
  return out


# ---------------------------------------------------------------------------
# direct sorted_sources (shapes importlab cannot produce) and fake import graphs with stubs


def _mod(root, target, kind="Local"):
  name = os.path.splitext(target)[0].replace("/", ".")
  return {"path": root + "/", "target": target, "name": name, "kind": kind}


SYS = {"path": "/usr/lib/python3.12/", "target": "json/__init__.py", "name": "json.__init__", "kind": "System"}
SYS2 = {"path": "/usr/lib/python3.12/", "target": "os.py", "name": "os", "kind": "System"}
BUILTIN = {"path": "", "target": "sys.so", "name": "sys", "kind": "Builtin"}
EXT = {"path": "ext/", "target": "pytype_extensions/x.py",
       "name": "pytype_extensions.x", "kind": "System"}


def _direct_spec(label, groups, requested):
  """groups: [(group mods, dep mods)]"""
  files, deps, sysdeps = {}, {}, {}
  extra = []
  for g, d in groups:
    for m in g:
      if m["kind"] in ("Local", "Direct"):
        rel = m["path"] + m["target"]
        files[rel] = BODY
        loc = [x["path"] + x["target"] for x in d if x["kind"] in ("Local", "Direct")]
        loc += [x["path"] + x["target"] for x in g if x is not m and x["kind"] in ("Local", "Direct")
                and len(g) > 1]
        deps[rel] = sorted(set(loc))
        sk = [os.path.splitext(x["target"])[0] for x in d
              if x["kind"] in ("System", "Builtin") and not x["name"].startswith("pytype_extensions.")]
        if sk:
          sysdeps[rel] = sorted(set(sk))
      else:
        extra.append(m)
    for m in d:
      if m["kind"] not in ("Local", "Direct"):
        extra.append(m)
  for m in extra:
    if m["path"] and not os.path.isabs(m["path"]):
      files[m["path"] + m["target"]] = BODY       # lives in the tree although its kind is System
  return {"kind": "direct", "label": label, "files": files, "roots": ["src"], "out": "out",
          "requested": requested, "deps": deps, "sysdeps": sysdeps, "conf": {},
          "direct": [{"group": list(g), "deps": list(d)} for g, d in groups],
          "extra_modules": extra, "allow_foreign": []}


def direct_projects(rng, nrandom=10):
  out = []
  a, b, c, d, e = (_mod("src", f"{x}.py") for x in "abcde")
  pa, pb = _mod("src", "p/a.py"), _mod("src", "p/__init__.py")
  pb["name"] = "p.__init__"
  R = lambda *ms: [m["path"] + m["target"] for m in ms]
  out.append(_direct_spec("system member inside a two-pass group",
                          [((a,), ()), ((b, SYS, c), (a,)), ((d,), (b, c, SYS))], R(d, b)))
  out.append(_direct_spec("builtin member inside a two-pass group",
                          [((a, BUILTIN, b), ()), ((c,), (a, b, BUILTIN))], R(c, a)))
  out.append(_direct_spec("group of three with system and builtin deps",
                          [((SYS,), ()), ((BUILTIN,), ()), ((a,), (SYS, BUILTIN)), ((b, c, d), (a, SYS)),
                           ((e,), (b, c, d))],
                          R(e, c)))
  out.append(_direct_spec("pytype_extensions system module is analysed",
                          [((EXT,), ()), ((a,), (EXT,)), ((b,), (a, EXT))], R(b)))
  out.append(_direct_spec("duplicate deps", [((a,), ()), ((b,), (a, a)), ((c, d), (b, a, b)),
                                             ((e,), (c, d, c))], R(e, d)))
  out.append(_direct_spec("dependency on one member of a cycle only",
                          [((a, b), ()), ((c,), (a,)), ((d,), (b,)), ((e,), (c, d))], R(e, a)))
  out.append(_direct_spec("empty group", [((a,), ()), ((), (a,)), ((b,), (a,))], R(b)))
  out.append(_direct_spec("group consisting only of system modules",
                          [((SYS, SYS2), ()), ((a,), (SYS, SYS2)), ((b,), (a,))], R(b, a)))
  out.append(_direct_spec("package init in a group with its member",
                          [((pa, pb), ()), ((c,), (pa, pb))], R(c, pb)))
  out.append(_direct_spec("requested files only in the first group: later groups are skipped",
                          [((a,), ()), ((b,), (a,)), ((c, d), (b,)), ((e,), (c, d))], R(a)))
  sdep = _mod("src", "sysdep.py", "System")
  out.append(_direct_spec("local module behind a system module that itself depends on a local module",
                          [((a,), ()), ((sdep,), (a,)), ((b,), (sdep,)), ((c,), (b,))], R(b)))
  out.append(_direct_spec("system module with local deps next to a direct local dep",
                          [((a,), ()), ((d,), ()), ((sdep,), (a, d)), ((b,), (sdep, d)), ((c,), (b, sdep))],
                          R(c, b)))
  for k in range(nrandom):
    names = [f"g{k}_{i}" for i in range(rng.randint(3, 8))]
    mods = [_mod("src", f"{x}.py") for x in names]
    groups, i = [((SYS,), ()), ((SYS2,), ()), ((BUILTIN,), ())], 0   # every dep is itself a node
    earlier = []
    sysdeps = []
    while i < len(mods):
      size = rng.choice([1, 1, 1, 2, 2, 3])
      g = mods[i:i + size]
      i += size
      if rng.random() < 0.15 and len(g) > 1:
        g = g + [_mod("src", f"sysmember{k}_{i}.py", "System")]   # a system module inside a cycle
      dd = [m for m in earlier if rng.random() < 0.4]
      if rng.random() < 0.2:
        dd.append(rng.choice([SYS, BUILTIN, SYS2]))
      if earlier and rng.random() < 0.25:
        # a system module that depends on local modules; later groups may depend on it
        sm = _mod("src", f"sysdep{k}_{i}.py", "System")
        groups.append(((sm,), tuple(m for m in earlier if m["kind"] == "Local" and rng.random() < 0.6)))
        sysdeps.append(sm)
      dd += [m for m in sysdeps if rng.random() < 0.5]
      groups.append((tuple(g), tuple(dd)))
      earlier += [m for m in g if m["kind"] == "Local"]
    req = rng.sample(mods, rng.randint(1, len(mods)))
    out.append(_direct_spec(f"random groups #{k}", groups, R(*req)))
  return out


def fake_graph_projects(rng, n=8):
  """Import graphs containing type stubs (.pyi nodes), for deps_from_import_graph.

  A source that depends on a stub inherits the stub's (transitive) source dependencies.
  """
  out = []
  for k in range(n):
    size = rng.randint(3, 7)
    nodes = []
    for i in range(size):
      stub = rng.random() < 0.4 and i not in (0,)
      nodes.append(f"src/n{i}.pyi" if stub else f"src/n{i}.py")
    edges = {x: [] for x in nodes}
    for i in range(size):
      for j in range(i + 1, size):
        if rng.random() < 0.45:
          edges[nodes[i]].append(nodes[j])       # i imports j ; order: dependents first
    # expected: source deps of a source = direct source deps + sources reachable through stub chains
    def through_stubs(x, seen):
      res = []
      for y in edges[x]:
        if y.endswith(".pyi"):
          if y not in seen:
            seen.add(y)
            res += through_stubs(y, seen)
        else:
          res.append(y)
      return res
    files = {x: BODY for x in nodes}
    deps = {x: sorted(set(through_stubs(x, set()))) for x in nodes if x.endswith(".py")}
    srcs = [x for x in nodes if x.endswith(".py")]
    req = rng.sample(srcs, rng.randint(1, len(srcs)))
    out.append({"kind": "fake-graph", "label": f"stubs #{k}", "files": files, "roots": ["src"],
                "out": "out", "requested": req, "deps": deps, "sysdeps": {}, "conf": {},
                "fake_graph": {"order": nodes, "deps": edges}})
  return out
